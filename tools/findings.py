"""Known findings: a diverging case is a KNOWN-FINDING only if it matches a signature listed in
/verif/known_findings.json; signatures are (a) crash signatures panic:<msg>@<site>[<op>] and
(b) named trigger predicates over the session's syntax trees (DESIGN.md Appendix E)."""
import json
import vlib
from astlib import walk

_f = None


def _load():
    global _f
    if _f is None:
        _f = vlib.load_findings()
    return _f


def crash_sig(rec):
    if rec.get("kind") == "panic":
        return "panic:%s@%s[%s]" % (rec.get("msg", ""), rec.get("site", ""), rec.get("op", "") or rec.get("phase", ""))
    if rec.get("kind") == "hang":
        return "hang:" + rec.get("where", "")
    return None


PREDICATES = {}


def predicate(name):
    def deco(fn):
        PREDICATES[name] = fn
        return fn
    return deco


def classify(pid, v):
    """returns (finding id, description) or None"""
    d = v.info or {}
    rec = d.get("recorded", {})
    sig = crash_sig(rec)
    for f in _load().get("findings", []):
        if pid not in f.get("properties", []):
            continue
        if f.get("crash") and sig == f["crash"]:
            return f["id"], f["what"]
        p = f.get("predicate")
        if p and p in PREDICATES and PREDICATES[p](v):
            return f["id"], f["what"]
    return None
