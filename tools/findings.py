"""Known findings: a diverging case is a KNOWN-FINDING only if it matches a signature listed in
/verif/known_findings.json; signatures are (a) crash signatures panic:<msg>@<site>[<op>] and
(b) named trigger predicates over the session's syntax trees (DESIGN.md Appendix E)."""
import json
import vlib
from astlib import walk

_f = None


def _load():
    global _f
    if _f is None:
        _f = vlib.load_findings()
    return _f


def crash_sig(rec):
    if rec.get("kind") == "panic":
        return "panic:%s@%s[%s]" % (rec.get("msg", ""), rec.get("site", ""), rec.get("op", "") or rec.get("phase", ""))
    if rec.get("kind") == "hang":
        return "hang:" + rec.get("where", "")
    return None


PREDICATES = {}


def predicate(name):
    def deco(fn):
        PREDICATES[name] = fn
        return fn
    return deco


def classify(pid, v):
    """returns (finding id, description) or None"""
    d = v.info or {}
    rec = d.get("recorded", {})
    sig = crash_sig(rec)
    for f in _load().get("findings", []):
        if pid not in f.get("properties", []):
            continue
        if f.get("crash") and sig == f["crash"]:
            return f["id"], f["what"]
        p = f.get("predicate")
        if p and p in PREDICATES and PREDICATES[p](v):
            return f["id"], f["what"]
    return None


# ------------------------------------------------------------------ trigger predicates

def _fn_nodes(items):
    for it in items:
        if isinstance(it, dict) and it.get("perr"):
            continue
        for n in walk(it):
            if n.get("t") == "fn":
                yield n


def _assigned_names(body, stop_at_fn=True):
    out = set()

    def go(n):
        if isinstance(n, dict):
            if n.get("t") == "fn" and stop_at_fn:
                return            # names assigned inside an inner function literal belong to that function
            if n.get("t") == "assign":
                out.add(n["tgt"]["n"])
            if n.get("t") == "for":
                for v in n["vars"]:
                    out.add(v["n"])
            for v in n.values():
                go(v)
        elif isinstance(n, list):
            for v in n:
                go(v)
    go(body)
    return out


def _direct_inner_fns(body):
    out = []

    def go(n):
        if isinstance(n, dict):
            if n.get("t") == "fn":
                out.append(n)
                return
            for v in n.values():
                go(v)
        elif isinstance(n, list):
            for v in n:
                go(v)
    go(body)
    return out


def _names_read(n):
    return {x["n"] for x in walk(n) if x.get("t") == "name"}


def _captures(F):
    """(inner fn, captured names) for function literals directly inside F that read F's own variables"""
    own = set(F["params"]) | _assigned_names(F["body"])
    res = []
    for g in _direct_inner_fns(F["body"]):
        gown = set(g["params"])
        cap = (_names_read(g["body"]) - gown) & own
        if cap:
            res.append((g, cap))
    return res


def _wrong_result(v):
    d = v.info or {}
    return d.get("aspect") in ("value", "output", "class") or (d.get("aspect") == "kind" and d.get("recorded", {}).get("kind") in ("err", "val"))


@predicate("closure-after-growth")
def closure_after_growth(v):
    """D11: a variable captured by an inner function literal is assigned in the defining function, and the
    operand stack of the real machine has been reallocated (grown beyond its initial 128 slots) in this session"""
    if not _wrong_result(v):
        return False
    grown = any((o.get("residue") or {}).get("stacklen", 0) > 128 for o in (v.real or []))
    if not grown:
        return False
    for F in _fn_nodes(v.session["items"]):
        for g, cap in _captures(F):
            if cap & _assigned_names(F["body"]):
                return True
    return False


def _list_contains_fn(n, fnnames):
    for x in walk(n):
        if x.get("t") == "list":
            for y in walk(x):
                if y.get("t") == "fn" or (y.get("t") == "name" and y["n"] in fnnames):
                    return True
    return False


@predicate("closure-in-array-escape")
def closure_in_array_escape(v):
    """D12: a function builds an array that contains a function value capturing one of its variables
    (so the closure can leave its definer inside an array)"""
    if not _wrong_result(v):
        return False
    for F in _fn_nodes(v.session["items"]):
        caps = _captures(F)
        if not caps:
            continue
        fnnames = set()
        for x in walk(F["body"]):
            if x.get("t") == "assign" and x["e"].get("t") == "fn":
                fnnames.add(x["tgt"]["n"])
        # ... and the array can leave F: a value that may carry the closure (the array itself, a variable bound to it, a concatenation, an
        # element or slice of it, the result of a call that was given it) is what F evaluates to, returns or yields.  An array of closures
        # that stays inside F -- even if F hands it to callees and calls the closures itself -- is not this finding.
        capset = [g for g, _ in caps]
        carriers = set()

        def carrier(e):
            t = e.get("t")
            if t == "list":
                return any((x.get("t") == "fn" and any(x is g for g in capset)) or (x.get("t") == "name" and x["n"] in fnnames) or carrier(x) for x in e["e"])
            if t == "name":
                return e["n"] in carriers
            if t == "bin":
                return e["op"] == "+" and (carrier(e["l"]) or carrier(e["r"]))
            if t == "ix1":
                return carrier(e["a"])
            if t == "ix2":
                return carrier(e["a"])
            if t == "call":
                return any(carrier(a) for a in e["args"])
            if t in ("if", "ifelse"):
                return carrier(e["th"]) or (t == "ifelse" and carrier(e["el"]))
            if t == "block":
                return bool(e["ss"]) and carrier(e["ss"][-1])
            if t == "assign":
                return carrier(e["e"])
            return False
        changed = True
        while changed:
            changed = False
            for x in walk(F["body"]):
                if x.get("t") == "assign" and x["tgt"]["n"] not in carriers and carrier(x["e"]):
                    carriers.add(x["tgt"]["n"])
                    changed = True
                if x.get("t") == "for":
                    for vn, itx in zip(x["vars"], x["iters"]):
                        if vn["n"] not in carriers and carrier(itx):
                            carriers.add(vn["n"])
                            changed = True
        outs = [F["body"]] + [x["e"] for x in walk(F["body"]) if x.get("t") in ("ret", "yield")]
        tails = []
        for o in outs:
            while o.get("t") == "block" and o["ss"]:
                o = o["ss"][-1]
            tails.append(o)
        if any(carrier(o) for o in tails):
            return True
    return False



@predicate("closure-yield-escape")
def closure_yield_escape(v):
    """D26: a generator yields a function value capturing one of its variables, a for loop over that generator runs to its end
    (its body contains no return, so no RET ever snapshots the frame), and the session then gives a wrong result"""
    if not _wrong_result(v):
        return False
    items = [it for it in v.session["items"] if not (isinstance(it, dict) and it.get("perr"))]
    gens_ = set()
    for it in items:
        for x in walk(it):
            if x.get("t") == "assign" and x["e"].get("t") == "fn":
                F = x["e"]
                caps = _captures(F)
                if not caps:
                    continue
                fnnames = {a["tgt"]["n"] for a in walk(F["body"]) if a.get("t") == "assign" and a["e"].get("t") == "fn"}
                for yn in walk(F["body"]):
                    if yn.get("t") == "yield" and any((z.get("t") == "fn" and any(z is g for g, _ in caps)) or (z.get("t") == "name" and z["n"] in fnnames) for z in walk(yn["e"])):
                        gens_.add(x["tgt"]["n"])
    if not gens_:
        return False
    for it in items:
        for x in walk(it):
            if x.get("t") == "for" and any(i.get("t") == "call" and i["name"]["n"] in gens_ for i in x["iters"]) and not any(z.get("t") == "ret" for z in walk(x["body"])):
                return True
    return False



@predicate("closure-holding-closure-escape")
def closure_holding_closure_escape(v):
    """D27: inside a function F a function literal g reads a variable of F that is bound (in F) to another function literal which itself
    captures a variable of F; when g leaves F the function value held in its captured frame still points at F's dead frame"""
    if not _wrong_result(v):
        return False
    for F in _fn_nodes(v.session["items"]):
        caps = _captures(F)
        if len(caps) < 2:
            continue
        bound = {}
        for x in walk(F["body"]):
            if x.get("t") == "assign" and x["e"].get("t") == "fn" and any(x["e"] is g for g, _ in caps):
                bound[x["tgt"]["n"]] = x["e"]
        for g, cap in caps:
            for nm in cap:
                if nm in bound and bound[nm] is not g:
                    return True
    return False
