"""C14 -- tokenisation is faithful to the text.
Lexer.tla: state machine + declarative maximal-munch tokenisation; TLC checks their agreement and the
faithfulness invariants (order, spans, gaps are blanks/comments, longest operator run, one EOL per line
break, single final EOL/EOF, layout insensitivity) on every class string up to the bound; every accepted
string is made concrete and replayed on the real lexer, kinds, byte spans and texts compared."""
import json, random
import vlib, frontlib


def compare_accepted(c, r):
    """returns None if the real lexer's tokens are the specified ones, else a description"""
    lx = r["lex"]
    if lx["outcome"] != "ok":
        return "real lexer: %s %s" % (lx["outcome"], lx["msg"])
    if lx["err"]:
        return "real lexer rejects (%s) an input the specification accepts" % lx["err"]
    real = [[t[0], t[1], t[2]] for t in lx["toks"]]
    if real != c["toks"]:
        return "tokens differ: specified %s real %s" % (c["toks"], real)
    b = c["src"].encode("utf-8")
    for t in lx["toks"]:
        if t[0] in ("EOL", "EOF") and t[1] == 0 and t[2] == 0:
            continue
        want = b[t[1]:t[2]].decode("utf-8", "replace")
        if t[0] == "StringLit":
            want = want.replace("\\n", "\n")      # the one escape the lexer decodes (lexer_test.go "string literal with escaped line")
        if want != t[3]:
            return "token text %r is not the input between its span bounds %r" % (t[3], b[t[1]:t[2]])
    return None


def run(tier, replay=None):
    ck = vlib.Check("C14", tier)
    if replay:
        case = json.load(open(replay))["case"]
        res = frontlib.run_front([case])
        if case.get("sequence"):
            f0 = frontlib.run_front([{"id": 1, "src": case["src"]}])[1]
            rp, fp = res[case["id"]]["parse"], f0["parse"]
            if rp.get("outcome") != "ok" or ("err" in rp) != ("err" in fp):
                ck.violation("replay: the text %r after %r parses as %s" % (case["src"], case["pre"], json.dumps(rp)[:300]), case)
            ck.cov["evaluations"] = 1
            return ck.finish()
        d = compare_accepted(case, res[case["id"]])
        if d:
            ck.violation(d, case)
        ck.cov["evaluations"] = 1
        return ck.finish()
    n = 4 if tier == "quick" else 5
    r, rl, obs = frontlib.lexer_model(n)
    ck.add_tlc(r, "Lexer.tla invariants, strings <= %d" % n)
    ck.add_tlc(rl, "Lexer.tla liveness (termination), strings <= 3")
    acc = [o for o in obs if not o["err"]]
    cases = frontlib.lexer_cases(acc, vlib.seed(), variants=2 if tier == "quick" else 1)
    # layout variants on the real lexer too: insert blanks / a comment at token boundaries of accepted inputs
    rnd = random.Random(vlib.seed())
    extra = []
    for c in cases[:: (3 if tier == "quick" else 40)]:
        bounds = sorted({0, len(c["src"].encode())} | {t[1] for t in c["toks"] if t[2] > 0} | {t[2] for t in c["toks"] if t[2] > 0})
        p = rnd.choice(bounds)
        b = c["src"].encode()
        ins = rnd.choice([b" ", b"\t", b"  "])
        src2 = (b[:p] + ins + b[p:]).decode("utf-8")
        toks2 = [[t[0], t[1] + (len(ins) if t[1] >= p and t[2] > 0 else 0), t[2] + (len(ins) if t[2] > p or (t[2] == p and t[1] >= p and t[2] > 0) else 0)] for t in c["toks"]]
        # recompute conservatively: only compare kinds and texts for layout variants
        extra.append({"id": len(cases) + len(extra) + 1, "src": src2, "base": c, "layout": True})
    res = frontlib.run_front(cases + extra)
    nontriv = 0
    for c in cases:
        d = compare_accepted(c, res[c["id"]])
        ck.cov["evaluations"] += 1
        ck.cov["traces_validated_against_impl"] += 1
        if len(c["toks"]) >= 4 or any(x in c["classes"] for x in "cq"):
            nontriv += 1
        if d:
            ck.violation("%r (classes %s): %s" % (c["src"], c["classes"], d), c)
    for e in extra:
        r0, r1 = res[e["base"]["id"]]["lex"], res[e["id"]]["lex"]
        ck.cov["evaluations"] += 1
        kt0 = [(t[0], t[3]) for t in r0["toks"]]
        kt1 = [(t[0], t[3]) for t in r1["toks"]]
        if r1["outcome"] != "ok" or r1["err"] or kt0 != kt1:
            ck.violation("inserting blanks at a token boundary changes the tokens: %r -> %s, %r -> %s" % (e["base"]["src"], kt0, e["src"], kt1), e)
    # ---- inputs far beyond the bound, composed from specified pieces.  Tokenisation is local: for strings u, v the specification accepts,
    # tokens(u "\n" v) = tokens(u) without its closing EOL/EOF, the line break's EOL, tokens(v) shifted by |u| + 1.  That composition law is
    # first checked on the specification's own output (every enumerated accepted string with a line break whose two sides were enumerated
    # too); then texts of 70 KB to 200 KB (thorough 1.1 MB) are composed from concrete pieces and lexed by the real lexer in one go.
    by_inp = {tuple(o["inp"]): o for o in acc}

    def body(toks):          # without the closing EOF and the synthetic EOL (span 0,0) that precedes it when the text does not end in a line break
        t = toks[:-1]
        return t[:-1] if t and t[-1][1] == 0 and t[-1][2] == 0 and t[-1][0] == t0eol else t

    def finish(seq, eof, eol):          # a single final EOL: a synthetic one only if the last token is not a line break already
        return seq + ([eof] if seq and seq[-1][0] == eol[0] else [eol, eof])
    t0eol = next(t[0] for o in acc for t in o["toks"][:-1] if t[1] == 0 and t[2] == 0)
    t0eof = acc[0]["toks"][-1]
    law = 0
    for o in acc:
        inp = o["inp"]
        for k, ch in enumerate(inp):
            if ch != "n":
                continue
            u, v = by_inp.get(tuple(inp[:k])), by_inp.get(tuple(inp[k + 1:]))
            if u is None or v is None or inp[:k].count("q") % 2 == 1:
                continue
            composed = finish(body(u["toks"]) + [[t0eol, k, k + 1]] + [[t[0], t[1] + k + 1, t[2] + k + 1] for t in body(v["toks"])], t0eof, [t0eol, 0, 0])
            if composed != o["toks"]:
                raise vlib.Infra("the composition law of tokenisation fails on the specification itself: %s at %d: %s vs %s" % ("".join(inp), k, composed, o["toks"]))
            law += 1
    ck.part("composition law of tokenisation on the specification's own output", splits_checked=law)
    pieces = [c for c in cases if c["src"].count('"') % 2 == 0 and len(c["toks"]) >= 3]
    ceol = next(t[0] for c in cases for t in c["toks"][:-1] if t[1] == 0 and t[2] == 0)
    ceof = cases[0]["toks"][-1]

    def cbody(toks):
        t = toks[:-1]
        return t[:-1] if t and t[-1][1] == 0 and t[-1][2] == 0 and t[-1][0] == ceol else t
    longs = []
    for target in ([70000, 140000, 200000] if tier == "quick" else [70000, 140000, 200000, 600000, 1100000]):
        for variant in range(2):
            toks, parts, off = [], [], 0
            while off < target:
                c = rnd.choice(pieces)
                toks += [[t[0], t[1] + off, t[2] + off] for t in cbody(c["toks"])]
                parts.append(c["src"])
                off += len(c["src"].encode("utf-8"))
                toks.append([ceol, off, off + 1])
                parts.append("\n")
                off += 1
            c = rnd.choice(pieces)
            toks += [[t[0], t[1] + off, t[2] + off] for t in cbody(c["toks"])]
            toks = toks + ([list(ceof)] if toks and toks[-1][0] == ceol else [[ceol, 0, 0], list(ceof)])
            parts.append(c["src"])
            longs.append({"id": 9000000 + len(longs), "src": "".join(parts), "classes": "composed, %d bytes" % (off + len(c["src"].encode("utf-8"))), "toks": toks, "err": False})
    lres = frontlib.run_front(longs)
    for c in longs:
        d = compare_accepted(c, lres[c["id"]])
        ck.cov["evaluations"] += 1
        ck.cov["traces_validated_against_impl"] += 1
        nontriv += 1
        if d:
            ck.violation("a text of %d bytes composed of specified pieces: %s" % (len(c["src"].encode("utf-8")), d[:400]), c)
    ck.part("texts composed of specified pieces, lexed in one go", texts=len(longs), longest_bytes=max(len(c["src"].encode("utf-8")) for c in longs))
    # ---- a text with no tokens (empty, blanks, a comment) is the empty program whatever was read before it in the same session: inputs rejected
    # at the end of a line, in the middle of a line, inside an open bracket, accepted inputs, several of them
    befores = [["a = 1 +"], ["f("], ["[1,"], ["x = ("], ["1 +\n"], ["a = 1 $"], ["1 2 )"], ["a = 1"], ["{\n1\n"], ["a = 1 +", "b = 2 *"], ["if true {"], ['"abc'], ["a = [1, 2 $"], ["1\n"], ["; c\n"]]
    empties = ["", " ", "; only a comment", "  ; c", "\n", "\t", "; c\n", "\n\n"]
    seqs = []
    for pre in befores:
        for e in empties:
            seqs.append({"id": 9500000 + len(seqs), "src": e, "pre": pre, "nolex": False})
    sres = frontlib.run_front(seqs)
    fresh = {e: frontlib.run_front([{"id": 1, "src": e}])[1] for e in empties}
    for c in seqs:
        r, f0 = sres[c["id"]], fresh[c["src"]]
        ck.cov["evaluations"] += 1
        ck.cov["traces_validated_against_impl"] += 1
        nontriv += 1
        rp, fp = r["parse"], f0["parse"]
        if rp.get("outcome") != "ok" or ("err" in rp) != ("err" in fp) or rp.get("err") != fp.get("err") or [t[:3] for t in r["lex"]["toks"]] != [t[:3] for t in f0["lex"]["toks"]]:
            ck.violation("the text %r after the inputs %r in the same session: parsed as %s, on its own as %s" % (c["src"], c["pre"], json.dumps({k: rp.get(k) for k in ("outcome", "err", "msg")}), json.dumps({k: fp.get(k) for k in ("outcome", "err")})),
                         {"id": c["id"], "src": c["src"], "pre": c["pre"], "sequence": True, "toks": [], "classes": "sequence"})
        if "err" in fp:
            raise vlib.Infra("a text without tokens is rejected on its own: %r" % c["src"])
    ck.part("texts without tokens after other inputs of the same session", sequences=len(seqs))
    ck.cov["distinct_nontrivial"] = nontriv
    # binding self-test: shifting one specified span by one must be noticed
    st = 0
    for c in cases:
        real_toks = [t for t in c["toks"] if t[2] > t[1]]
        if real_toks and not compare_accepted(c, res[c["id"]]):
            c2 = dict(c, toks=[list(t) for t in c["toks"]])
            for t in c2["toks"]:
                if t[2] > t[1]:
                    t[2] += 1
                    break
            if compare_accepted(c2, res[c["id"]]) is None:
                raise vlib.Infra("binding self-test: a shifted span was not noticed for %r" % c["src"])
            st += 1
            if st >= 20:
                break
    ck.part("binding self-test", corrupted=st, rejected=st)
    ck.cov["exhaustive"] = True
    ck.cov["rule"] = ("every string of length <= %d over 11 character classes (digit, letter, operator char, bracket, quote, backslash, blank, newline, semicolon, dot, other) that the "
                      "specification accepts, made concrete with seeded choices per class (multi-byte characters included); non-trivial = at least two real tokens or a comment/string" % n)
    for c in cases[:: max(1, len(cases) // 4)][:4]:
        ck.sample({"src": c["src"], "tokens": c["toks"]})
    ck.assumptions += ["Lexer.tla evaluated by TLC is the oracle", "inside string literals the two characters backslash-n are decoded to a line break in the token text (as lexer_test.go documents); spans are compared exactly",
                       "inputs longer than the bound are covered by C06's sampled tier and by every session check's parse guard"]
    return ck.finish()
