"""C01 -- compiled execution = definitional semantics (CalcSem judged by TLC)."""
import vlib, gens, semcheck, vmcheck, findings, props
from astlib import walk


def nontrivial(v):
    # some statement has >= 3 distinct node kinds and the session ends specified
    return any(len({n["t"] for n in walk(it)}) >= 3 for it in v.session["items"] if not (isinstance(it, dict) and it.get("perr")))


def run(tier, replay=None):
    ck = vlib.Check("C01", tier)
    if replay:
        return semcheck.replay_file(ck, replay)
    seed = vlib.seed()
    e1 = gens.exprs_depth1()
    if tier == "quick":
        fams = [("contexts-depth1-sample", gens.context_sessions(e1[seed % 7::7], 1), ("value",)),
                ("random-sessions", gens.random_sessions(300, seed, "c01", first_id=100000), ("value",))]
    else:
        fams = [("contexts-depth1", gens.context_sessions(e1, 1), ("value",)),
                ("contexts-depth2", gens.context_sessions(gens.exprs_depth2(), 200000), ("value",)),
                ("random-sessions", gens.random_sessions(6000, seed, "c01", first_id=400000), ("value",))]
    rw = props.c12_families(tier, seed)[-1]          # increment forms, e op e, negated conditions: value-level meaning of the special-cased code shapes
    inc = [x for x in rw[1] if str(x.get("meta", {}).get("rewrite", "")).startswith("inc")]
    rest = [x for x in rw[1] if not str(x.get("meta", {}).get("rewrite", "")).startswith("inc")]
    fams.append((rw[0], inc + (rest[seed % 4::4] if tier == "quick" else rest), rw[2]))
    ed = gens.exprs_deep()      # six shapes per (operand, neighbour, operator): the quick stride is coprime to 6 so that every shape is sampled with every seed
    fams.append(("operands with >= 2 operators inside, order-sensitive operands (sample of C12's)", gens.context_sessions((ed[:-144][seed % 7::7] + ed[-144:]) if tier == "quick" else ed, first_id=1300000,
                                                                                                                      ctx_filter={"top", "fntail", "assign", "arg", "ifcond", "elem"} if tier == "quick" else None), ("value",)))
    fams.append(props.cross_sample(tier, seed))
    fams.append(props.c01_rebinding(tier, seed))
    fams.append(props.float_chains(tier, seed))
    fams.append(props.c01_selfcompare(tier, seed))
    vs = semcheck.run_families(ck, fams, nontrivial)
    semcheck.binding_selftest(ck, vs)
    semcheck.symbolic_float_selftest(ck, vs)
    # translation validation + instruction-level trace validation on a slice of the same sessions (CalcVM.tla)
    sl = [v.session for v in vs if v.status == "accept"]
    sl = sl[seed % 3::3][:900] if tier == "quick" else sl[seed % 2::2][:9000]
    n, agree, viol = vmcheck.validate(ck, sl, "CalcVM: real bytecode on the intended VM = CalcSem; real instruction traces followed")
    for desc, case, kind in viol:
        ck.violation(desc, case)
    ck.cov["rule"] = ("sessions = enumerated expression x embedding-context products plus seeded random typed sessions, the compiler's special-cased code shapes, and a stable sample of the "
                      "session families of C02 C03 C04 C09 C10 C17 C19 (25 per property quick, 400 thorough), and code that runs again after the names it mentions were rebound; distinct by AST digest; "
                      "non-trivial = some statement uses >= 3 distinct node kinds and the session is specified (not Unspecified) to its end")
    ck.assumptions += ["CalcSem.tla as evaluated by TLC is the oracle", "CalcVM.tla is the intended machine for the real compiler's bytecode (translation validation) and for the real VM's instruction trace", "values outside the model (|int| >= 2^30, non-dyadic floats) are Unspecified and only checked for no-crash"]
    return ck.finish()
