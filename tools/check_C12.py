import vlib, props, semcheck
from astlib import walk

TITLE = {"C12": "for loops consume exactly what their iterators yield, lazily and in order",
         "C03": "functions are pure: same arguments, same result, whatever happened before"}


def run(tier, replay=None):
    ck = vlib.Check("C12", tier)
    if replay:
        return semcheck.replay_file(ck, replay)
    fams = props.c12_families(tier, vlib.seed(), ck=ck)
    fams.append(props.float_chains(tier, vlib.seed(), first_id=3700000))
    vs = semcheck.run_families(ck, fams, props.c12_nontrivial)
    semcheck.binding_selftest(ck, vs)
    semcheck.symbolic_float_selftest(ck, vs)
    # the tree the front end builds for a statement is the tree that was written, in every context (no context-dependent or
    # operand-dependent rewriting before the compiler sees it): resolved trees against CalcScope.tla, on a stable sample
    import scopecheck
    seed = vlib.seed()
    pool = [s for fam in fams for s in fam[1]]
    pool.sort(key=lambda s: props.shash((s["id"], seed)))
    chains = [s for s in pool if 1950000 <= s["id"] < 2000000]
    sample = chains[:(300 if tier == "quick" else 3000)] + pool[:(500 if tier == "quick" else 6000)]
    for desc, case in scopecheck.validate(ck, sample, "CalcScope: the front end's tree of every statement is the tree that was written, in every context"):
        ck.violation(desc, case)
    ck.cov["rule"] = props.c12_rule
    ck.assumptions += ["CalcSem.tla as evaluated by TLC is the oracle; Unspecified sessions are only checked for no-crash"]
    return ck.finish()
