import vlib, props, semcheck
from astlib import walk

TITLE = {"C12": "for loops consume exactly what their iterators yield, lazily and in order",
         "C03": "functions are pure: same arguments, same result, whatever happened before"}


def run(tier, replay=None):
    ck = vlib.Check("C12", tier)
    if replay:
        return semcheck.replay_file(ck, replay)
    fams = props.c12_families(tier, vlib.seed(), ck=ck)
    vs = semcheck.run_families(ck, fams, props.c12_nontrivial)
    semcheck.binding_selftest(ck, vs)
    ck.cov["rule"] = props.c12_rule
    ck.assumptions += ["CalcSem.tla as evaluated by TLC is the oracle; Unspecified sessions are only checked for no-crash"]
    return ck.finish()
