"""Conformance of the real symbol-table rewriter with the static-scoping rules of CalcSem.
For every statement of every session TLC prints the resolved tree (CalcScope.tla: storage class and frame slot of
every name, slot count of every function); `vh run` dumps the tree the real STRewrite produced; they must be equal."""
import json
import vlib, sess


def first_diff(a, b, path=""):
    if type(a) != type(b):
        return path, a, b
    if isinstance(a, dict):
        for k in sorted(set(a) | set(b)):
            if k not in a or k not in b:
                return path + "/" + k, a.get(k), b.get(k)
            d = first_diff(a[k], b[k], path + "/" + k)
            if d:
                return d
        return None
    if isinstance(a, list):
        if len(a) != len(b):
            return path + "/len", len(a), len(b)
        for i, (x, y) in enumerate(zip(a, b)):
            d = first_diff(x, y, path + "/%d" % i)
            if d:
                return d
        return None
    return None if a == b else (path, a, b)


def validate(ck, sessions, part, timeout=3000):
    """returns list of (description, case).  Statements the real parser rejects or that are given as raw text are skipped."""
    ss = [s for s in sessions if any(not (isinstance(it, dict) and it.get("perr")) for it in s["items"])]
    real_in = [{"id": s["id"], "items": [{"src": sess.item_text(it)} for it in s["items"]], "stdin": s.get("stdin", []), "wantrast": True, "budget": 200000} for s in ss]
    real = vlib.run_real(real_in)
    spec = {}
    for b in range(0, len(ss), sess.BATCH):
        batch = ss[b:b + sess.BATCH]
        data = "\n".join(json.dumps({"id": s["id"], "items": [{"perr": True} if (isinstance(it, dict) and it.get("perr")) else {"ast": it} for it in s["items"]], "stdin": []}) for s in batch) + "\n"
        cfg = "INIT ScopeInit\nNEXT ScopeNext\nCONSTANT SessionsFile = \"sessions.ndjson\"\nCONSTANT MaxSteps = 1\nVIEW ScopeView\nCHECK_DEADLOCK FALSE\n"
        r = vlib.run_tlc("CalcScope", "Scope.cfg", files={"sessions.ndjson": data, "Scope.cfg": cfg}, timeout=timeout)
        if r.violation:
            raise vlib.Infra("CalcScope failed: " + r.violation)
        ck.add_tlc(r, part)
        for l in r.lines:
            if l.startswith("RESOLVED "):
                d = json.loads(l[9:])
                spec[(d["id"], d["item"])] = d["tree"]
    viol, n, names = [], 0, 0
    for s in ss:
        res = real.get(s["id"])
        if res is None:
            continue
        for i, (it, o) in enumerate(zip(s["items"], res)):
            if isinstance(it, dict) and it.get("perr"):
                continue
            if "rast" not in o:
                continue      # rejected by the parser, or a panic before the rewrite: reported by the session checks
            want = spec.get((s["id"], i + 1))
            if want is None:
                raise vlib.Infra("CalcScope printed no tree for session %s statement %d" % (s["id"], i + 1))
            n += 1
            names += json.dumps(want).count('"t": "name"')
            d = first_diff(want, o["rast"])
            if d:
                viol.append(("the tree the front end hands to the compiler differs from the written statement resolved by static scoping: statement %d (%s) at %s: specified %s, the rewriter gives %s" % (
                    i + 1, sess.item_text(it).replace("\n", " ; ")[:120], d[0], json.dumps(d[1])[:120], json.dumps(d[2])[:120]), {"session": s, "item": i + 1, "scope_diff": list(d)}))
                break
    # binding self-test: a corrupted slot in a dumped tree must be noticed by the comparison
    probe = next((o["rast"] for s in ss for o in (real.get(s["id"]) or []) if "rast" in o and '"s": "l"' in json.dumps(o["rast"])), None)
    if probe is not None:
        bad = json.loads(json.dumps(probe).replace('"s": "l"', '"s": "c"', 1))
        if first_diff(probe, bad) is None:
            raise vlib.Infra("scope comparison self-test failed")
    ck.part(part, statements_compared=n, names_compared=names, differing=len(viol))
    ck.cov["traces_validated_against_impl"] += n
    ck.cov["evaluations"] += n
    return viol
