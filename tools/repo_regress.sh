#!/bin/sh
# Regression gate for fix: commits in /repo: the unedited test suite (tag off) and the examples corpus diff.
set -e
export GOFLAGS=-mod=mod GOPROXY=off GOSUMDB=off GOTOOLCHAIN=local
cd /repo
go test -vet=off -count=1 ./... >/dev/null
tmp=$(mktemp -d); trap 'rm -rf "$tmp"' EXIT
go build -o "$tmp/calc" ./cmd/calc
cd examples
for f in *.calc; do timeout 120 "$tmp/calc" "$f"; done > "$tmp/ex.out" 2>&1
diff "$tmp/ex.out" examples.res >/dev/null && echo "regress ok: tests pass, examples.res unchanged"
