#!/bin/sh
# seedeval.sh <worktree dir with the change applied> <check ids...>: run the named checks against that tree
# (VERIF_REPO) quick, then thorough for those that miss; prints one line per run.
dir=$1; shift
export GOFLAGS=-mod=mod GOPROXY=off GOSUMDB=off GOTOOLCHAIN=local
( cd "$dir" && go build ./... && go build -tags verif ./... && go test -vet=off -count=1 ./... >/dev/null 2>&1 ) && echo "baseline tests pass with the change" || echo "BASELINE FAILS with the change"
for id in "$@"; do
  for tier in quick thorough; do
    out=$(VERIF_REPO="$dir" VERIF_MAXREPLAY=3 /verif/bin/check "$id" $tier 2>&1); code=$?
    nv=$(printf '%s\n' "$out" | grep -c '^VIOLATION')
    echo "$id $tier: exit $code, $nv violation line(s)"
    printf '%s\n' "$out" | grep -A1 '^VIOLATION' | grep -v '^VIOLATION\|^--' | head -2 | cut -c1-300
    [ $code -eq 2 ] && printf '%s\n' "$out" | tail -5 | cut -c1-300
    [ $code -ne 0 ] && break
  done
done
