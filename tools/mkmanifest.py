#!/usr/bin/env python3
"""Writes /verif/MANIFEST.json from the table below (one source of truth for the registered checks)."""
import json, os, subprocess
V = os.path.dirname(os.path.dirname(os.path.abspath(__file__)))
props = [json.loads(l) for l in open(os.path.join(V, "properties.jsonl"))]
CHECKS = {
 "C11": dict(cat="model_checking", tech="TLA+ value algebra (CalcValues) model-checked by TLC with the documented laws as invariants; every enumerated operator tuple replayed on types/value",
   text="TLC enumerates every operator x operand tuple of a bounded value domain (ints incl. boundaries of the model, dyadic floats with signed zero/NaN/Inf, strings, nested arrays, nil, function), checks the documented laws (symmetry of ==, != its negation, consistency of < > <= >=, int==float, zero division, slicing and concatenation laws, nil always an error) as invariants of CalcValues.tla, and each tuple with its specified result is replayed on the exported methods of types/value and compared bit-exactly. Exhaustive over the stated finite domain; 64-bit wrap-around and non-dyadic rounding are out of model.",
   note="Trusted: TLC's evaluation of CalcValues.tla; my reading of the README for the operator tables; exact decoding of dyadic floats. Not covered: 64-bit overflow, rounding of non-dyadic results, int/float comparison above 2^53.", ref="DESIGN.md 5 C11"),
}
hooks = subprocess.run(["git", "-C", "/repo", "log", "--format=%H %s"], capture_output=True, text=True).stdout.splitlines()
hook_commits = [l.split()[0] for l in hooks if " verif hook:" in l]
man = {
 "version": 1,
 "setup_cmd": "cd /verif && bin/setup",
 "hooks": {"guard": "verif (Go build tag)", "enable": "go build -tags verif (the harness module /verif/harness replaces github.com/paulsonkoly/calc with /repo and is rebuilt from the working tree by every check)",
           "baseline_off_cmd": "cd /repo && GOFLAGS=-mod=mod GOPROXY=off GOSUMDB=off GOTOOLCHAIN=local go test -vet=off -count=1 -json ./...",
           "source_commits": hook_commits, "add_only": True},
 "engines": [
  {"name": "tlc", "path": "/opt/veriftools/tla/tla2tools.jar", "serves_properties": sorted(CHECKS), "kind_free_text": "TLC explicit-state model checker over the TLA+ specifications in /verif/spec"},
  {"name": "vh", "path": "/verif/harness", "serves_properties": sorted(CHECKS), "kind_free_text": "Go conformance harness linking the real packages (tag verif): replays TLC-generated behaviours, records real executions for TLC to judge"},
 ],
 "checks": [],
 "notes": "All checks: /verif/bin/check <ID> quick|thorough [--replay file]. Exit 0 conformed, 1 violation reproduced on the real code, 2 infrastructure trouble. See DESIGN.md.",
 "not_applicable": [],
}
for p in props:
    pid = p["id"]
    if pid in CHECKS:
        c = CHECKS[pid]
        man["checks"].append({
            "property_id": pid, "quick_cmd": "bin/check %s quick" % pid, "thorough_cmd": "bin/check %s thorough" % pid,
            "evidence_file": "/verif/evidence/%s.json" % pid, "replay_cmd_template": "bin/check %s quick --replay {path}" % pid,
            "engine": "tlc+vh", "level_claimed": {"category": c["cat"], "text": c["text"], "design_ref": c["ref"]},
            "level_note": c["note"], "technique": c["tech"]})
    else:
        man["not_applicable"].append({"property_id": pid, "reason": "check not built yet in this round (planned in DESIGN.md section 5 %s); no claim is made until it runs" % pid})
json.dump(man, open(os.path.join(V, "MANIFEST.json"), "w"), indent=1)
print("MANIFEST.json:", len(man["checks"]), "checks,", len(man["not_applicable"]), "not applicable")
