#!/usr/bin/env python3
"""Writes /verif/MANIFEST.json from the table below (one source of truth for the registered checks)."""
import json, os, subprocess
V = os.path.dirname(os.path.dirname(os.path.abspath(__file__)))
props = [json.loads(l) for l in open(os.path.join(V, "properties.jsonl"))]
CHECKS = {
 "C11": dict(cat="model_checking", tech="TLA+ value algebra (CalcValues) model-checked by TLC with the documented laws as invariants; every enumerated operator tuple replayed on types/value",
   text="TLC enumerates every operator x operand tuple of a bounded value domain (ints incl. boundaries of the model, dyadic floats with signed zero/NaN/Inf, strings, nested arrays, nil, function), checks the documented laws (symmetry of ==, != its negation, consistency of < > <= >=, int==float, zero division, slicing and concatenation laws, nil always an error) as invariants of CalcValues.tla, and each tuple with its specified result is replayed on the exported methods of types/value and compared bit-exactly. Exhaustive over the stated finite domain; 64-bit wrap-around and non-dyadic rounding are out of model.",
   note="Trusted: TLC's evaluation of CalcValues.tla; my reading of the README for the operator tables; exact decoding of dyadic floats. Not covered: 64-bit overflow, rounding of non-dyadic results, int/float comparison above 2^53.", ref="DESIGN.md 5 C11"),
}

SESS_NOTE = "Trusted: CalcSem.tla/CalcValues.tla as evaluated by TLC (the oracle, written from the README, sharing nothing with the implementation); the documented-grammar printer (its inverse by the real parser is guarded per session, property C07); the verif hooks only observe. Unspecified behaviour (ints >= 2^30, non-dyadic floats, README-silent corners) is only checked for no-crash. Known findings D11/D12 are matched by named trigger predicates."
def sem(ref, text, tech=None):
    return dict(cat="model_checking", text=text, note=SESS_NOTE, ref=ref,
                tech=tech or "TLA+ definitional semantics (CalcSem) run by TLC in trace mode as judge of recorded executions of the real pipeline; bounded enumerations plus seeded generators")
CHECKS.update({
 "C01": sem("DESIGN.md 5 C01", "Every session (enumerated expression x context products, depth-2 expressions, seeded random typed sessions with closures, generators, loops) is run through the real Parse/STRewrite/ByteCode/Run pipeline on one VM; the recorded value, output and error class of every statement is accepted only if CalcSem, the small-step definitional semantics evaluated by TLC, can follow it; a divergence is printed with both sides."),
 "C02": sem("DESIGN.md 5 C02", "Generator algebra: eleven base generators (builtins, while/yield, recursive, closure-capturing, helper-that-yields, value-of-yield, conditional, empty) composed by map/filter/zip/chain/nest/value-using-map to depth 3, x six loop bodies x five placements, plus three-iterator lock-step with unequal lengths and naked yield; output probes in generators and bodies make the interleaving observable; TLC judges every recorded run against CalcSem's coroutine rules."),
 "C03": sem("DESIGN.md 5 C03", "Each session defines one side-effect-free function (arithmetic, recursion, closure factories, captured-variable update after a deep call, generator loops, 5/130/200-local frames, random bodies), runs a history (loops, deep recursion that grows the stacks, runtime errors, 40 statements) and calls it with the same argument from nine dynamic placements; every call must return the value CalcSem specifies, hence the same value each time."),
 "C04": sem("DESIGN.md 5 C04", "Scoping shapes (variable kind x access pattern x closure level x function-value flow x frame width 1/3/130) with write probes of caller variables and globals before and after every call, plus random closure-heavy sessions; resolution is specified by a TLA+ Resolve operator working on names in traversal order, frames are objects with identity in the specification, closures leaving their definer are frozen (also inside arrays)."),
 "C05": sem("DESIGN.md 5 C05", "Adversarial enumeration (17 binary operators x 81 type pairs x operand sources, unary/index/slice/element/condition/call-target/arity positions, extreme literals and shift counts, 17 statement forms in tail/body/branch positions) and random ill-typed sessions; the verdict is that the real run ends with a value or a documented runtime error: panics are recovered and reported with signature, hangs are detected by a deterministic instruction budget through the step hook; CalcSem's totality on the same programs says value-or-error is the only outcome the language admits.", tech="TLA+ semantics (CalcSem) totality + outcome classes checked by TLC on recorded executions; adversarial enumeration and seeded fuzzing of the real pipeline with panic/hang capture"),
 "C08": sem("DESIGN.md 5 C08", "Sessions of 20+ statements on one VM with 1-3 injected failures (every error class at top level / call depth 3 / loop body / suspended generator / generator in generator / read error / parse errors, adjacent failures included); every later statement and a probe of all globals must match CalcSem, whose only inter-statement state is the globals; twin sessions (failure replaced by its completed assignments) are run too and the twin theorem is checked on the specification's own observations; residue is compared after every item."),
 "C09": sem("DESIGN.md 5 C09", "After every statement the real (sp, call frames, closure stack, live iterator contexts, ip gap) read through the verif accessors must be zero, as CalcSem's NoResidue invariant (checked by TLC on every session) says; statement forms in used/discarded/tail/returning/file-mode positions, loops whose body ends in each form, early return from loops nested 1-3 deep; for loop pairs with n and 2n iterations whose specified continuation depth is equal, the real peak stack pointer (step hook) and stack allocation must be equal."),
 "C10": sem("DESIGN.md 5 C10", "Histories of 2-12 array/string operations over four variables that share structure (slices, slices of slices, append to a slice, concatenation, nesting, computed literals, passing to functions, iteration, capture in closures, literals in loops and recursive functions); after every operation toa() of every variable, of the captured value and of the program's literals must equal CalcSem's, where values are mathematical objects and cannot be mutated."),
 "C12": sem("DESIGN.md 5 C12", "The full product of expressions (depth <= 2 over nine atoms, all operators) x 30 embedding contexts that select different code-generation strategies, plus the rewrite pairs named in the property (increment forms, e op e vs t=e;t op t for 17 operators, if !c vs swapped branches, boolean and non-boolean conditions in seven positions); every placement must produce the observation CalcSem specifies, so two placements of one expression cannot disagree."),
 "C17": sem("DESIGN.md 5 C17", "Built-ins are specified by contract in CalcSem/CalcValues (Render for toa/write, Aton on the documented forms, fromto/elems/indices as the README's definitions, read as a queue of lines); vectors: 23 values through toa/write, aton(toa(n))==n for -1000..1000, +-2^k+-1 (k<30) and 48 dyadic floats, 20 aton spellings, fromto for all -3<=a,b<=4 and ill-typed arguments, elems/indices over every type, arity errors, 0-4 read() calls in five interleavings against eight piped inputs."),
 "C19": sem("DESIGN.md 5 C19", "On every raised error CalcSem builds an abstract report (class, failing operation, Abbrev-rendered operand values, per context the active calls innermost first with call-site names and current parameter values, forked-from activation last); the real stdout after RUNTIME ERROR is parsed into the same structure and compared by TLC (opcode family, operand text incl. TMP suffix forms, frames per context); 14 failing operations x 10 dynamic positions plus random failing sessions."),
})

hooks = subprocess.run(["git", "-C", "/repo", "log", "--format=%H %s"], capture_output=True, text=True).stdout.splitlines()
hook_commits = [l.split()[0] for l in hooks if " verif hook:" in l]
man = {
 "version": 1,
 "setup_cmd": "cd /verif && bin/setup",
 "hooks": {"guard": "verif (Go build tag)", "enable": "go build -tags verif (the harness module /verif/harness replaces github.com/paulsonkoly/calc with /repo and is rebuilt from the working tree by every check)",
           "baseline_off_cmd": "cd /repo && GOFLAGS=-mod=mod GOPROXY=off GOSUMDB=off GOTOOLCHAIN=local go test -vet=off -count=1 -json ./...",
           "source_commits": hook_commits, "add_only": True},
 "engines": [
  {"name": "tlc", "path": "/opt/veriftools/tla/tla2tools.jar", "serves_properties": sorted(CHECKS), "kind_free_text": "TLC explicit-state model checker over the TLA+ specifications in /verif/spec"},
  {"name": "vh", "path": "/verif/harness", "serves_properties": sorted(CHECKS), "kind_free_text": "Go conformance harness linking the real packages (tag verif): replays TLC-generated behaviours, records real executions for TLC to judge"},
 ],
 "checks": [],
 "notes": "All checks: /verif/bin/check <ID> quick|thorough [--replay file]. Exit 0 conformed, 1 violation reproduced on the real code, 2 infrastructure trouble. See DESIGN.md.",
 "not_applicable": [],
}
for p in props:
    pid = p["id"]
    if pid in CHECKS:
        c = CHECKS[pid]
        man["checks"].append({
            "property_id": pid, "quick_cmd": "bin/check %s quick" % pid, "thorough_cmd": "bin/check %s thorough" % pid,
            "evidence_file": "/verif/evidence/%s.json" % pid, "replay_cmd_template": "bin/check %s quick --replay {path}" % pid,
            "engine": "tlc+vh", "level_claimed": {"category": c["cat"], "text": c["text"], "design_ref": c["ref"]},
            "level_note": c["note"], "technique": c["tech"]})
    else:
        man["not_applicable"].append({"property_id": pid, "reason": "check not built yet in this round (planned in DESIGN.md section 5 %s); no claim is made until it runs" % pid})
json.dump(man, open(os.path.join(V, "MANIFEST.json"), "w"), indent=1)
print("MANIFEST.json:", len(man["checks"]), "checks,", len(man["not_applicable"]), "not applicable")
