"""C19 -- runtime error reports point at the real failure.  CalcSem builds the abstract report of every raised error; the real
report text (from the pipeline driven statement by statement, and from the real read-eval loop) is parsed and compared."""
import json
import vlib, props, semcheck, sess
from astlib import *


def run(tier, replay=None):
    ck = vlib.Check("C19", tier)
    if replay:
        return semcheck.replay_file(ck, replay, cmp=("value", "report"))
    fams = props.c19_families(tier, vlib.seed())
    vs = semcheck.run_families(ck, fams, props.c19_nontrivial)
    semcheck.binding_selftest(ck, vs)
    # ---- the same reports as the read-eval loop prints them (node.Loop in process): functions defined in one statement -- by plain
    # assignment, as array elements, as call arguments, inside top-level if / for / while blocks -- fail in a later one
    div = assign("dv", fn(["a", "b"], bin_("/", N("a"), N("b"))))
    defs = {
        "plain": [assign("brk", fn(["x"], call("dv", N("x"), I(0))))],
        "array element": [assign("ops", lst([fn(["x"], call("dv", N("x"), I(0))), fn(["x"], N("x"))])), assign("brk", ix1(N("ops"), I(0)))],
        "call argument": [assign("twice", fn(["f"], fn(["x"], call("f", call("f", N("x")))))), assign("brk", call("twice", fn(["x"], call("dv", N("x"), I(0)))))],
        "inside a top-level if block": [iff(Bo(True), block([assign("brk", fn(["x"], call("dv", N("x"), I(0)))), I(0)]))],
        "inside a top-level for": [fr(["i"], [call("fromto", I(0), I(1))], assign("brk", fn(["x"], call("dv", bin_("+", N("x"), N("i")), I(0)))))],
        "returned by a function": [assign("mkb", fn(["z"], fn(["x"], call("dv", N("x"), N("z"))))), assign("brk", call("mkb", I(0)))],
    }
    uses = {"direct": call("brk", I(4)), "through apply": call("apply", N("brk"), I(5)), "in a loop": fr(["q"], [call("fromto", I(1), I(3))], call("brk", N("q"))),
            "in a generator": fr(["q"], [call("gn")], N("q"))}
    ls, lid = [], 0
    for dname, dd in defs.items():
        for uname, use in uses.items():
            lid += 1
            ls.append({"id": 9500000 + lid, "items": [div, assign("apply", fn(["f", "v"], call("f", N("v")))), assign("gn", fn([], block([y(I(1)), y(call("brk", I(7)))])))] + dd + [I(1), use, I(2), use],
                       "stdin": [], "meta": {"defined": dname, "used": uname}})
    if tier == "quick":
        ls = [x for i, x in enumerate(ls) if (i + vlib.seed()) % 2 == 0 or x["meta"]["used"] == "direct"]
    lv = sess.judge_via_loop(ls, cmp=("report",), ck=ck, part="reports printed by the real read-eval loop for functions defined in earlier statements")
    for v in lv:
        ck.cov["evaluations"] += 1
        ck.cov["traces_validated_against_impl"] += 1
        if v.status != "accept":
            ck.violation("through the read-eval loop, function defined as %s, used %s: %s" % (v.session["meta"]["defined"], v.session["meta"]["used"], json.dumps(v.info)[:600]),
                         {"session": v.session, "texts": v.texts, "via": "loop"})
    ck.part("reports printed by the real read-eval loop for functions defined in earlier statements", sessions=len(lv), accepted=sum(1 for v in lv if v.status == "accept"))
    ck.cov["rule"] = props.c19_rule
    ck.assumptions += ["CalcSem.tla as evaluated by TLC is the oracle; Unspecified sessions are only checked for no-crash"]
    return ck.finish()
