"""C16 -- all three run modes execute the same program the same way.
ReplLoop.tla defines the documented statement grouping of a script (and, for contrast, the grouping by raw
character counts); TLC enumerates all scripts of up to MaxStmts statement shapes with the expected file-mode
output and REPL transcript; each is run through the built binary (file mode with and without a final line
break, REPL mode with piped input).  Single statements with values specified by CalcSem are run in all three
modes (-eval, REPL, file with write)."""
import json, os, subprocess, tempfile, concurrent.futures
import vlib, sess, gens
from astlib import *


def run_calc(calc, mode, text, tmpdir, idx):
    tmo = 30 if len(text) < 60000 else 900
    try:
        if mode == "file":
            path = os.path.join(tmpdir, "s%d.calc" % idx)
            with open(path, "w") as f:
                f.write(text)
            p = subprocess.run([calc, path], capture_output=True, text=True, timeout=tmo, stdin=subprocess.DEVNULL)
        elif mode == "repl":
            p = subprocess.run([calc], input=text, capture_output=True, text=True, timeout=tmo)
        else:
            p = subprocess.run([calc, "-eval", text], capture_output=True, text=True, timeout=tmo, stdin=subprocess.DEVNULL)
        return p.returncode, p.stdout, p.stderr
    except subprocess.TimeoutExpired:
        return -9, "", "timeout"


def render_val(v):
    k = v["k"]
    if k == "nil":
        return "nil"
    if k == "int":
        return str(v["v"])
    if k == "bool":
        return "true" if v["v"] else "false"
    if k == "str":
        return "".join(v["v"])
    if k == "fn":
        return "function"
    if k == "arr":
        return "[" + ", ".join(render_val(x) for x in v["v"]) + "]"
    if k == "float":
        if v["c"] == "nan":
            return "NaN"
        if v["c"] == "inf":
            return "-Inf" if v["neg"] else "+Inf"
        s = fstr(v)
        if s.endswith(".0"):
            s = s[:-2]
        return ("-" if v["neg"] else "") + s
    return "?"


def run(tier, replay=None):
    ck = vlib.Check("C16", tier)
    calc = vlib.build_calc()
    tmpdir = tempfile.mkdtemp(prefix="c16-", dir=vlib.scratch())
    n = 2 if tier == "quick" else 3
    r = vlib.run_tlc("ReplLoop", "ReplLoop_N%d.cfg" % n, timeout=1200)
    if r.violation:
        raise vlib.Infra("ReplLoop.tla invariant failed: " + r.violation)
    ck.add_tlc(r, "ReplLoop.tla: documented grouping, scripts of <= %d statements" % n)
    scripts = [json.loads(l[4:]) for l in r.lines if l.startswith("OBS ")]
    # the same shapes with lines longer than 64 KiB (a line of 70000 characters, an expression of 7001 terms)
    rl = vlib.run_tlc("ReplLoop", "ReplLoop_long.cfg", timeout=1200)
    if rl.violation:
        raise vlib.Infra("ReplLoop.tla invariant failed: " + rl.violation)
    ck.add_tlc(rl, "ReplLoop.tla: scripts of <= 2 statements containing a line longer than 64 KiB")
    longs = [json.loads(l[4:]) for l in rl.lines if l.startswith("OBS ")]
    scripts += longs
    if replay:
        case = json.load(open(replay))["case"]
        scripts = [case["script"]] if "script" in case else []
    jobs = []
    for i, s in enumerate(scripts):
        text = "\n".join(s["lines"])
        jobs.append((i, "file", text + "\n", s["file"], "file mode, final line break"))
        jobs.append((i, "file", text, s["file"], "file mode, no final line break"))
        if len(text) < 60000 or len(s["names"]) == 1 or (tier != "quick" and i % 4 == 0):      # the REPL's line editor needs seconds for a line of 70000 characters
            jobs.append((i, "repl", text + "\n", "calc repl\n" + s["repl"], "REPL mode"))
    diff_rawcounts = sum(1 for s in scripts if not s["rawcounts"])
    with concurrent.futures.ThreadPoolExecutor(max_workers=vlib.NCPU) as ex:
        futs = {ex.submit(run_calc, calc, mode, text, tmpdir, k): (k, i, mode, text, want, what) for k, (i, mode, text, want, what) in enumerate(jobs)}
        for f in concurrent.futures.as_completed(futs):
            k, i, mode, text, want, what = futs[f]
            rc, out, err = f.result()
            ck.cov["evaluations"] += 1
            ck.cov["traces_validated_against_impl"] += 1
            s = scripts[i]
            if rc == -9:
                raise vlib.Infra("calc binary timed out on a script")
            if rc != 0 or out != want:
                ck.violation("%s: script %s (%r): expected output %r, got %r%s" % (what, "+".join(s["names"]), text[:120], want[:200], out[:200], (" exit %d %s" % (rc, err[:200])) if rc else ""),
                             {"script": s, "mode": what, "stdout": out, "exit": rc})
    ck.cov["distinct_nontrivial"] = sum(1 for s in scripts if len(s["lines"]) > len(s["names"]) or any(x in ("strLB", "strRB", "strLK", "strRK", "cmtLB", "cmtLK", "cmtQ", "escQ", "semi", "blockstr", "mlstrblank", "arrayblank", "blockblank", "blockmlstr", "arraymlstr", "longline", "longexpr", "ifelseFa", "ifelseTa", "ifelseFw", "ifelseTw", "ifelseFl", "ifelseTl") for x in s["names"]))
    ck.part("scripts", scripts=len(scripts), with_a_line_longer_than_64KiB=len(longs), differ_from_raw_character_counting=diff_rawcounts)
    for s in scripts[:: max(1, len(scripts) // 3)][:3]:
        ck.sample({"lines": [l[:200] for l in s["lines"]], "file_mode_output": s["file"][:200], "repl_transcript": s["repl"][:200]})
    # ---- single statements in the three modes, values from CalcSem
    if not replay:
        exprs = [e for e in gens.exprs_depth1()[vlib.seed() % 11::(31 if tier == "quick" else 6)]]
        exprs += [block([assign("f", fn(["n"], bin_("+", N("n"), I(1)))), call("f", I(2))]), block([assign("a", I(5)), bin_("*", N("a"), N("a"))]),
                  fr(["i"], [call("fromto", I(0), I(3))], N("i")), call("toa", lst([I(1), St("x")])), St("ab"), lst([St("a"), I(1)]), Fl(3, 1), bin_("/", I(7), I(2)),
                  block([assign("g", fn([], block([assign("x", I(2)), fn([], N("x"))]))), assign("h", call("g")), call("h")])]
        ss = [{"id": i + 1, "items": [e], "stdin": []} for i, e in enumerate(exprs)]
        so = sess.spec_obs(ss)
        jobs = []
        for s in ss:
            o = so.get(s["id"], [None])[0]
            if not o or "val" not in o or o["val"]["k"] == "fn" and False:
                continue
            if o.get("out"):
                continue
            e = s["items"][0]
            txt = ps(e)
            val = render_val(o["val"])
            disp = ('"%s"' % val) if o["val"]["k"] == "str" else val
            jobs.append((txt, "eval", txt, val + "\n"))
            jobs.append((txt, "repl", txt + "\n", "calc repl\n> " + disp + "\n"))
            if "\n" not in txt and e["t"] not in ("assign", "for", "block", "if", "ifelse", "while"):
                jobs.append((txt, "file", "write(" + txt + ")\n", val))
        with concurrent.futures.ThreadPoolExecutor(max_workers=vlib.NCPU) as ex:
            futs = {ex.submit(run_calc, calc, mode, text, tmpdir, 100000 + k): (src, mode, text, want) for k, (src, mode, text, want) in enumerate(jobs)}
            for f in concurrent.futures.as_completed(futs):
                src, mode, text, want = futs[f]
                rc, out, err = f.result()
                ck.cov["evaluations"] += 1
                ck.cov["traces_validated_against_impl"] += 1
                if rc != 0 or out != want:
                    ck.violation("statement %r in %s mode: expected %r, got %r%s" % (src[:150], mode, want[:150], out[:300], (" exit %d %s" % (rc, err[:200])) if rc else ""),
                                 {"statement": src, "mode": mode, "stdout": out})
        ck.part("single statements in three modes", statements=len({j[0] for j in jobs}), runs=len(jobs))
        # ---- mode agreement where no value is specified: string literals spanning lines whose inner line ends are unusual.  -eval hands the
        # whole text to the parser; file and REPL mode must group the same lines into the same statement and print the same.
        ends = {"backslash": "\\", "two backslashes": "\\\\", "escaped quote": '\\"', "blank": " ", "tab": "\t", "semicolon": ";", "open brace": "{", "open bracket": "[",
                "close brace": "}", "quote pair": '" + "', "backslash n": "\\n", "backslash then blank": "\\ "}
        ag = []
        for ename, e in ends.items():
            for tmpl in ('write("ab%s\ncd")', 'write(#"ab%s\ncd")', 'write("ab%s\n%s\ncd" + "!")', 'write(["x%s\ny", 1][0])', 'if true {\nwrite("p%s\nq")\n}'):
                ag.append((ename, tmpl % tuple([e] * tmpl.count("%s"))))
        # a line break at every kind of token boundary of a one-statement text: where -eval takes the text as one statement, the other modes do too
        for txt in ['write(\n"a")', 'write(toa(id(1,\n2)))', 'for i <- fromto(0,\n3) write(toa(i))', 'write(toa(1 +\n2))', 'write(toa((1 +\n2)))', 'x =\n5', 'write(toa([1,\n2]))', 'write(toa([\n1, 2\n]))',
                    'g = (a,\nb) -> a', 'if true\nwrite("x")', 'if true {\nwrite("x")\n}', 'write(toa(#\n"ab"))', 'write(toa([1, 2][\n0]))', 'write(toa([1, 2, 3][0 :\n2]))', 'write(toa(fromto(\n0, 1) == 0))',
                    'while false\nwrite("w")', 'for i\n<- fromto(0, 2) write(toa(i))', 'h = () ->\n7', 'write(toa(-\n1))', 'return\n1']:
            ag.append(("a line break between two tokens of a statement", txt))
        agjobs = []
        for ename, txt in ag:
            agjobs += [(ename, txt, "eval", txt), (ename, txt, "file", txt + "\n"), (ename, txt, "file", txt), (ename, txt, "repl", txt + "\n")]
        got = {}
        with concurrent.futures.ThreadPoolExecutor(max_workers=vlib.NCPU) as ex:
            futs = {ex.submit(run_calc, calc, mode, text, tmpdir, 200000 + k): (ename, txt, mode, text) for k, (ename, txt, mode, text) in enumerate(agjobs)}
            for f in concurrent.futures.as_completed(futs):
                ename, txt, mode, text = futs[f]
                rc, out, err = f.result()
                ck.cov["evaluations"] += 1
                ck.cov["traces_validated_against_impl"] += 1
                if mode == "eval":
                    norm = out[:-len("nil\n")] if out.endswith("nil\n") else out
                elif mode == "repl":
                    norm = out[len("calc repl\n"):] if out.startswith("calc repl\n") else out
                    norm = norm[:-len("> nil\n")] if norm.endswith("> nil\n") else norm
                else:
                    norm = out
                got.setdefault(txt, []).append((mode, text.endswith("\n"), rc, norm, ename))
        for txt, runs in got.items():
            ref = [r for r in runs if r[0] == "eval"][0]
            if ref[2] != 0 or "Parser:" in ref[3] or "Lexer:" in ref[3] or "RUNTIME ERROR" in ref[3]:
                continue       # not a statement the parser accepts, or one that fails at run time (its report carries addresses): nothing to agree on
            for mode, nl, rc, norm, ename in runs:
                if mode != "eval" and (rc != 0 or norm != ref[3]):
                    ck.violation("%s: %r prints %r with -eval but %r in %s mode%s" % (
                        ename if ename.startswith("a line break") else "a string literal spanning lines (inner line ends in %s)" % ename, txt[:120], ref[3][:120], norm[:200], mode, "" if nl or mode == "repl" else " without a final line break"), {"statement": txt, "mode": mode, "stdout": norm})
        ck.part("mode agreement on string literals spanning lines with unusual inner line ends", statements=len(ag), runs=len(agjobs))
        # ---- what a statement wrote before it failed comes before the report of the failure, and later statements' output after it, in
        # file mode as in the REPL (the report itself carries addresses and is not compared)
        orders = []
        for body, nb in (('write("before\\n")\n10 / n', 1), ('write("bef")\nwrite("ore\\n")\n[1][n + 5]', 1), ('for i <- fromto(0, 3) write("before\\n")\n"a" + n', 3)):
            script = 'f = (n) -> {\n' + body + '\n}\nwrite("start\\n")\nf(0)\nwrite("after\\n")\nf(0)\nwrite("end\\n")\n'
            orders.append((script, nb))
        ojobs = [(sc, nb, mode) for sc, nb in orders for mode in ("file", "repl")]
        import re as _re
        with concurrent.futures.ThreadPoolExecutor(max_workers=vlib.NCPU) as ex:
            futs = {ex.submit(run_calc, calc, mode, sc, tmpdir, 300000 + k): (sc, nb, mode) for k, (sc, nb, mode) in enumerate(ojobs)}
            for f in concurrent.futures.as_completed(futs):
                sc, nb, mode = futs[f]
                rc, out, err = f.result()
                ck.cov["evaluations"] += 1
                ck.cov["traces_validated_against_impl"] += 1
                seq = _re.findall(r"start|before|RUNTIME ERROR|after|end", out)
                want = ["start"] + ["before"] * nb + ["RUNTIME ERROR", "after"] + ["before"] * nb + ["RUNTIME ERROR", "end"]
                if rc != 0 or seq != want:
                    ck.violation("%s mode: the output of a statement that fails and the report of its failure come out as %s, expected %s: %r" % (mode, seq, want, sc[:120]),
                                 {"script": sc, "mode": mode, "stdout": out[:2000]})
        ck.part("order of output and failure reports", scripts=len(orders), runs=len(ojobs))
    # ---- loops whose bodies end in every statement form, as top-level statements of a script: how often the body ran (a counter written
    # by a probe statement afterwards) is what CalcSem says, in every mode -- file mode compiles such a loop with its value discarded
    if not replay:
        import props
        lf = []
        for fname, f in props.c09_forms():
            if any(n["t"] in ("ret", "yield") for n in walk(f)):
                continue
            probe = lambda v: wr(bin_("+", bin_("+", St("<<K:"), call("toa", N(v))), St(">>")))
            lf.append({"id": len(lf) + 1, "items": [props.IDF, assign("gx", I(1)), assign("kk", I(0)), wh(bin_("<", N("kk"), I(3)), block([assign("kk", bin_("+", N("kk"), I(1))), f])), probe("kk"),
                                                   assign("tq", I(0)), fr(["q"], [call("fromto", I(0), I(3))], block([assign("tq", bin_("+", N("tq"), I(1))), f])), probe("tq"),
                                                   assign("kk", I(0)), wh(bin_("<", N("kk"), I(2)), block([assign("kk", bin_("+", N("kk"), I(1))), fr(["q"], [call("fromto", I(0), I(2))], f), f])), probe("kk")],
                       "stdin": [], "meta": fname})
        so = sess.spec_obs(lf)
        ljobs = []
        for s in lf:
            ob = so.get(s["id"], [])
            if len(ob) != len(s["items"]) or any("val" not in o for o in ob):
                continue
            want = _re.findall(r"<<K:[^>]*>>", "".join("".join(o.get("out", [])) for o in ob))
            text = "\n".join(ps(it) for it in s["items"])
            ljobs += [(s["meta"], text, want, "file", text + "\n"), (s["meta"], text, want, "repl", text + "\n"), (s["meta"], text, want, "eval", " ".join(ps(it) for it in s["items"]))]     # -eval: the statements one after the other (the parser's program rule takes no line break between statements)
        with concurrent.futures.ThreadPoolExecutor(max_workers=vlib.NCPU) as ex:
            futs = {ex.submit(run_calc, calc, mode, inp, tmpdir, 500000 + k): (fname, text, want, mode) for k, (fname, text, want, mode, inp) in enumerate(ljobs)}
            for f in concurrent.futures.as_completed(futs):
                fname, text, want, mode = futs[f]
                rc, out, err = f.result()
                ck.cov["evaluations"] += 1
                ck.cov["traces_validated_against_impl"] += 1
                got = _re.findall(r"<<K:[^>]*>>", out)
                if rc != 0 or got != want:
                    ck.violation("%s mode: loops whose body ends in the form %s ran %s, specified %s%s: %r" % (mode, fname, got, want, (" exit %d" % rc) if rc else "", text[:160]),
                                 {"statement": text, "mode": mode, "stdout": out[:2000]})
        ck.part("loops whose bodies end in every statement form, as top-level statements, in three modes", forms=len(ljobs) // 3, runs=len(ljobs))
    # ---- several statements in one text, some of them failing at run time: every mode runs all of them, in order (what each writes and
    # whether it fails comes from CalcSem; the text of the reports carries addresses and is not compared)
    if not replay:
        fails = [assign("xa", bin_("/", I(1), I(0))), assign("xi", ix1(lst([I(1)]), I(3))), assign("xs", bin_("+", St("s"), I(1))), call("nope", I(1)), assign("xb", bin_("/", N("a"), bin_("-", N("a"), N("a"))))]
        ms = []
        for k, f in enumerate(fails):
            g = fails[(k + 2) % len(fails)]
            for items in ([wr(St("one ")), f, wr(St("two "))], [assign("a", I(2)), f, wr(bin_("+", call("toa", N("a")), St("two "))), g, wr(St("three "))], [f, g, wr(St("one "))], [wr(St("one ")), wr(St("two ")), f]):
                ms.append({"id": len(ms) + 1, "items": items, "stdin": []})
        so = sess.spec_obs(ms)
        mjobs = []
        for s in ms:
            want = []
            for o in so.get(s["id"], []):
                want += _re.findall(r"one|two|three", "".join(o.get("out", []))) + (["RUNTIME ERROR"] if "err" in o else [])
            if len(so.get(s["id"], [])) != len(s["items"]) or any("unspec" in o for o in so[s["id"]]):
                raise vlib.Infra("CalcSem does not specify a several-statements session")
            text = " ".join(ps(it) for it in s["items"])
            mjobs += [(text, want, "eval", text), (text, want, "file", text + "\n"), (text, want, "repl", text + "\n")]
        with concurrent.futures.ThreadPoolExecutor(max_workers=vlib.NCPU) as ex:
            futs = {ex.submit(run_calc, calc, mode, inp, tmpdir, 400000 + k): (text, want, mode) for k, (text, want, mode, inp) in enumerate(mjobs)}
            for f in concurrent.futures.as_completed(futs):
                text, want, mode = futs[f]
                rc, out, err = f.result()
                ck.cov["evaluations"] += 1
                ck.cov["traces_validated_against_impl"] += 1
                seq = _re.findall(r"one|two|three|RUNTIME ERROR", out)
                if rc != 0 or seq != want:
                    ck.violation("%s mode: several statements in one text, some failing: %r gives %s, specified %s%s" % (mode, text[:150], seq, want, (" exit %d" % rc) if rc else ""),
                                 {"statement": text, "mode": mode, "stdout": out[:2000]})
        ck.part("several statements in one text, some failing, in three modes", texts=len(ms), runs=len(mjobs))
    ck.cov["rule"] = ("all scripts of <= %d statements over 24 statement shapes (incl. a multi-line string inside an open block and inside an open array literal) (plain, value, strings and comments containing { } [ ] \" ;, escaped quote, multi-line block / block with a brace in a string / "
                      "array literal / string, blank and comment lines), each in file mode with and without a final line break and in REPL mode; plus single statements whose values CalcSem specifies, in "
                      "-eval, REPL and file mode; non-trivial = a multi-line statement or a string/comment containing a grouping character" % n)
    ck.assumptions += ["ReplLoop.tla evaluated by TLC gives the expected grouping and outputs; CalcSem gives the values of single statements", "interactive line editing is out of scope",
                       "REPL results of string type are shown quoted, -eval and write show them unquoted (documented by example)"]
    return ck.finish()
