"""C06 -- the front end is total: any text is parsed or rejected, in finite time.
Lexer.tla (termination as step bound and as liveness, accept/reject) is model-checked; every class
string up to the bound -- accepted or not -- is replayed on the real lexer and parser with a
deterministic loop-iteration budget (hook); parser totality, error spans, caret rendering and
"nothing executed on error" are checked on token strings, literal-length classes, random bytes,
mutated programs and nesting ladders."""
import json, random, subprocess, itertools, os, tempfile
import vlib, frontlib, gens
from astlib import ps


def check_total(c, r, ck, want_err=None):
    """totality verdicts for one input; returns description or None"""
    src = c["src"]
    n = len(bytes.fromhex(c["hex"])) if c.get("hex") else len(src.encode("utf-8"))
    lx = r.get("lex")
    if lx is not None:
        if lx["outcome"] != "ok":
            return "lexer %s %s" % (lx["outcome"], lx["msg"])
        if want_err is not None and bool(lx["err"]) != want_err:
            return "lexer %s an input the specification %s (%s)" % ("rejects" if lx["err"] else "accepts", "accepts" if lx["err"] else "rejects", lx["err"])
    p = r["parse"]
    if p["outcome"] != "ok":
        return "parser %s %s" % (p["outcome"], p["msg"])
    if "err" in p:
        if not (0 <= p["from"] <= p["to"] <= n):
            return "error span [%d,%d) outside the input of %d bytes (%s)" % (p["from"], p["to"], n, p["err"])
        if p.get("report") != "ok":
            return "displaying the error failed: %s" % p.get("report")
        if want_err is False and p["err"].startswith("Lexer:"):
            return "parser reports a lexer error on an input the lexer specification accepts: " + p["err"]
    elif want_err:
        return "parser accepts an input whose tokenisation the specification rejects"
    return None


def open_bracket_errors(ck, tier, calc):
    """a line that is rejected while a brace or bracket of it is still open (and never closed): one report, and the lines after it are read
    as statements of their own, each run exactly once (file mode and piped REPL, real binary)"""
    import re as _re
    tmpdir = tempfile.mkdtemp(prefix="c06b-", dir=vlib.scratch())
    bads = ["a = [1, 2 $", "a = [1, [2, 3 ?", "f = (x) -> { $", "if true { ?", "x = {1 $ 2", "a = [\"s\", 1 $", "g(1, [2 $", "a = [1, 2 $ ; note", "a = [1, \u00e9"]
    n = 0
    for b in bads:
        for tail in (['write("after\\n")', "b = [3,", "4]", "write(toa(b))", 'write("\\nend")'], ['write("after\\n")', 'c = "two', 'lines"', "write(c)", 'write("\\nend")'], ['write("after\\n")', "}", 'write("\\nend")']):
            script = "\n".join(['write("before\\n")', b] + tail) + "\n"
            for mode in ("file", "repl"):
                path = os.path.join(tmpdir, "ob.calc")
                with open(path, "w") as f:
                    f.write(script)
                try:
                    p = subprocess.run([calc, path] if mode == "file" else [calc], input=None if mode == "file" else script, capture_output=True, text=True, timeout=120, stdin=subprocess.DEVNULL if mode == "file" else None)
                except subprocess.TimeoutExpired:
                    raise vlib.Infra("calc binary timed out on a small script")
                n += 1
                ck.cov["evaluations"] += 1
                ck.cov["traces_validated_against_impl"] += 1
                out = p.stdout
                what = None
                if p.returncode != 0:
                    what = "the interpreter aborted (exit %d): %s" % (p.returncode, p.stderr[:200])
                elif out.count("before\n") != 1 or out.count("after\n") != 1 or out.count("\nend") != 1 or out.find("before") > out.find("after") or out.find("after") > out.find("end"):
                    what = "the lines around the rejected one did not run exactly once, in order"
                elif len(_re.findall(r"Parser:|Lexer:", out[:out.find("after")])) != 1:
                    what = "%d reports for the rejected line" % len(_re.findall(r"Parser:|Lexer:", out[:out.find("after")]))
                elif "b = [3," in script and "[3, 4]" not in out:
                    what = "the array literal spanning two lines after it was not evaluated"
                elif 'c = "two' in script and "two\nlines" not in out:
                    what = "the string literal spanning two lines after it was not evaluated"
                if what:
                    ck.violation("%s mode, a rejected line with an open bracket (%r): %s: output %r" % (mode, b, what, out[:300]), {"open_bracket": {"line": b, "tail": tail, "mode": mode}, "stdout": out[:1000]})
    ck.part("rejected lines with a bracket still open, then ordinary and multi-line statements (real binary)", scripts=n)


def long_lines(ck, tier, calc, only=None):
    # ---- physical lines of any length through the line reader and the read-eval loop of file mode (the real binary): a long line is
    # parsed and run, or rejected with one report, and the lines around it run exactly once either way
    import re as _re
    tmpdir = tempfile.mkdtemp(prefix="c06-", dir=vlib.scratch())
    if only:
        lens, kinds_only = [only["n"]], only["kind"]
    else:
        kinds_only = None
    lens = lens if only else [1000, 4095, 4096, 4097, 65535, 65536, 65537, 70000] + ([] if tier == "quick" else [131072, 300000, 1100000])
    kinds = {"string literal": (lambda n: 'write(#"' + "x" * n + '")', False), "comment": (lambda n: "write(7) ; " + "c" * n, False),
             "float literal": (lambda n: "write(1." + "3" * n + " > 1)", False), "blanks": (lambda n: "write(" + " " * n + "8)", False),
             "name": (lambda n: "write(#[v" + "w" * n + "])", False),
             "string literal then a stray bracket": (lambda n: 'write("' + "x" * n + '") )', True), "stray bracket then a comment": (lambda n: "write(7) ) ; " + "c" * n, True),
             "invalid character after blanks": (lambda n: "write(8)" + " " * n + "$", True)}
    nlong = 0
    for n in lens:
        for kname, (mk, bad) in kinds.items():
            if kinds_only and kname != kinds_only:
                continue
            for final_nl in (True, False):
                script = 'write("before\n")\n' + mk(n) + '\nwrite("\nafter")' + ("\n" if final_nl else "")
                path = os.path.join(tmpdir, "long.calc")
                with open(path, "w") as f:
                    f.write(script)
                try:
                    p = subprocess.run([calc, path], capture_output=True, text=True, timeout=600, stdin=subprocess.DEVNULL)
                except subprocess.TimeoutExpired:
                    raise vlib.Infra("calc binary timed out on a script with a line of %d characters" % n)
                nlong += 1
                ck.cov["evaluations"] += 1
                ck.cov["traces_validated_against_impl"] += 1
                reports = len(_re.findall(r"Parser:|Lexer:", p.stdout))
                what = None
                if p.returncode != 0:
                    what = "the interpreter aborted (exit %d): %s" % (p.returncode, p.stderr[:200])
                elif not p.stdout.startswith("before\n") or not p.stdout.endswith("\nafter") or p.stdout.count("before") != 1 or p.stdout.count("after") != 1:
                    what = "the lines around it did not run exactly once: output %r ... %r" % (p.stdout[:40], p.stdout[-40:])
                elif bad and reports != 1:
                    what = "%d error reports for an invalid line" % reports
                elif not bad and (reports or len(p.stdout) <= len("before\n\nafter")):
                    what = "a valid line was %s: output %r ... %r" % ("rejected" if reports else "neither run nor rejected", p.stdout[:40], p.stdout[-40:])
                if what:
                    ck.violation("file mode, a line of %d characters (%s)%s: %s" % (len(mk(n)), kname, "" if final_nl else ", no final line break", what),
                                 {"long_line": {"kind": kname, "n": n, "final_newline": final_nl}, "stdout_head": p.stdout[:200], "stdout_tail": p.stdout[-200:], "exit": p.returncode})
    ck.part("long physical lines in file mode (real binary)", scripts=nlong, longest=max(lens))


TOKS = ["1", "a", "+", "-", "(", ")", "[", "]", "{", "}", ",", ":", "=", "if", "else", "while", "for", "return", "yield", "<-", "->", "\n", '"s"', "true", "#", "==", "2.5"]


def run(tier, replay=None):
    ck = vlib.Check("C06", tier)
    seed = vlib.seed()
    rnd = random.Random(seed)
    if replay:
        case = json.load(open(replay))["case"]
        if "open_bracket" in case:
            open_bracket_errors(ck, tier, vlib.build_calc())
            return ck.finish()
        if "long_line" in case:
            long_lines(ck, tier, vlib.build_calc(), only=case["long_line"])
            return ck.finish()
        res = frontlib.run_front([case])
        d = check_total(case, res[case["id"]], ck, case.get("want_err"))
        if d:
            ck.violation(d, case)
        ck.cov["evaluations"] = 1
        return ck.finish()
    n = 4 if tier == "quick" else 5
    r, rl, obs = frontlib.lexer_model(n)
    ck.add_tlc(r, "Lexer.tla: step bound, accept/reject, strings <= %d" % n)
    ck.add_tlc(rl, "Lexer.tla liveness: <>(done or error) under weak fairness, strings <= 3")
    cases = frontlib.lexer_cases(obs, seed)
    for c in cases:
        c["want_err"] = c["err"]
        c["family"] = "class strings"
    nid = len(cases)

    def add(src, fam, **kw):
        nonlocal nid
        nid += 1
        c = dict(id=nid, src=src, family=fam, **kw)
        cases.append(c)
        return c
    # token strings for the parser
    L = 3 if tier == "quick" else 4
    for k in range(1, L + 1):
        combos = itertools.product(TOKS, repeat=k)
        if k >= 3:
            combos = [c for c in combos if rnd.random() < (0.12 if tier == "quick" else 0.25 if k == 3 else 0.04)]
        for c in combos:
            add(" ".join(c), "token strings", nolex=True)
    # literal-length classes
    for lit in ["9223372036854775807", "9223372036854775808", "18446744073709551616", "9" * 40, "1." + "3" * 400, "9" * 400 + ".5", "0" * 50, "1" + "0" * 400 + ".0",
                "x = 99999999999999999999", "[1, 123456789012345678901234567890]", "f(99999999999999999999999)", "1.5.5", "1..2", "007", "1e5", "0x10"]:
        add(lit, "literal lengths")
    # unterminated / unbalanced / deep nesting
    for s in ['"abc', '"abc\\', '"abc\\"', "1 ; note", ";", '"', '\\', "(((", ")))", "[[[", "{{{", "{\n{\n{\n", "}\n}", "f(", "f(1,", "a[", "a[1:", "if", "if 1", "for", "for i", "for i <-", "while", "return", "yield", "->", "() ->", "(a, ) -> 1",
              "", "\n", "\n\n\n", " ", "\t", "\r\n", "1\r\n2", "\ufeff1", "a = ", "= 1", "1 2 3", "1\n2", "{ 1 }", "{\n1\n}", "{\n1\n2\n}\n", "if true {\n1\n} else {\n2\n}", "x = (a) -> (b) -> (c) -> a"]:
        add(s, "unterminated / unbalanced / edge")
    # every kind of rejected input where there is nothing before it: as the whole input, as its first line, after a line break, after
    # blanks, after a comment, inside a block (errors whose report looks at the token before the culprit)
    bads = ["(x, x) -> x", "(n, n) -> n + 1", "((x, x) -> x)(1)", "[(a, a) -> 1]", "(a, b, a) -> {\na\n}", "(x, x) -> {\nx\n}", ") 1", "] 1", "} 1", ", 1", ": 1", "= 1", "-> 1", "<- 1", "else 1",
            "1 +", "1 2", "f(", "9999999999999999999999", "9999999999999999999999 + 1", "1.5.5", "$", "\"abc", "true = false", "if", "for", "for i", "return )", "yield ]", "#", "!", "- -", "x[", "x[]", "x[:", "x[1:]", "x[:1]"]
    for b in bads:
        for frame in ("%s", "%s\n", "\n%s", "  %s", "; note\n%s", "%s\nwrite(\"after\")", "{\n%s\n}", "x = 1\n%s", "%s ; trailing", "\t%s\n\n"):
            add(frame % b, "rejected inputs with nothing before them", nolex=True)
    for depth in ([10, 100, 1000] if tier == "quick" else [10, 100, 1000, 5000, 10000]):
        add("(" * depth + "1" + ")" * depth, "nesting ladder", nolex=depth > 1000)
        add("[" * depth + "1" + "]" * depth, "nesting ladder", nolex=depth > 1000)
        add("(" * depth, "nesting ladder", nolex=depth > 1000)
        add("-" * depth + "1", "nesting ladder")
        add("a" + "[0]" * depth, "nesting ladder", nolex=depth > 1000)
        add("1" + " + 1" * depth, "nesting ladder", nolex=depth > 1000)
        add("f(" * min(depth, 2000) + "1" + ")" * min(depth, 2000), "nesting ladder", nolex=True)
    # statement ladders: every statement form that takes a body, nested in itself and in the others, one-line and braced, with and
    # without else, valid and with an error in the innermost body (the parser's work must stay proportional to the input:
    # the harness counts token fetches through the VerifNext hook)
    heads = {"if": "if a", "while": "while a", "for": "for i <- a", "fn": "() ->", "assign": "x ="}
    for depth in ([8, 24, 60] if tier == "quick" else [8, 24, 60, 200, 600]):
        for h in heads.values():
            add(" ".join(h for _ in range(depth)) + " 1", "statement ladder", nolex=True)
            add(" ".join(h for _ in range(depth)) + " 1 +", "statement ladder", nolex=True)
            add("".join(h + " {\n" for _ in range(depth)) + "1\n" + "}\n" * (depth - 1) + "}", "statement ladder", nolex=True)
            add("".join(h + " {\n" for _ in range(depth)) + "1 )\n" + "}\n" * (depth - 1) + "}", "statement ladder", nolex=True)
        mix = list(heads.values())
        add(" ".join(mix[k % len(mix)] for k in range(depth)) + " 1", "statement ladder", nolex=True)
        add(" ".join("if a" for _ in range(depth)) + " 1" + " else 2" * depth, "statement ladder", nolex=True)
        add("".join("if a {\n" for _ in range(depth)) + "1\n" + "} else {\n2\n}\n" * (depth - 1) + "} else 2", "statement ladder", nolex=True)
    # random bytes (incl. invalid UTF-8 through surrogateescape is not JSON-able: use latin-1 range and replacement) and mutated programs
    alphabet = "01a bxyz+-*/=<>!&|#%~(){}[],:\"\;.\n\t$@'_AZ?^`£€\r\x7f\x01\x00\ufffd\udcff"
    alphabet = alphabet.replace("\udcff", "")
    for i in range(400 if tier == "quick" else 20000):
        add("".join(rnd.choice(alphabet) for _ in range(rnd.randint(0, 24))), "random characters")
    progs = [ps(it) for s in gens.random_sessions(60 if tier == "quick" else 1500, seed, "c06") for it in s["items"]]
    for ptxt in progs:
        for _ in range(2):
            b = list(ptxt)
            k = rnd.choice(["del", "ins", "swap", "dup", "trunc"])
            if not b:
                continue
            i = rnd.randrange(len(b))
            if k == "del":
                del b[i]
            elif k == "ins":
                b.insert(i, rnd.choice(alphabet))
            elif k == "swap" and i + 1 < len(b):
                b[i], b[i + 1] = b[i + 1], b[i]
            elif k == "dup":
                b.insert(i, b[i])
            else:
                b = b[:i]
            add("".join(b), "mutated programs")
    # bytes that are not valid UTF-8 (Latin-1 text, truncated sequences, 0xff, overlong forms) in strings, comments, names, at every
    # distance from the end of the input; they travel to the harness as hexadecimal
    badb = [b"\xe9", b"\xff", b"\x80", b"\xc3", b"\xe2\x82", b"\xf0\x9f\x98", b"\xc0\xaf", b"\xed\xa0\x80"]
    frames = [b'"%s"', b'write("%s")', b'write("a%sb")\nwrite("x")', b"1 ; caf%s", b"1 ; %s\n2", b"%s", b"a%s", b'"%s', b'x = "%s" + "y"\nx', b"; %s", b'write("%s")\n', b'["%s", 1]']
    for bb in badb:
        for frm in frames:
            raw = frm.replace(b"%s", bb)
            c = add(raw.decode("utf-8", errors="replace"), "bytes that are not valid UTF-8", nolex=True)
            c["hex"] = raw.hex()
    for ptxt in frontlib.long_programs(seed, 6 if tier == "quick" else 60):
        add(ptxt, "long programs (70 to 1500 tokens in one parse)", nolex=True)
    res = frontlib.run_front(cases)
    fam_counts = {}
    nontriv = set()
    for c in cases:
        rr = res.get(c["id"])
        if rr is None:
            raise vlib.Infra("no front-end result for case %d" % c["id"])
        ck.cov["evaluations"] += 1
        ck.cov["traces_validated_against_impl"] += 1
        fam_counts[c["family"]] = fam_counts.get(c["family"], 0) + 1
        d = check_total(c, rr, ck, c.get("want_err"))
        if ("err" in rr["parse"]) or (len(c["src"]) >= 2 and any(ch in c["src"] for ch in '";')):
            nontriv.add(c["src"])
        if d:
            ck.violation("%s: %r: %s" % (c["family"], c["src"][:120], d), {k: v for k, v in c.items() if k != "toks"})
    for f, k in fam_counts.items():
        ck.part(f, inputs=k)
    # "when an error is reported none of that input is executed": session level (one VM), and -eval through the binary
    import sess
    from astlib import wr, St, I, assign, N
    bad = ['write("X") 1 +', 'write("X")\n)', 'g = 5 $', 'write("X") "abc', "g = 7 ("]
    ss = [{"id": 1, "items": [assign("g", I(1))] + [{"perr": True, "src": b} for b in bad] + [N("g")], "stdin": []}]
    vs = sess.judge(ss, cmp=("value", "residue"), ck=ck, part="nothing executed on a parse error (session)")
    for v in vs:
        ck.cov["evaluations"] += 1
        if v.status != "accept":
            ck.violation("a rejected input left a trace in the session: " + json.dumps(v.info)[:500], {"session": v.session, "divergence": v.info})
        for o in (v.real or []):
            if o.get("kind") == "perr" and (o.get("out") or o["cs"][0] != o["cs"][1]):
                ck.violation("a rejected input was partly compiled or executed: out=%r code %s" % ("".join(o.get("out", [])), o["cs"]), {"session": v.session, "real": v.real})
    calc = vlib.build_calc()
    for b in bad:
        p = subprocess.run([calc, "-eval", b], capture_output=True, text=True, timeout=20)
        ck.cov["evaluations"] += 1
        if p.stdout.startswith("X") or "\nX" in p.stdout:
            ck.violation("-eval executed part of an input it reported as a parse error: %r printed %r" % (b, p.stdout[:200]), {"eval": b, "stdout": p.stdout})
        if p.returncode not in (0, 1) or "panic" in p.stderr or "goroutine" in p.stderr:
            ck.violation("-eval aborted on %r: %s" % (b, p.stderr[:300]), {"eval": b, "stderr": p.stderr[:2000]})
    long_lines(ck, tier, calc)
    open_bracket_errors(ck, tier, calc)
    ck.cov["distinct_nontrivial"] = len(nontriv)
    ck.cov["rule"] = ("all class strings <= %d over 11 character classes (TLC-enumerated, accept/reject from Lexer.tla), token strings <= %d over 27 tokens, literal-length classes, "
                      "unterminated/unbalanced/edge inputs, nesting ladders to depth 10k, seeded random character strings and mutated valid programs; non-trivial = the parser "
                      "reports an error, or the input has a string/comment and length >= 2" % (n, L))
    for c in cases[:: max(1, len(cases) // 5)][:5]:
        ck.sample({"family": c["family"], "src": c["src"][:80]})
    ck.assumptions += ["Lexer.tla evaluated by TLC decides termination and accept/reject on the enumerated strings; beyond the bound inputs are sampled",
                       "hangs are detected by a deterministic loop-iteration budget through the lexer.VerifTick hook, never by wall clock",
                       "stack exhaustion by megabyte-deep nesting is out of scope"]
    return ck.finish()
