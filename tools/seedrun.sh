#!/bin/sh
# seedrun.sh <name> <patch file> <check ids...>: fresh worktree of /repo HEAD + patch, baseline tests, then the checks
name=$1; patch=$2; shift; shift
w=/tmp/sev/$name
git -C /repo worktree remove --force $w >/dev/null 2>&1; rm -rf $w; mkdir -p /tmp/sev
git -C /repo worktree add -q --detach $w HEAD || exit 2
if ! git -C $w apply "$patch"; then echo "$name: PATCH DOES NOT APPLY"; git -C /repo worktree remove --force $w; exit 2; fi
echo "== $name: $(git -C $w diff --stat | tail -1)"
/verif/tools/seedeval.sh $w "$@"
git -C /repo worktree remove --force $w
