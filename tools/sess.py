"""Session pipeline: syntax trees -> text (documented printer) -> the real pipeline with hooks ->
recorded observations -> CalcSem in trace mode (TLC is the judge) -> ACCEPT / DIVERGE per session.

A session is {"id", "items": [AST | {"perr": True, "src": text}], "stdin": [str], "meta": any}."""
import json, time, re, os, zlib
import vlib
from astlib import ps

BATCH = 4000


def item_text(it):
    if isinstance(it, dict) and it.get("perr"):
        return it["src"]
    return ps(it)


def norm_ast(n):
    """the tree as parser.Parse returns it is compared structurally with the printed one"""
    return n


def parse_report(rep):
    """text of the implementation's runtime error report -> structure compared by CalcSem.ReportOK"""
    lines = rep.split("\n")
    out = {"parsed": False, "cls": "", "op": "", "args": [], "ctxs": [], "ip": -1}
    m = re.match(r"RUNTIME ERROR : (.*)$", lines[0])
    if not m:
        return out
    out["cls"] = m.group(1)
    arrow = [l for l in lines if l.startswith("-->")]
    if len(arrow) != 1:
        return out
    m = re.match(r"--> (\d+): 0X[0-9A-F]+ : (\w+)([^;]*); ?(.*)$", arrow[0])
    if not m:
        return out
    out["ip"] = int(m.group(1))
    out["op"] = m.group(2)
    out["args"] = [c for c in m.group(4)]
    ctxs, cur = [], None
    for l in lines:
        if l.startswith("memory context"):
            cur = []
            ctxs.append(cur)
        elif l.startswith("IP: ") and cur is not None:
            fm = re.match(r"IP: (\d+) (\w*)\(\) args: ?(.*)$", l)
            if not fm:
                return out
            cur.append({"name": fm.group(2), "args": [c for c in fm.group(3)], "ip": int(fm.group(1))})
        elif "giving up" in l and cur is not None:
            cur.append({"name": "<" + l.strip() + ">", "args": [], "ip": -1})
    out["ctxs"] = ctxs
    out["parsed"] = True
    return out


def to_rec(o):
    k = o.get("kind")
    if k == "val":
        return {"kind": "val", "val": o["val"], "out": o["out"], "residue": o.get("residue", {})}
    if k == "err":
        return {"kind": "err", "err": o["err"], "out": o["out"], "residue": o.get("residue", {}),
                "report": parse_report(o.get("report", ""))}
    if k == "perr":
        return {"kind": "perr"}
    if k == "panic":
        return {"kind": "panic", "msg": o.get("msg", ""), "site": o.get("site", ""), "op": o.get("op", ""), "phase": o.get("phase", "")}
    return {"kind": k or "missing", "where": o.get("where", "")}


class Verdict:
    def __init__(self, session, texts, real):
        self.session, self.texts, self.real = session, texts, real
        self.status = None        # accept | diverge | guard | lost
        self.info = None          # DIVERGE payload / guard description
        self.accept = None        # ACCEPT payload


def judge(sessions, cmp=("value",), mode="used", maxsteps=60000, trace=False, timeout=3000, ck=None, part=None, budget=0):
    """returns list of Verdict, one per session"""
    by_id = {}
    real_in = []
    for s in sessions:
        texts = [item_text(it) for it in s["items"]]
        by_id[s["id"]] = (s, texts)
        rs = {"id": s["id"], "items": [{"src": t} for t in texts], "stdin": s.get("stdin", []), "mode": s.get("mode", mode),
              "wantast": True, "trace": trace}
        if budget:
            rs["budget"] = budget
        if s.get("pregrow"):
            rs["pregrow"] = s["pregrow"]
        real_in.append(rs)
    real = vlib.run_real(real_in)
    # the harness's per-session safety net (60 s of wall clock; the deterministic detectors are the step budgets) fired:
    # run such a session again on its own; only a second expiry counts as an observation (the program does not terminate
    # outside the instruction loop), a single one is load on the machine
    slow = [rs for rs in real_in if real.get(rs["id"]) and real[rs["id"]][0].get("kind") == "timeout"]
    for rs in slow:
        for attempt in (1, 2):
            if attempt == 2:
                time.sleep(20)          # a machine short of memory or processors needs a moment; a program that does not terminate fails again anyway
            again = vlib.run_real([rs], nworkers=1)
            if again.get(rs["id"]) and again[rs["id"]][0].get("kind") not in ("timeout", "crash"):
                real[rs["id"]] = again[rs["id"]]
                break
        else:
            real[rs["id"]] = [{"kind": "hang", "where": "no result after 60 s of wall clock, three times, the last two on its own (outside the VM's instruction loop)"}]
    verdicts = {}
    tlc_in = []
    for s in sessions:
        sid = s["id"]
        _, texts = by_id[sid]
        res = real.get(sid)
        v = Verdict(s, texts, res)
        verdicts[sid] = v
        if res is None:
            v.status, v.info = "lost", "no result from the real pipeline"
            continue
        # parse guard (property C07): the real parser must return the printed tree
        guard = None
        for i, (it, o) in enumerate(zip(s["items"], res)):
            if isinstance(it, dict) and it.get("perr"):
                continue
            if o.get("kind") in ("perr",):
                guard = {"item": i + 1, "why": "printed tree rejected by the parser: " + o.get("msg", ""), "text": texts[i]}
                break
            if "ast" in o and (o.get("nstmt") != 1 or o["ast"][0] != it):
                guard = {"item": i + 1, "why": "parser returned a different tree", "text": texts[i], "got": o.get("ast")}
                break
        if guard:
            v.status, v.info = "guard", guard
            continue
        rec = [to_rec(o) for o in res]
        ts = {"id": sid, "items": [({"perr": True, "cerr": True} if it.get("cerr") else {"perr": True}) if (isinstance(it, dict) and it.get("perr")) else {"ast": it} for it in s["items"]],
              "stdin": [[c for c in l] for l in s.get("stdin", [])], "rec": rec, "cmp": list(s.get("cmp", cmp))}
        tlc_in.append(ts)
        v.tlc_in = ts
    for sid, (st, d) in judge_recorded(tlc_in, maxsteps, timeout, ck, part).items():
        if st == "accept":
            verdicts[sid].status, verdicts[sid].accept = "accept", d
        else:
            verdicts[sid].status, verdicts[sid].info = "diverge", d
    for v in verdicts.values():
        if v.status is None:
            v.status, v.info = "lost", "TLC printed neither ACCEPT nor DIVERGE"
    return [verdicts[s["id"]] for s in sessions]


THEOREM_SAMPLE = {"quick": 120, "thorough": 600}    # sessions per call on which CalcSem's own action properties are checked
THEOREM_MAXSTEPS = 3000


def judge_recorded(tlc_in, maxsteps=60000, timeout=3000, ck=None, part=None):
    """CalcSem in trace mode on sessions that already carry their recorded observations: {id: (accept|diverge, payload)}.
    The verdict run checks the state invariants; the action properties (theorems of the semantics itself, five to eight
    times the cost per step) are checked by a second run on a bounded sample of the accepted sessions."""
    out = {}
    base = "SPECIFICATION Spec\nCONSTANT SessionsFile = \"sessions.ndjson\"\nCONSTANT MaxSteps = %d\nVIEW View\nINVARIANT NoResidue\nINVARIANT SpecSane\n%sCHECK_DEADLOCK FALSE\n"
    for b in range(0, len(tlc_in), BATCH):
        batch = tlc_in[b:b + BATCH]
        data = "\n".join(json.dumps(t) for t in batch) + "\n"
        r = vlib.run_tlc("CalcSem", "SemRun.cfg", files={"sessions.ndjson": data, "SemRun.cfg": base % (maxsteps, "")}, timeout=timeout)
        if r.violation:
            raise vlib.Infra("CalcSem's own invariant failed (specification defect, not a verdict): " + r.violation + "\n" + r.raw[-1500:])
        if ck is not None:
            ck.add_tlc(r, part)
        for line in r.lines:
            if line.startswith("ACCEPT "):
                d = json.loads(line[7:])
                out[d["id"]] = ("accept", d)
            elif line.startswith("DIVERGE "):
                d = json.loads(line[8:])
                out[d["id"]] = ("diverge", d)
    k = THEOREM_SAMPLE.get(os.environ.get("VERIF_TIER", "quick"), 120)
    cand = [t for t in tlc_in if out.get(t["id"], ("", {}))[0] == "accept" and out[t["id"]][1].get("steps", 0) <= THEOREM_MAXSTEPS]
    cand.sort(key=lambda t: zlib.crc32(repr((t["id"], vlib.seed())).encode()))
    sample = cand[:k]
    if sample:
        data = "\n".join(json.dumps(t) for t in sample) + "\n"
        r = vlib.run_tlc("CalcSem", "SemRun.cfg", files={"sessions.ndjson": data, "SemRun.cfg": base % (
            maxsteps, "PROPERTIES GlobalsOnlyAtTopLevel FrameOnlyByOwner OutputOnlyGrows\n")}, timeout=timeout)
        if r.violation:
            raise vlib.Infra("a theorem of CalcSem failed (specification defect, not a verdict): " + r.violation + "\n" + r.raw[-1500:])
        if ck is not None and part:
            ck.part(part, theorem_sessions=len(sample) + ck.cov["parts"].get(part, {}).get("theorem_sessions", 0))
    return out


def spec_obs(sessions, maxsteps=60000, timeout=3000):
    """generate mode: what CalcSem specifies for each session (no real run): {id: [obs]}"""
    out = {}
    for b in range(0, len(sessions), BATCH):
        batch = sessions[b:b + BATCH]
        data = "\n".join(json.dumps({"id": s["id"], "items": [{"perr": True} if (isinstance(it, dict) and it.get("perr")) else {"ast": it} for it in s["items"]],
                                     "stdin": [[c for c in l] for l in s.get("stdin", [])]}) for s in batch) + "\n"
        cfg = "SPECIFICATION Spec\nCONSTANT SessionsFile = \"sessions.ndjson\"\nCONSTANT MaxSteps = %d\nVIEW View\nINVARIANT NoResidue\nCHECK_DEADLOCK FALSE\n" % maxsteps
        r = vlib.run_tlc("CalcSem", "SemRun.cfg", files={"sessions.ndjson": data, "SemRun.cfg": cfg}, timeout=timeout)
        if r.violation:
            raise vlib.Infra("CalcSem invariant failed: " + r.violation)
        for line in r.lines:
            if line.startswith("OBS "):
                d = json.loads(line[4:])
                out[d["id"]] = d["obs"]
    return out


ERRCLASS = [("nil error", "nil"), ("type error", "type"), ("division by zero", "zerodiv"), ("index error", "index"), ("arity mismatch", "arity"),
            ("conversion error", "conversion"), ("read error", "read")]
MARK = "@@MARK@@"


def judge_via_loop(sessions, cmp=("report",), maxsteps=60000, ck=None, part=None, oneline=False, layout=None):
    """The sessions go through the real read-eval loop (node.Loop in process, the REPL's way of running statements) with a marker
    statement after every item; the transcript is cut at the markers and every piece becomes a recorded observation (a value -- not
    compared --, or an error with its class and parsed report) which CalcSem judges in trace mode.  Returns a list of Verdict."""
    reqs, by_id = [], {}
    for s in sessions:
        texts = [item_text(it) for it in s["items"]]
        if layout:          # another layout of the same trees (e.g. line breaks inside string literals written as real line breaks)
            texts = [layout(t) for t in texts]
        lines = []
        for t in texts:
            lines += t.split("\n") + ['write("%s")' % MARK]
        if oneline:         # a session marked "oneline" puts its statements from index s["oneline"] on, with their markers, on one input line
            k = s.get("oneline", 0)
            lines = []
            for t in texts[:k]:
                lines += t.split("\n") + ['write("%s")' % MARK]
            lines.append(" ".join(t + ' write("%s")' % MARK for t in texts[k:]))
        reqs.append({"id": s["id"], "lines": lines, "doout": True, "stdin": s.get("stdin", [])})
        by_id[s["id"]] = (s, texts)
    real = vlib.run_loop(reqs)
    out, tlc_in = {}, []
    for s in sessions:
        sid = s["id"]
        _, texts = by_id[sid]
        r = real.get(sid)
        v = Verdict(s, texts, r)
        out[sid] = v
        if r is None or r.get("kind") != "ok":
            v.status, v.info = "diverge", {"id": sid, "item": 0, "aspect": "kind", "expected": "the read-eval loop finishes the session", "recorded": {k: (r or {}).get(k) for k in ("kind", "msg", "site")}}
            continue
        segs = r["out"].split(MARK + "> nil\n")
        if len(segs) != len(texts) + 1:
            v.status, v.info = "diverge", {"id": sid, "item": 0, "aspect": "kind", "expected": "%d statements answered" % len(texts), "recorded": {"segments": len(segs) - 1, "out": r["out"][-600:]}}
            continue
        rec = []
        for seg in segs[:-1]:
            i = seg.find("RUNTIME ERROR : ")
            if i < 0:
                if "Parser:" in seg or "Lexer:" in seg:
                    rec.append({"kind": "perr"})
                else:       # what the statement wrote, then the REPL's echo of its value ("> value"): the value is not compared, the output is when asked for
                    k = seg.rfind("> ")
                    rec.append({"kind": "val", "val": {"k": "none"}, "out": [c for c in (seg[:k] if (k >= 0 and "value" in cmp) else "")], "residue": {}})
                continue
            head = seg[i + len("RUNTIME ERROR : "):].split("\n")[0]
            cls = next((c for t, c in ERRCLASS if head.startswith(t)), "other:" + head)
            rec.append({"kind": "err", "err": cls, "out": [c for c in seg[:i]], "residue": {}, "report": parse_report(seg[i:])})
        ts = {"id": sid, "items": [{"perr": True} if (isinstance(it, dict) and it.get("perr")) else {"ast": it} for it in s["items"]],
              "stdin": [[c for c in l] for l in s.get("stdin", [])], "rec": rec, "cmp": list(cmp)}
        tlc_in.append(ts)
        v.tlc_in = ts
    for sid, (st, d) in judge_recorded(tlc_in, maxsteps, 3000, ck, part).items():
        if st == "accept":
            out[sid].status, out[sid].accept = "accept", d
        else:
            out[sid].status, out[sid].info = "diverge", d
    for v in out.values():
        if v.status is None:
            v.status, v.info = "lost", "TLC printed neither ACCEPT nor DIVERGE"
    return [out[s["id"]] for s in sessions]
