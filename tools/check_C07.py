"""C07 -- parsing follows the documented grammar: trees round-trip through source text.
Grammar.tla holds the parser model (parser.go rule by rule over the operational combinator semantics), the
documented-grammar printer PrintTree and the theorem Parse(PrintTree(t, layout)) = t, checked by TLC for every
enumerated tree and token-level layout.  Binding: the same trees are printed by the harness printer (which
must produce exactly PrintTree's tokens), rendered with text layouts (compact, extra blanks, comments, blank
and comment lines), lexed and parsed by the real front end; the real tree must equal the printed tree.  Token
lists of corrupted texts are parsed by the model and by the real parser: accept/reject and trees must agree."""
import json, random, itertools
import vlib, frontlib, gens
from astlib import *

A, B, Cn = N("a"), N("b"), N("c")


def tree_families(tier, seed):
    rnd = random.Random(seed)
    fams = {}
    ops = BINOPS
    t = []
    for o1, o2 in itertools.product(ops, ops):
        t.append(bin_(o1, bin_(o2, A, B), Cn))
        t.append(bin_(o1, A, bin_(o2, B, Cn)))
    fams["operator pairs, both nestings"] = t
    t = []
    for u in UNOPS:
        for o in ops:
            t += [un(u, bin_(o, A, B)), bin_(o, un(u, A), B), bin_(o, A, un(u, B))]
        for u2 in UNOPS:
            t.append(un(u, un(u2, A)))
        t += [un(u, ix1(A, I(0))), ix1(un(u, A), I(0)), un(u, call("f", A)), un(u, lst([A])), un(u, fn(["p"], N("p"))), un(u, I(3)), un(u, Fl(3, 1)), un(u, St("s")), un(u, Bo(True))]
    fams["unary x binary, unary x unary, unary x atoms"] = t
    t = []
    bases = [A, I(7), lst([A, B]), call("f", A), bin_("+", A, B), un("-", A), ix1(A, I(0)), ix2(A, I(0), I(1)), fn(["p"], N("p")), St("xy"), Bo(False), Fl(1, 2), lst([])]
    idx = [I(0), A, bin_("+", A, I(1)), un("-", I(1)), ix1(B, I(0)), call("f"), fn([], I(1))]
    for b in bases:
        for i in idx:
            t.append(ix1(b, i))
            t.append(ix2(b, i, idx[(idx.index(i) + 1) % len(idx)]))
        t.append(ix1(ix1(ix1(b, I(0)), I(1)), I(2)))
        t.append(ix2(ix1(ix2(b, I(0), I(5)), I(1)), I(2), I(3)))
        t.append(bin_("*", ix1(b, I(0)), ix1(b, I(1))))
    fams["index forms over every operand kind, chains of three"] = t
    t = []
    leaf_stmts = [A, assign("x", bin_("+", A, I(1))), ret(A), y(bin_("*", A, B)), call("f", A, B), lst([A, B]), un("-", A), bin_("-", un("-", A), B), paren_start(), fn(["p"], N("p"))]

    def forms(body, other):
        return [iff(A, body), ife(A, body, other), ife(A, other, body), wh(bin_("<", A, B), body), fr(["i"], [call("g")], body), fr(["i", "j"], [call("g"), A], body),
                fr(["i", "j", "k"], [call("g"), A, lst([I(1)])], body), assign("h", fn(["p"], body)), assign("h", fn([], body)), fn(["p", "q", "r"], body)]
    d1 = []
    for b in leaf_stmts:
        d1 += forms(b, I(0))
        d1 += forms(block([b, I(1)]), block([I(2), b]))
    t += d1
    pick = d1 if tier == "thorough" else rnd.sample(d1, 60)
    for b in pick:
        if b["t"] in ("fn",):
            continue
        t += forms(b, I(0))[:5]
        t += forms(block([b, b]), b)[:3]
    fams["statement forms x body {one-line, braced} x nesting depth 2 (dangling else included)"] = t
    # what a condition (or the last iterator of a loop) ends in x what a one-line body starts with
    t = []
    conds = [Bo(True), Bo(False), bin_("==", A, Bo(True)), bin_("&", B, Bo(False)), un("!", Bo(True)), I(1), Fl(3, 1), St("s"), ix1(A, I(0)), ix2(A, I(0), I(1)), call("f"), call("f", A),
             bin_("<", A, I(2)), lst([A]), bin_("*", bin_("+", A, B), Cn), un("-", A), A]
    starts = [paren_start(), fn([], I(1)), fn(["p"], N("p")), un("-", A), un("!", A), lst([A]), lst([]), St("t"), I(5), Bo(True), N("foo"), call("f", A), ret(paren_start()), y(paren_start()), assign("x", paren_start())]
    for c in conds:
        for b in starts:
            t += [iff(c, b), ife(c, b, b), wh(c, b), fr(["i"], [c], b), fr(["i", "j"], [call("g"), c], b)]
    fams["what a condition or iterator ends in x what a one-line body starts with"] = t
    t = []
    for k in range(0, 4):
        es = [A, bin_("+", B, I(1)), lst([Cn]), fn(["p"], N("p"))][:k]
        t += [lst(es), call("f", *es), fn(["p", "q", "r"][:k], A), assign("x", lst(es)), ret(call("f", *es)), bin_("+", lst(es), lst(es)), call("f", fn(["p", "q", "r"][:k], lst(es)))]
    t += [lst([lst([lst([])])]), call("f", call("g", call("h"))), fn([], fn([], fn([], I(1)))), bin_("+", fn([], I(1)), I(2)), call("f", fn([], I(1)), fn(["p"], N("p"))),
          ix1(fn([], lst([I(1)])), I(0)), lst([fn([], I(1)), I(2)]), assign("x", fn([], assign("z", fn([], I(1))))), St(""), St('q"z'), St('z"'), St('"'), St('"q'), St('a""'), St('""'), St('say "hi"'), St("a b"), St("line\nbreak"), St("{[;"),
          Fl(51, 2), Fl(0, 0), I(0), I(123456), Bo(True), N("foo"), ife(Bo(True), I(1), ife(Bo(False), I(2), I(3))), iff(A, iff(B, Cn)), ife(A, iff(B, Cn), I(1)), ife(A, wh(B, iff(Cn, I(1))), I(2)),
          ife(A, assign("x", fn([], iff(B, I(1)))), I(2)), block([I(1), I(2)]), block([assign("x", I(1)), iff(A, block([I(1), I(2)])), I(3)])]
    fams["calls, literals, arrays with 0-3 elements, function literals in every position, strings"] = t
    g = RoundTripGen(rnd)
    fams["random trees of depth <= 3"] = [g.stmt(3) for _ in range(300 if tier == "quick" else 6000)]
    if tier == "quick":
        for k in list(fams):
            if len(fams[k]) > 500:
                fams[k] = rnd.sample(fams[k], 500)
    return fams


def paren_start():
    return bin_("*", bin_("+", A, B), Cn)     # its text starts with "("


class RoundTripGen:
    def __init__(self, rnd):
        self.R = rnd

    def name(self):
        return N(self.R.choice(["a", "b", "c", "foo", "x"]))

    def atom(self, d):
        R = self.R
        c = R.random()
        if c < 0.2:
            return I(R.randint(0, 99))
        if c < 0.25:
            return Fl(R.choice([3, 1, 51]), R.choice([0, 1, 2]))
        if c < 0.3:
            return Bo(R.random() < 0.5)
        if c < 0.37:
            return St(R.choice(["", "ab", "a b", 'q"z', 'z"', '"', '"q"']))
        if c < 0.6 or d <= 0:
            return self.name()
        if c < 0.7:
            return lst([self.expr(d - 1) for _ in range(R.randint(0, 3))])
        if c < 0.8:
            return call(self.name()["n"], *[self.expr(d - 1) for _ in range(R.randint(0, 3))])
        if c < 0.9:
            return fn(R.sample(["p", "q", "r"], R.randint(0, 3)), self.body(d - 1))
        return self.expr(d - 1)

    def expr(self, d):
        R = self.R
        c = R.random()
        if d <= 0 or c < 0.25:
            return self.atom(d)
        if c < 0.7:
            return bin_(R.choice(BINOPS), self.expr(d - 1), self.expr(d - 1))
        if c < 0.8:
            return un(R.choice(UNOPS), self.expr(d - 1))
        if c < 0.9:
            return ix1(self.expr(d - 1), self.expr(d - 1))
        return ix2(self.expr(d - 1), self.expr(d - 1), self.expr(d - 1))

    def stmt(self, d):
        R = self.R
        c = R.random()
        if d <= 0 or c < 0.3:
            return self.expr(2)
        if c < 0.4:
            return assign(self.name()["n"], self.expr(2))
        if c < 0.5:
            return iff(self.expr(1), self.body(d - 1))
        if c < 0.6:
            return ife(self.expr(1), self.body(d - 1), self.body(d - 1))
        if c < 0.7:
            return wh(self.expr(1), self.body(d - 1))
        if c < 0.8:
            n = R.randint(1, 3)
            return fr(R.sample(["i", "j", "k"], n), [self.expr(1) for _ in range(n)], self.body(d - 1))
        if c < 0.9:
            return ret(self.expr(2))
        return y(self.expr(2))

    def body(self, d):
        if self.R.random() < 0.6:
            return self.stmt(d)
        return block([self.stmt(d) for _ in range(self.R.randint(2, 3))])


REALKIND = {"IntLit": "Int", "FloatLit": "Float", "StringLit": "Str", "Name": "Name", "Sticky": "Sticky", "NotSticky": "NS", "EOL": "EOL", "EOF": "EOF"}


def real_tokens(lx):
    return [(REALKIND[t[0]], t[3] if t[0] not in ("EOL", "EOF") else ("#eol" if t[0] == "EOL" else "#eof")) for t in lx["toks"]]


def model_tokens(toks):
    out = []
    for t in toks:
        if t["k"] == "Str":
            out.append(("Str", strlit(t["lit"]).replace("\\n", "\n")))
        elif t["k"] in ("EOL", "EOF"):
            out.append((t["k"], t["v"]))
        else:
            out.append((t["k"], tok_text(t)))
    return out


def tok_records(lx):
    """real lexer tokens -> token records for Grammar.tla's parser model"""
    recs = []
    for t in lx["toks"]:
        k = REALKIND[t[0]]
        if k == "Int":
            try:
                v = int(t[3])
            except ValueError:
                return None
            if v > 1 << 30:
                return None
            recs.append({"k": "Int", "v": "#int", "lit": v})
        elif k == "Float":
            return None        # floats in corrupted texts: the tree comparison would need exact decoding; skipped
        elif k == "Str":
            s = t[3].replace('\\"', '"')
            recs.append({"k": "Str", "v": "#str", "lit": [c for c in s[1:-1]]})
        elif k == "EOL":
            recs.append({"k": "EOL", "v": "#eol", "lit": 0})
        elif k == "EOF":
            recs.append({"k": "EOF", "v": "#eof", "lit": 0})
        else:
            recs.append({"k": k, "v": t[3], "lit": 0})
    if lx["err"]:
        recs.append({"k": "ERR", "v": "", "lit": 0})
    return recs


def multiline_loop(ck):
    # ---- the layout "a line break inside a string literal" where the text is read statement by statement (script files, the REPL): the
    # statement reader has to hand the parser the same text whether the line break is written as an escape or as a real line break, also when
    # brackets and braces stand before the opening quote on the same line.  Each statement writes what it computed; CalcSem gives the output.
    import sess
    from astlib import assign as _as, fn as _fn, call as _call, N as _N, I as _I, St as _St, lst as _lst, ix1 as _ix1, iff as _iff, ife as _ife, block as _blk, wr as _wr, Bo as _Bo, bin_ as _bin, un as _un
    ml = [[_as("a", _lst([_St("x\ny"), _I(2)])), _wr(_ix1(_N("a"), _I(0))), _wr(_call("toa", _un("#", _N("a"))))],
          [_as("f", _fn(["c"], _blk([_as("t", _I(0)), _ife(_N("c"), _blk([_as("t", _I(1)), _wr(_St("yes"))]), _wr(_St("no\nno\n"))), _N("t")]))), _call("f", _Bo(False)), _call("f", _Bo(True))],
          [_wr(_ix1(_lst([_St("one\ntwo"), _I(1)]), _I(0))), _wr(_St("after"))],
          [_as("x", _lst([_lst([_I(1), _St("p\nq")]), _lst([_St("r\ns")])])), _wr(_ix1(_ix1(_N("x"), _I(1)), _I(0))), _wr(_ix1(_ix1(_N("x"), _I(0)), _I(1)))],
          [_iff(_Bo(True), _blk([_as("u", _I(1)), _wr(_St("a\nb"))])), _wr(_St("after"))],
          [_as("m", _lst([_I(1), _lst([_I(2), _St("u\nv"), _lst([_I(3)])]), _St("w\nz")])), _wr(_bin("+", _ix1(_ix1(_N("m"), _I(1)), _I(1)), _ix1(_N("m"), _I(2))))],
          [_as("g", _fn(["p"], _blk([_as("q", _lst([_N("p"), _St("in\nside")])), _iff(_bin("==", _N("p"), _I(1)), _blk([_as("q", _lst([_St("then\n")])), _wr(_ix1(_N("q"), _I(0)))])), _ix1(_N("q"), _I(0))]))), _call("g", _I(1)), _call("g", _I(2))]]
    msess = [{"id": i + 1, "items": items + [_wr(_St("end"))], "stdin": [], "meta": {"multiline": i}} for i, items in enumerate(ml)]
    for lname, lay in (("escapes", None), ("real line breaks", lambda t: t.replace("\\n", "\n"))):
        for v in sess.judge_via_loop(msess, cmp=("value",), ck=ck, part="string literals spanning lines read statement by statement (%s)" % lname, layout=lay):
            ck.cov["evaluations"] += 1
            ck.cov["traces_validated_against_impl"] += 1
            if v.status != "accept":
                ck.violation("statements with string literals spanning lines (%s), read statement by statement: %s: %s" % (lname, " / ".join(t.replace("\n", "<LF>") for t in v.texts)[:200], json.dumps(v.info)[:400]),
                             {"src": "\n".join(v.texts), "want": None, "via": "loop", "layout": lname})
    ck.part("string literals spanning lines read statement by statement (escapes and real line breaks)", sessions=2 * len(msess))


def run(tier, replay=None):
    ck = vlib.Check("C07", tier)
    seed = vlib.seed()
    rnd = random.Random(seed)
    if replay:
        case = json.load(open(replay))["case"]
        if case.get("via") == "loop":
            multiline_loop(ck)
            return ck.finish()
        res = frontlib.run_front([{"id": 1, "src": case["src"], "wantast": True}])
        p = res[1]["parse"]
        if not (p["outcome"] == "ok" and "ast" in p and p["ast"] == case.get("want")):
            ck.violation("replay: real parser gives %s" % json.dumps(p)[:400], case)
        ck.cov["evaluations"] = 1
        return ck.finish()
    fams = tree_families(tier, seed)
    trees = []
    for fname, ts in fams.items():
        for t in ts:
            trees.append((fname, t))
        ck.part(fname, trees=len(ts))
    # --- TLC: PrintTree + round-trip theorem on every tree
    B = 2500
    model = {}
    for b in range(0, len(trees), B):
        data = "\n".join(json.dumps({"id": b + i + 1, "tree": t}) for i, (_, t) in enumerate(trees[b:b + B])) + "\n"
        r = vlib.run_tlc("Grammar", "Grammar.cfg", files={"cases.ndjson": data}, timeout=3000)
        if r.violation:
            raise vlib.Infra("Grammar.tla: the round-trip theorem fails on the specification (spec defect): " + r.violation + "\n" + r.raw[-1200:])
        ck.add_tlc(r, "Grammar.tla: Parse(PrintTree(t, layout)) = t")
        for l in r.lines:
            if l.startswith("OBS "):
                d = json.loads(l[4:])
                model[d["id"]] = d
    if len(model) != len(trees):
        raise vlib.Infra("Grammar.tla evaluated %d of %d trees" % (len(model), len(trees)))
    # --- binding: the harness printer must produce PrintTree's tokens; the real front end must return the tree
    cases = []
    styles = ["plain", "compact", "blanks", "comments"]
    for i, (fname, t) in enumerate(trees):
        m = model[i + 1]
        for lay in ("plain", "parens", "eols"):
            mine = ptoks(t, lay)
            if model_tokens(mine) != model_tokens(m[lay]):
                raise vlib.Infra("harness printer and PrintTree disagree on tree %s layout %s" % (json.dumps(t)[:200], lay))
            for st in (styles if lay == "plain" else [rnd.choice(styles)]) if tier == "thorough" or lay == "plain" else [rnd.choice(styles)]:
                cases.append({"id": len(cases) + 1, "src": render(mine, st, rnd), "wantast": True, "tree": i, "lay": lay, "style": st, "family": fname})
        # the text printer used by every other check
        cases.append({"id": len(cases) + 1, "src": ps(t), "wantast": True, "tree": i, "lay": "plain", "style": "ps", "family": fname})
    res = frontlib.run_front(cases)
    nontriv = set()
    for c in cases:
        t = trees[c["tree"]][1]
        rr = res[c["id"]]
        ck.cov["evaluations"] += 1
        ck.cov["traces_validated_against_impl"] += 1
        want_toks = model_tokens(ptoks(t, c["lay"]))
        p = rr["parse"]
        lx = rr["lex"]
        desc = None
        if lx["outcome"] != "ok" or lx["err"]:
            desc = "the lexer fails on the printed text: %s %s" % (lx["outcome"], lx["err"] or lx["msg"])
        elif real_tokens(lx) != want_toks:
            desc = "the printed text does not lex to the printed tokens: %s vs %s" % (real_tokens(lx)[:12], want_toks[:12])
        elif p["outcome"] != "ok":
            desc = "parser %s %s" % (p["outcome"], p["msg"])
        elif "err" in p:
            desc = "the parser rejects the printed tree: %s" % p["err"]
        elif p["n"] != 1 or p["ast"][0] != t:
            desc = "the parser returns a different tree: %s" % json.dumps(p["ast"])[:400]
        ops = sum(1 for n in walk(t) if n["t"] in ("bin", "un", "ix1", "ix2"))
        if ops >= 2 or any(n["t"] in ("if", "ifelse", "while", "for", "fn") for n in walk(t)):
            nontriv.add((c["tree"], c["lay"], c["style"]))
        if desc:
            ck.violation("[%s, layout %s/%s] %r: %s (tree %s)" % (c["family"], c["lay"], c["style"], c["src"][:200], desc, json.dumps(t)[:300]),
                         {"src": c["src"], "want": [t], "layout": [c["lay"], c["style"]]})
    ck.cov["distinct_nontrivial"] = len(nontriv)
    # --- corrupted texts: model and real parser must agree on accept/reject and tree
    base = [c["src"] for c in cases if c["style"] in ("plain", "ps")]
    corrupt = []
    for s in rnd.sample(base, min(len(base), 400 if tier == "quick" else 4000)):
        parts = s.replace("\n", " \n ").split(" ")
        if len(parts) < 2:
            continue
        i = rnd.randrange(len(parts))
        cch = rnd.random()
        if cch < 0.4:
            del parts[i]
        elif cch < 0.7:
            parts.insert(i, rnd.choice(["(", ")", "+", "else", "{", "}", "]", "[", ",", "->", "if", "1", "<-", ":", "="]))
        else:
            j = rnd.randrange(len(parts))
            parts[i], parts[j] = parts[j], parts[i]
        corrupt.append(" ".join(parts).replace(" \n ", "\n"))
    corrupt += ["", "\n", "1 2", "1\n2", "{\n1\n}", "{\n}", "( )", "f()", "f(,)", "[1,\n2]", "[\n]", "for i, j <- a b", "for i <- a, b c", "x = = 1", "if a b else", "a[1:2][3]", "- - 1",
                "()", "() -> 1", "(a, a) -> a", "if = 1", "true = 1", "x = if a b", "a[1:]", "a[:1]", "[1,]", "f(1,)", "1 +", "+ 1", "a b = 1", "for <- a 1", "while 1", "{ 1\n2 }", "{\n1\n2 }"]
    ccases = [{"id": i + 1, "src": s, "wantast": True} for i, s in enumerate(corrupt)]
    cres = frontlib.run_front(ccases)
    tl = []
    for c in ccases:
        rr = cres[c["id"]]
        if rr["lex"]["outcome"] != "ok":
            continue
        recs = tok_records(rr["lex"])
        if recs is None or len(recs) > 200:
            continue
        tl.append({"id": c["id"], "toks": recs})
    agree = 0
    for b in range(0, len(tl), B):
        data = "\n".join(json.dumps(x) for x in tl[b:b + B]) + "\n"
        r = vlib.run_tlc("Grammar", "Grammar.cfg", files={"cases.ndjson": data}, timeout=3000)
        if r.violation:
            raise vlib.Infra("Grammar.tla parser model: " + r.violation + r.raw[-800:])
        ck.add_tlc(r, "Grammar.tla parser model on token lists of corrupted texts")
        for l in r.lines:
            if not l.startswith("OBS "):
                continue
            d = json.loads(l[4:])
            rr = cres[d["id"]]
            p = rr["parse"]
            src = corrupt[d["id"] - 1]
            ck.cov["evaluations"] += 1
            ck.cov["traces_validated_against_impl"] += 1
            real_ok = p["outcome"] == "ok" and "err" not in p
            if p["outcome"] != "ok":
                ck.violation("parser %s on %r: %s" % (p["outcome"], src[:200], p["msg"]), {"src": src, "want": None})
            elif real_ok != d["ok"]:
                ck.violation("accept/reject differs on %r: grammar model %s, real parser %s (%s)" % (src[:200], d["ok"], real_ok, p.get("err")), {"src": src, "want": d["ast"] if d["ok"] else None})
            elif real_ok and p["ast"] != d["ast"]:
                ck.violation("tree differs on %r: model %s real %s" % (src[:200], json.dumps(d["ast"])[:300], json.dumps(p["ast"])[:300]), {"src": src, "want": d["ast"]})
            else:
                agree += 1
    ck.part("corrupted texts: model vs real parser", cases=len(tl), agree=agree)
    multiline_loop(ck)
    ck.cov["rule"] = ("every ordered pair of the 17 binary operators in both nestings; unary x binary in three nestings, unary x unary, unary x atoms; index forms over 13 base kinds x 7 index kinds "
                      "and chains of three; statement forms x one-line/braced bodies x nesting depth 2; calls/arrays/function literals with 0-3 elements in every position; random trees; "
                      "each x token layouts {plain, redundant parentheses everywhere, blank lines in blocks and arrays} x text styles {single blanks, compact, random blanks/tabs, comments}; "
                      "non-trivial = tree has >= 2 operators or a statement form with a body; distinct (tree, layout, style) triples are counted")
    for c in cases[:: max(1, len(cases) // 4)][:4]:
        ck.sample({"text": c["src"], "layout": [c["lay"], c["style"]]})
    ck.assumptions += ["Grammar.tla (printer, parser model, round-trip theorem) evaluated by TLC is the oracle for what the documented grammar demands",
                       "trees the grammar cannot produce (one-statement blocks, non-name callees) are out of scope", "floats are dyadic so that their decimal text is exact"]
    return ck.finish()
