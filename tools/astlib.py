"""Syntax trees of calc in the JSON encoding shared with the TLA+ specifications
(DESIGN.md Appendix A), constructors, and the documented-grammar printer.

The printer uses only the documented rules: five binary precedence levels, all
left-associative; unary operators bind tighter and do not nest without
parentheses; indexing binds tightest; a function literal extends as far as
possible; statements end at a newline; braces for multi-statement bodies and to
protect a dangling else.  Its inverse-by-the-real-parser is property C07."""
from fractions import Fraction

LEVELS = [["&&", "||"], ["<", ">", "<=", ">=", "==", "!="], ["&", "|"], ["+", "-"], ["*", "/", "%", "<<", ">>"]]
PREC = {op: i for i, l in enumerate(LEVELS) for op in l}
BINOPS = [o for l in LEVELS for o in l]
UNOPS = ["-", "#", "!", "~"]
KEYWORDS = {"if", "else", "while", "for", "return", "yield", "true", "false"}
BUILTINS = {"read", "write", "aton", "toa", "exit", "fromto", "indices", "elems"}


def C(s):
    return [c for c in s]


def I(v):
    if v < 0:
        return un("-", I(-v))
    if v > 1 << 30:
        return {"t": "bigint", "txt": C(str(v))}      # beyond the model's arithmetic range: carried as decimal text
    return {"t": "int", "v": v}


def Bo(v):
    return {"t": "bool", "v": bool(v)}


def St(s):
    return {"t": "str", "v": C(s)}


def Fl(n, e, neg=False):
    """float literal n / 2^e (normalised); negative ones are written with unary minus"""
    while e > 0 and n % 2 == 0:
        n //= 2
        e -= 1
    lit = {"t": "float", "v": {"c": "fin", "neg": False, "n": n, "e": e}}
    return un("-", lit) if neg else lit


def FlOpq(x):
    """positive finite float literal outside the exact sub-domain, carried by its bits; written as Python's shortest
    round-trip decimal (must be plain digits.digits: 1e-4 <= x < 1e16)"""
    import struct
    txt = repr(float(x))
    assert x > 0 and "e" not in txt and "." in txt and float(txt) == x, txt
    return {"t": "float", "v": {"c": "opq", "neg": False, "n": 0, "e": 0, "bits": struct.pack(">d", float(x)).hex()}}


def N(n):
    return {"t": "name", "n": n}


def bin_(op, l, r):
    return {"t": "bin", "op": op, "l": l, "r": r}


def un(op, x):
    return {"t": "un", "op": op, "x": x}


def ix1(a, i):
    return {"t": "ix1", "a": a, "i": i}


def ix2(a, i, j):
    return {"t": "ix2", "a": a, "i": i, "j": j}


def call(name, *args):
    return {"t": "call", "name": N(name), "args": list(args)}


def assign(n, e):
    return {"t": "assign", "tgt": N(n), "e": e}


def block(ss):
    flat = []
    for x in ss:          # a block is not a statement of the grammar: nested blocks are spliced
        if x["t"] == "block":
            flat.extend(x["ss"])
        else:
            flat.append(x)
    ss = flat
    return ss[0] if len(ss) == 1 else {"t": "block", "ss": ss}


def fn(params, body):
    return {"t": "fn", "params": list(params), "body": body}


def wh(c, b):
    return {"t": "while", "c": c, "body": b}


def fr(vars_, iters, body):
    return {"t": "for", "vars": [N(v) for v in vars_], "iters": list(iters), "body": body}


def y(e):
    return {"t": "yield", "e": e}


def ret(e):
    return {"t": "ret", "e": e}


def iff(c, t):
    return {"t": "if", "c": c, "th": t}


def ife(c, t, e):
    return {"t": "ifelse", "c": c, "th": t, "el": e}


def wr(e):
    return call("write", e)


def lst(es):
    return {"t": "list", "e": list(es)}


# ---------------------------------------------------------------- printer

def fstr(v):
    """exact decimal expansion of the dyadic float n/2^e (always with a '.')"""
    if v.get("c") == "opq":
        import struct
        return repr(struct.unpack(">d", bytes.fromhex(v["bits"]))[0])
    x = Fraction(v["n"], 2 ** v["e"])
    ip = x.numerator // x.denominator
    fp = x - ip
    digs = ""
    while fp:
        fp *= 10
        d = fp.numerator // fp.denominator
        digs += str(d)
        fp -= d
    return str(ip) + "." + (digs or "0")


def strlit(chars):
    out = '"'
    for c in chars:
        if c == '"':
            out += '\\"'
        elif c == "\n":
            out += "\\n"
        else:
            out += c
    return out + '"'


def pe(n, minp=-1):
    """expression text; minp is the binding level the context requires"""
    t = n["t"]
    if t == "bin":
        L = PREC[n["op"]]
        s = pe(n["l"], L) + " " + n["op"] + " " + pe(n["r"], L + 1)
        return "(" + s + ")" if L < minp else s
    if t == "un":
        s = n["op"] + pe(n["x"], 6)
        return "(" + s + ")" if minp > 5 else s
    if t == "ix1":
        s = pe(n["a"], 6.5) + "[" + pe(n["i"]) + "]"
        return "(" + s + ")" if minp > 6.5 else s
    if t == "ix2":
        s = pe(n["a"], 6.5) + "[" + pe(n["i"]) + " : " + pe(n["j"]) + "]"
        return "(" + s + ")" if minp > 6.5 else s
    if t == "int":
        return str(n["v"])
    if t == "bigint":
        return "".join(n["txt"])
    if t == "float":
        return fstr(n["v"])
    if t == "bool":
        return "true" if n["v"] else "false"
    if t == "str":
        return strlit(n["v"])
    if t == "name":
        return n["n"]
    if t == "list":
        return "[" + ", ".join(pe(x) for x in n["e"]) + "]"
    if t == "call":
        return n["name"]["n"] + "(" + ", ".join(pe(a) for a in n["args"]) + ")"
    if t == "fn":
        s = "(" + ", ".join(n["params"]) + ") -> " + pb(n["body"], None)
        return "(" + s + ")" if minp >= 0 else s
    raise ValueError("not an expression: " + t)


def open_if(n):
    """does the text of n end in an if without else (so that a following else would attach to it)?"""
    t = n["t"]
    if t == "if":
        return True
    if t == "ifelse":
        return open_if(n["el"])
    if t in ("while", "for"):
        return open_if(n["body"])
    if t == "assign":
        return open_if(n["e"])
    if t in ("ret", "yield"):
        return open_if(n["e"])
    if t == "fn":
        return open_if(n["body"])
    if t == "bin":
        return open_if(n["r"])
    if t == "un":
        return open_if(n["x"])
    return False


def _after_var(prev):
    """does the text end in a variable name (so that a following "(" would make it a call)?  true / false are literals"""
    import re
    m = re.search(r"([a-z]+)$", prev)
    return bool(m) and m.group(1) not in ("true", "false") and not re.search(r"[0-9.]$", prev[:m.start()] or " ")


def pb(n, prev=None, before_else=False):
    """body position: a block is braced; a single statement is braced only when its text would be misread: "[" and "-"
    continue any preceding expression, "(" continues a variable name (a call), an if without else captures a following else.
    prev: the text of the expression written just before the body (None after a keyword or "->")"""
    if n["t"] == "block":
        return "{\n" + "\n".join(ps(s) for s in n["ss"]) + "\n}"
    s = ps(n)
    if (prev is not None and (s[0] in "[-" or (s[0] == "(" and _after_var(prev)))) or (before_else and open_if(n)):
        return "{\n" + s + "\n}"
    return s


def ps(n):
    """statement text"""
    t = n["t"]
    if t == "assign":
        return n["tgt"]["n"] + " = " + pe(n["e"])
    if t == "if":
        return "if " + pe(n["c"]) + " " + pb(n["th"], pe(n["c"]))
    if t == "ifelse":
        return "if " + pe(n["c"]) + " " + pb(n["th"], pe(n["c"]), before_else=True) + " else " + pb(n["el"], None)
    if t == "while":
        return "while " + pe(n["c"]) + " " + pb(n["body"], pe(n["c"]))
    if t == "for":
        its = ", ".join(pe(i) for i in n["iters"])
        return "for " + ", ".join(v["n"] for v in n["vars"]) + " <- " + its + " " + pb(n["body"], its)
    if t == "ret":
        return "return " + pe(n["e"])
    if t == "yield":
        return "yield " + pe(n["e"])
    if t == "block":
        # a block is not a statement of the grammar; at top level it is written braced
        return "{\n" + "\n".join(ps(s) for s in n["ss"]) + "\n}"
    return pe(n)


def size(n):
    if isinstance(n, dict):
        return 1 + sum(size(v) for v in n.values())
    if isinstance(n, list):
        return sum(size(v) for v in n)
    return 0


def walk(n):
    """all sub-trees (dicts with a tag)"""
    if isinstance(n, dict):
        if "t" in n:
            yield n
        for v in n.values():
            yield from walk(v)
    elif isinstance(n, list):
        for v in n:
            yield from walk(v)


# ---------------------------------------------------------------- token-level printer (mirrors Grammar.tla PrintTree)

def _tk(k, v, lit=0):
    return {"k": k, "v": v, "lit": lit}


def _op(x):
    return _tk("NS", x) if x == ":" else _tk("Sticky", x)


def _paren(ts):
    return [_tk("NS", "(")] + ts + [_tk("NS", ")")]


def _prlist(es, lay, in_array):
    out = []
    for i, e in enumerate(es):
        out += pr_e(e, -1, lay)
        if i < len(es) - 1:
            out.append(_tk("NS", ","))
            if in_array and lay == "eols":
                out.append(_tk("EOL", "#eol"))
    return out


def _raw(n, lay):
    t = n["t"]
    if t == "bin":
        L = PREC[n["op"]]
        return L, pr_e(n["l"], L, lay) + [_op(n["op"])] + pr_e(n["r"], L + 1, lay)
    if t == "un":
        return 5, [_tk("Sticky", n["op"])] + pr_e(n["x"], 6, lay)
    if t == "ix1":
        return 7, pr_e(n["a"], 7, lay) + [_tk("NS", "[")] + pr_e(n["i"], -1, lay) + [_tk("NS", "]")]
    if t == "ix2":
        return 7, pr_e(n["a"], 7, lay) + [_tk("NS", "[")] + pr_e(n["i"], -1, lay) + [_tk("NS", ":")] + pr_e(n["j"], -1, lay) + [_tk("NS", "]")]
    if t == "int":
        return 8, [_tk("Int", "#int", n["v"])]
    if t == "float":
        return 8, [_tk("Float", "#float", n["v"])]
    if t == "str":
        return 8, [_tk("Str", "#str", n["v"])]
    if t == "bool":
        return 8, [_tk("Name", "true" if n["v"] else "false")]
    if t == "name":
        return 8, [_tk("Name", n["n"])]
    if t == "list":
        return 8, [_tk("NS", "[")] + ([_tk("EOL", "#eol")] * 2 if lay == "eols" else []) + _prlist(n["e"], lay, True) + [_tk("NS", "]")]
    if t == "call":
        return 8, [_tk("Name", n["name"]["n"]), _tk("NS", "(")] + _prlist(n["args"], lay, False) + [_tk("NS", ")")]
    if t == "fn":
        ps_ = []
        for i, p in enumerate(n["params"]):
            if i:
                ps_.append(_tk("NS", ","))
            ps_.append(_tk("Name", p))
        return -1, [_tk("NS", "(")] + ps_ + [_tk("NS", ")"), _tk("Sticky", "->")] + pr_b(n["body"], [], False, lay)
    raise ValueError("not an expression: " + t)


def pr_e(n, minp, lay):
    lv, ts = _raw(n, lay)
    if lay == "parens" and n["t"] != "fn":
        lv, ts = 8, _paren(ts)
    return _paren(ts) if lv < minp else ts


def pr_b(n, prev, before_else, lay):
    """prev: the tokens of the expression written just before the body ([] after a keyword or "->"); same rule as pb / PrB"""
    if n["t"] == "block":
        out = [_tk("NS", "{"), _tk("EOL", "#eol")] + ([_tk("EOL", "#eol")] if lay == "eols" else [])
        for s in n["ss"]:
            out += pr_s(s, lay) + [_tk("EOL", "#eol")] + ([_tk("EOL", "#eol")] if lay == "eols" else [])
        return out + [_tk("NS", "}")]
    ts = pr_s(n, lay)
    after_var = bool(prev) and prev[-1]["k"] == "Name" and prev[-1]["v"] not in ("true", "false")
    if (prev and (ts[0]["v"] in ("[", "-") or (ts[0]["v"] == "(" and after_var))) or (before_else and open_if(n)):
        return [_tk("NS", "{"), _tk("EOL", "#eol")] + ts + [_tk("EOL", "#eol"), _tk("NS", "}")]
    return ts


def pr_s(n, lay):
    t = n["t"]
    kw = lambda x: _tk("Name", x)
    if t == "assign":
        return [_tk("Name", n["tgt"]["n"]), _tk("Sticky", "=")] + pr_e(n["e"], -1, lay)
    if t == "if":
        c = pr_e(n["c"], -1, lay)
        return [kw("if")] + c + pr_b(n["th"], c, False, lay)
    if t == "ifelse":
        c = pr_e(n["c"], -1, lay)
        return [kw("if")] + c + pr_b(n["th"], c, True, lay) + [kw("else")] + pr_b(n["el"], [], False, lay)
    if t == "while":
        c = pr_e(n["c"], -1, lay)
        return [kw("while")] + c + pr_b(n["body"], c, False, lay)
    if t == "for":
        vs = []
        for i, v in enumerate(n["vars"]):
            if i:
                vs.append(_tk("NS", ","))
            vs.append(_tk("Name", v["n"]))
        its = _prlist(n["iters"], lay, False)
        return [kw("for")] + vs + [_tk("Sticky", "<-")] + its + pr_b(n["body"], its, False, lay)
    if t == "ret":
        return [kw("return")] + pr_e(n["e"], -1, lay)
    if t == "yield":
        return [kw("yield")] + pr_e(n["e"], -1, lay)
    if t == "block":
        return pr_b(n, [], False, lay)
    return pr_e(n, -1, lay)


def ptoks(n, lay="plain"):
    return pr_s(n, lay) + [_tk("EOL", "#eol"), _tk("EOF", "#eof")]


def tok_text(t):
    if t["k"] == "Int":
        return str(t["lit"])
    if t["k"] == "Float":
        return fstr(t["lit"])
    if t["k"] == "Str":
        return strlit(t["lit"])
    return t["v"]


STICKY = set("+*/=<>!-&|#%~")


def render(toks, style="plain", rnd=None):
    """token list (without the final EOL, EOF) -> text.  styles: plain (one blank between tokens), compact (blanks only
    where two tokens would otherwise merge), blanks (random runs of blanks and tabs), comments (a comment before every line
    break and at the end, comment lines where a blank line is allowed)"""
    out = ""
    prev = None
    body = toks[:-2] if len(toks) >= 2 and toks[-1]["k"] == "EOF" else toks
    for i, t in enumerate(body):
        if t["k"] == "EOL":
            if style == "comments":
                out += " ; note \"{[ ]}" if rnd is None or rnd.random() < 0.7 else ""
            if style == "blanks" and rnd is not None:
                out += " " * rnd.randint(0, 2)
            out += "\n"
            prev = None
            continue
        x = tok_text(t)
        if prev is not None:
            if style == "compact":
                need = (prev[-1] in STICKY and x[0] in STICKY) or ((prev[-1].isalnum() or prev[-1] == ".") and (x[0].isalnum()))
                out += " " if need else ""
            elif style == "blanks" and rnd is not None:
                out += rnd.choice([" ", "  ", "\t", " \t ", "   "])
            else:
                out += " "
        elif style == "blanks" and rnd is not None:
            out += " " * rnd.randint(0, 3)
        out += x
        prev = x
    if style == "comments":
        out += " ; trailing comment"
    if style == "blanks" and rnd is not None:
        out += " " * rnd.randint(0, 2)
    return out
