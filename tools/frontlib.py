"""Front end (lexer, parser) binding: TLC-generated class strings from Lexer.tla are made concrete,
run through the real lexer / parser (vh front) and compared with the specified tokens."""
import json, random, subprocess
import vlib

CONCRETE = {"d": "0123456789", "l": "abcnxyzfqn", "s": "+*/=<>!-&|#%~", "b": "(){}[],:", "q": '"', "k": "\\", "w": " \t", "n": "\n", "c": ";", "p": ".",
            "x": ["$", "@", "'", "_", "A", "Z", "?", "^", "`", "£", "€", "\r", "\x7f", "\x01", "\x00"]}
KIND = {"Int": "IntLit", "Float": "FloatLit", "Name": "Name", "Str": "StringLit", "NS": "NotSticky", "Sticky": "Sticky", "EOL": "EOL", "EOF": "EOF"}


def kind_name(real):
    # token.Kind.String() names
    return real


def concretize(classes, rnd):
    out = []
    for c in classes:
        ch = rnd.choice(CONCRETE[c])
        out.append(ch)
    return out


def run_front(cases, timeout=900):
    """cases: list of {"id", "src", ...}; returns {id: result}"""
    vh = vlib.build_harness()
    n = vlib.NCPU
    chunks = [cases[i::n] for i in range(n)]
    procs = []
    for ch in chunks:
        if not ch:
            continue
        inp = "\n".join(json.dumps(c) for c in ch) + "\n"
        p = subprocess.Popen([vh, "front"], stdin=subprocess.PIPE, stdout=subprocess.PIPE, stderr=subprocess.PIPE, text=True)
        procs.append((p, inp))
    import threading
    res = {}
    outs = [None] * len(procs)

    def work(i, p, inp):
        outs[i] = p.communicate(inp, timeout=timeout)
    ths = [threading.Thread(target=work, args=(i, p, inp)) for i, (p, inp) in enumerate(procs)]
    for t in ths:
        t.start()
    for t in ths:
        t.join()
    for i, (p, inp) in enumerate(procs):
        if outs[i] is None or p.returncode != 0:
            raise vlib.Infra("vh front failed: " + (outs[i][1][-1500:] if outs[i] else "no output"))
        for line in outs[i][0].splitlines():
            o = json.loads(line)
            res[o["id"]] = o
    return res


def lexer_model(n, live=True):
    """TLC on Lexer.tla for all strings up to length n: returns (TlcResult, list of OBS dicts)"""
    r = vlib.run_tlc("Lexer", "Lexer_N%d.cfg" % n, timeout=3000, extra=["-maxSetSize", "4000000"])
    if r.violation:
        raise vlib.Infra("Lexer.tla's own invariant failed (specification defect): " + r.violation)
    obs = [json.loads(l[4:]) for l in r.lines if l.startswith("OBS ")]
    rl = None
    if live:
        rl = vlib.run_tlc("Lexer", "Lexer_live.cfg", timeout=1200)
        if rl.violation:
            raise vlib.Infra("Lexer.tla liveness failed (specification defect): " + rl.violation)
    return r, rl, obs


def lexer_cases(obs, seed, variants=1):
    """concrete source texts with the specified tokens in byte offsets"""
    cases = []
    rnd = random.Random(seed)
    cid = 0
    for o in obs:
        for v in range(variants):
            chars = concretize(o["inp"], rnd)
            off = [0]
            for ch in chars:
                off.append(off[-1] + len(ch.encode("utf-8")))
            src = "".join(chars)
            toks = []
            for t in o["toks"]:
                toks.append([KIND[t[0]], off[t[1]], off[t[2]]])
            cid += 1
            cases.append({"id": cid, "src": src, "classes": "".join(o["inp"]), "toks": toks, "err": o["err"], "at": [off[o["at"][0]], off[o["at"][1]]]})
    return cases


def long_programs(seed, n_sessions=6):
    """program texts of 70 to 1500 tokens in one parse: whole random sessions as one text, and top-level statements whose one-line or
    braced body is long (a call with many arguments, an array literal with many elements, a long operator chain, many statements),
    each also with a mismatching loop header or a missing closer so that the parser fails late"""
    import gens
    from astlib import ps
    out = []
    for s in gens.random_sessions(n_sessions, seed, "long"):
        out.append("\n".join(ps(it) for it in s["items"]))
    for k in (40, 130, 300):
        elems = ", ".join(str(i) for i in range(k))
        chain = " + ".join(str(i % 7) for i in range(k))
        stmts = "\n".join("t = t + %d" % i for i in range(k))
        out += ["t = 0\nfor i <- fromto(0, 3) t = t + #[%s]\nt" % elems,
                "t = 0\nfor i, j <- fromto(0, 3) t = t + #[%s]\nt" % elems,              # one variable short: an error reported after the long body
                "t = 0\nfor i <- fromto(0, 2) t = t + (%s)\nt" % chain,
                "t = 0\nw = true\nwhile w {\n%s\nw = false\n}\nt" % stmts,
                "t = 0\nif t == 0 {\n%s\n} else {\n%s\n}\nt" % (stmts, stmts),
                "t = 0\nif t == 0 {\n%s\n" % stmts,                                      # never closed
                "id = (v) -> v\nid(#[%s])\nid(%s)" % (elems, chain),
                "\n".join(str(i) for i in range(k)),
                "f = () -> {\n%s\nt\n}\nt = 0\nf()" % stmts,
                # the same statements on their own, as the read-eval loop hands them to the parser
                "for i <- fromto(0, 3) t = t + #[%s]" % elems, "for i, j <- fromto(0, 3) t = t + #[%s]" % elems, "for i <- fromto(0, 2) id(%s)" % chain,
                "while w {\n%s\nw = false\n}" % stmts, "if t == 0 {\n%s\n} else {\n%s\n}" % (stmts, stmts), "if t == 0 t = [%s] else t = [%s]" % (elems, elems),
                "while false t = #[%s]" % elems, "id(#[%s])" % elems, "[%s][%d : %d]" % (elems, 1, 2), "f = () -> {\n%s\nt\n}" % stmts]
    return out
