"""C08 -- a session survives errors."""
import json
import vlib, props, semcheck, sess


def run(tier, replay=None):
    ck = vlib.Check("C08", tier)
    if replay:
        return semcheck.replay_file(ck, replay, cmp=("value", "residue"))
    fams, pairs = props.c08_families(tier, vlib.seed())
    vs = semcheck.run_families(ck, fams, props.c08_nontrivial)
    semcheck.binding_selftest(ck, vs)
    # spec theorem (twin): after a failing item, the specified observations equal those of the session where the item
    # is replaced by the assignments it completed.  A failure here is a defect of the specification (exit 2).
    sample = pairs if tier == "thorough" else pairs[:40]
    so = sess.spec_obs([s for p in sample for s in p])
    checked = 0
    for s1, s2 in sample:
        o1, o2 = so.get(s1["id"]), so.get(s2["id"])
        if o1 is None or o2 is None:
            raise vlib.Infra("twin theorem: missing specification run")
        # probes are the observations that print the whole global state: compare the sequences of probe observations
        pr1 = [o for it, o in zip(s1["items"], o1) if it == s1["items"][-1]]
        pr2 = [o for it, o in zip(s2["items"], o2) if it == s2["items"][-1]]
        if [p.get("val") for p in pr1] != [p.get("val") for p in pr2]:
            raise vlib.Infra("twin theorem fails on the specification for session %d: %s vs %s" % (s1["id"], json.dumps(pr1)[:300], json.dumps(pr2)[:300]))
        checked += 1
    ck.part("twin theorem on the specification", pairs_checked=checked)
    # several statements on ONE input line, some of them failing: the statements after a failing one run as if they stood on lines of
    # their own (real read-eval loop in process, judged by CalcSem through the transcript)
    from astlib import assign, fn, call, N, I, St, bin_, ife, iff, block, y, fr, lst, ix1, wr
    defs = [assign("boom", fn(["d", "k"], ife(bin_(">", N("d"), I(0)), call("boom", bin_("-", N("d"), I(1)), N("k")), bin_("/", I(1), N("k"))))),
            assign("bgen", fn(["n"], block([y(I(1)), y(bin_("/", I(1), N("n")))])))]
    fails = {"top-level division": assign("xa", bin_("/", I(1), I(0))), "four calls deep": call("boom", I(4), I(0)), "second step of a generator": fr(["i"], [call("bgen", I(0))], wr(St("i "))),
             "index": assign("xb", ix1(lst([I(1)]), I(5))), "type": assign("xc", bin_("+", St("s"), I(1))), "nil operand": bin_("+", N("nope"), I(1)), "call of a non-function": call("xq", I(1))}
    ol = []
    for k, (fname, f) in enumerate(fails.items()):
        others = list(fails.values())
        g = others[(k + 3) % len(others)]
        for items in ([wr(St("A1 ")), f, wr(St("B2 "))], [assign("sa", I(k + 1)), f, wr(call("toa", N("sa"))), g, wr(St("C3 ")), N("sa")], [f, g, f, wr(St("D4 "))]):
            ol.append({"id": len(ol) + 1, "items": defs + items, "stdin": [], "oneline": len(defs), "meta": {"fails": fname, "statements": len(items)}})
    for v in sess.judge_via_loop(ol, cmp=("report",), ck=ck, part="several statements on one input line, some failing (real read-eval loop)", oneline=True):
        ck.cov["evaluations"] += 1
        ck.cov["traces_validated_against_impl"] += 1
        if v.status != "accept":
            ck.violation("several statements on one input line, failing: %s: %s: %s" % (v.session["meta"]["fails"], " ".join(v.texts[len(defs):])[:200], json.dumps(v.info)[:500]),
                         {"session": v.session, "texts": v.texts, "via": "loop-oneline"})
    ck.part("several statements on one input line, some failing (real read-eval loop)", sessions=len(ol))
    # the same sessions through the real read-eval loop (built binary, REPL mode, piped input): what a later statement prints
    # must be what CalcSem specifies.  A marker statement after every item splits the transcript.
    import subprocess, concurrent.futures
    from check_C16 import render_val
    calc = vlib.build_calc()
    ERRTXT = {"nil": "nil error", "type": "type error", "zerodiv": "division by zero", "index": "index error", "arity": "arity mismatch", "conversion": "conversion error", "read": "read error"}
    # (an unbalanced bracket is not a failing statement for the read-eval loop: it waits for the rest of the statement)
    rs = [s for fam in fams[:2] for s in fam[1] if not any(("read" in f or "unbalanced" in f) for f in s.get("meta", {}).get("fails", []))
          and not any(isinstance(it, dict) and it.get("perr") and ("(1" in it["src"] or "[1, 2" in it["src"]) for it in s["items"])]
    rs = rs[:80] if tier == "quick" else rs[:1500]
    so2 = sess.spec_obs(rs)

    def run_repl(s):
        texts = [sess.item_text(it) for it in s["items"]]
        inp = "".join(t + "\nwrite(\"@@MARK@@\")\n" for t in texts)
        for attempt in (1, 2):       # the binary has no step hook: a session that normally takes milliseconds and is still running after 120 s, twice, does not terminate
            try:
                p = subprocess.run([calc], input=inp, capture_output=True, text=True, timeout=120)
                return s, texts, p.stdout, p.returncode
            except subprocess.TimeoutExpired:
                pass
        return s, texts, None, -9
    nrepl = 0
    with concurrent.futures.ThreadPoolExecutor(max_workers=vlib.NCPU) as ex:
        for s, texts, out, rc in ex.map(run_repl, rs):
            ob = so2.get(s["id"])
            if ob is None:
                raise vlib.Infra("specification run missing for session %s" % s["id"])
            if out is None:
                ck.violation("the interpreter does not terminate on a REPL session with failing statements (two runs of 120 s; the specification finishes it)", {"session": s, "texts": texts})
                continue
            ck.cov["evaluations"] += 1
            nrepl += 1
            if rc != 0:
                ck.violation("the interpreter aborted (exit %d) during a REPL session with failing statements" % rc, {"session": s, "texts": texts, "stdout": out[-2000:]})
                continue
            body = out[len("calc repl\n"):] if out.startswith("calc repl\n") else out
            segs = body.split("@@MARK@@> nil\n")
            if len(segs) != len(texts) + 1:
                ck.violation("REPL transcript of a session with failing statements has %d segments for %d statements" % (len(segs) - 1, len(texts)), {"session": s, "texts": texts, "stdout": out[-3000:]})
                continue
            for i, (o, seg) in enumerate(zip(ob, segs)):
                if "unspec" in o:
                    break
                outtxt = "".join(o.get("out", []))
                if "perr" in o:
                    ok = ("> " not in seg.split("\n")[-2:][0]) and ("Parser:" in seg or "Lexer:" in seg)
                    want = "<a parse error report>"
                elif "err" in o:
                    want = outtxt + "RUNTIME ERROR : " + ERRTXT.get(o["err"], o["err"])
                    ok = seg.startswith(want) or seg.startswith(outtxt + "RUNTIME ERROR : " + ERRTXT.get(o.get("alt", o["err"]), "?")) or \
                        seg.startswith(outtxt + "RUNTIME ERROR : " + ERRTXT.get(o.get("alt2", o["err"]), "?"))
                else:
                    v = render_val(o["val"])
                    want = outtxt + "> " + (('"%s"' % v) if o["val"]["k"] == "str" else v) + "\n"
                    ok = seg == want
                if not ok:
                    ck.violation("REPL session, statement %d (%s): specified transcript %r, real %r" % (i + 1, texts[i].replace("\n", " ; ")[:100], want[:200], seg[:300]),
                                 {"session": s, "texts": texts, "item": i + 1, "stdout": out[-3000:]})
                    break
    ck.part("sessions through the real read-eval loop (binary, REPL mode)", sessions=nrepl)
    ck.cov["traces_validated_against_impl"] += nrepl
    ck.cov["rule"] = props.c08_rule
    ck.assumptions += ["CalcSem.tla as evaluated by TLC is the oracle", "host-level panics are property C05's"]
    return ck.finish()
