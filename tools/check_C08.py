"""C08 -- a session survives errors."""
import json
import vlib, props, semcheck, sess


def run(tier, replay=None):
    ck = vlib.Check("C08", tier)
    if replay:
        return semcheck.replay_file(ck, replay, cmp=("value", "residue"))
    fams, pairs = props.c08_families(tier, vlib.seed())
    vs = semcheck.run_families(ck, fams, props.c08_nontrivial)
    semcheck.binding_selftest(ck, vs)
    # spec theorem (twin): after a failing item, the specified observations equal those of the session where the item
    # is replaced by the assignments it completed.  A failure here is a defect of the specification (exit 2).
    sample = pairs if tier == "thorough" else pairs[:40]
    so = sess.spec_obs([s for p in sample for s in p])
    checked = 0
    for s1, s2 in sample:
        o1, o2 = so.get(s1["id"]), so.get(s2["id"])
        if o1 is None or o2 is None:
            raise vlib.Infra("twin theorem: missing specification run")
        # probes are the observations that print the whole global state: compare the sequences of probe observations
        pr1 = [o for it, o in zip(s1["items"], o1) if it == s1["items"][-1]]
        pr2 = [o for it, o in zip(s2["items"], o2) if it == s2["items"][-1]]
        if [p.get("val") for p in pr1] != [p.get("val") for p in pr2]:
            raise vlib.Infra("twin theorem fails on the specification for session %d: %s vs %s" % (s1["id"], json.dumps(pr1)[:300], json.dumps(pr2)[:300]))
        checked += 1
    ck.part("twin theorem on the specification", pairs_checked=checked)
    ck.cov["rule"] = props.c08_rule
    ck.assumptions += ["CalcSem.tla as evaluated by TLC is the oracle", "host-level panics are property C05's"]
    return ck.finish()
