"""C15 -- encodings are lossless and size limits are enforced, never wrapped.
Bytecode.tla models the instruction word as four 16-bit limbs (exact), with the intended contract as
invariants (round trip, field independence under OR-composition, temp-flag distinctness, function value
round trip); TLC enumerates opcode x operand-kind x selector x address vectors around every field boundary,
each replayed on types/bytecode and value.NewFunction/ToFunction.  Session level: scripts whose constants,
jump distances and local counts cross 2^15 are run through the real pipeline; Bytecode.tla's address-space
accounting says whether a shape of that size must work or must be refused."""
import json, subprocess
import vlib, sess
from astlib import *

SHAPES = ("globals", "locals", "jump", "longjump", "refused-then-continue", "deepfor", "widefor", "manyparams")


def script(shape, n):
    """source text of one item (built as text: these trees are too large for the printer's recursion to matter)"""
    if shape == "globals":
        return ["x = %d" % i for i in range(n)] + ["x", "1 + 1"], n - 1
    if shape == "locals":
        names = []
        k = 0
        while len(names) < n:
            s, m = "", k
            while True:
                s = chr(97 + m % 26) + s
                m //= 26
                if m == 0:
                    break
            k += 1
            nm = "v" + s + "q"
            names.append(nm)
        body = "\n".join("%s = 7" % nm for nm in names)
        return ["f = () -> {\n%s\n%s\n}" % (body, names[-1]), "f()", "1 + 1"], 7
    if shape == "jump":
        body = "\n".join("l = 1" for _ in range(n))
        return ["f = () -> {\n%s\nl\n}" % body, "f()", "1 + 1"], None
    if shape in ("deepfor", "widefor"):
        # iterator contexts of one lexical nest: n loops nested in each other (deepfor), or one loop with n iterators in lock step whose
        # body holds another loop (widefor); the outermost loop goes round twice, so every context is resumed after the inner ones were destroyed
        def nm(k):
            sfx, m = "", k
            while True:
                sfx = chr(97 + m % 26) + sfx
                m //= 26
                if m == 0:
                    break
            return "v" + sfx + "q"
        if shape == "deepfor":
            src = "t = 0\n" if False else ""
            head = " ".join("for %s <- fromto(0, %d)" % (nm(k), 2 if k == 0 else 1) for k in range(n))
            return ["t = 0", head + " t = t + 1", "t", "1 + 1"], None
        vs = ", ".join(nm(k) for k in range(n))
        its = ", ".join("fromto(%d, %d)" % (k, k + 2) for k in range(n))
        return ["t = 0", "for %s <- %s for w <- fromto(0, 2) t = t + %s + w" % (vs, its, nm(n - 1)), "t", "1 + 1"], None
    if shape == "manyparams":
        # a function with n parameters it never reads (so that no operand address is what overflows): the function value must keep the count
        def nmp(k):
            sfx, m = "", k
            while True:
                sfx = chr(97 + m % 26) + sfx
                m //= 26
                if m == 0:
                    break
            return "p" + sfx + "q"
        return ["f = (%s) -> 7" % ", ".join(nmp(k) for k in range(n)), "f(1)", "f()", "f(1, 2, 3, 4)", "1 + 1"], None
    if shape == "longjump":
        # a conditional whose body is n instructions long and uses no constants (so that the data segment is not what overflows):
        # the jump over the body is about n; with c false the body must be skipped, with c true executed
        body = "\n".join("l = m" for _ in range(n))
        return ["f = (c) -> {\nm = 1\nl = 0\nif c {\n%s\nl = 5\n}\nl\n}" % body, "f(false)", "f(true)", "1 + 1"], None
    if shape == "refused-then-continue":
        # a function with more distinct locals than can be addressed (refused whatever the compiler's economy), whose body is the
        # first place two global names are mentioned; the session then goes on using those names and others
        names = []
        k = 0
        while len(names) < n:
            sfx, m = "", k
            while True:
                sfx = chr(97 + m % 26) + sfx
                m //= 26
                if m == 0:
                    break
            k += 1
            names.append("w" + sfx + "q")
        body = "\n".join("%s = 7" % nm for nm in names)
        return ["x = 1", "f = () -> {\nfirst = gnewa + gnewb\n%s\nfirst\n}" % body, "count = 1", "gnewa = 100", "[count, gnewa]", "count = count + 1", "gnewb = 5",
                "[count, gnewa, gnewb, x]", "1 + 1"], None
    raise ValueError(shape)


def run(tier, replay=None):
    ck = vlib.Check("C15", tier)
    if replay:
        case = json.load(open(replay))["case"]
        if "mismatch" in case:
            vh = vlib.build_harness()
            p = subprocess.run([vh, "bcreplay"], input=json.dumps(case["mismatch"]) + "\n", capture_output=True, text=True)
            for l in p.stdout.splitlines():
                o = json.loads(l)
                if not o.get("summary"):
                    ck.violation("encoding vector: " + o["why"], o)
        ck.cov["evaluations"] = 1
        return ck.finish()
    r = vlib.run_tlc("Bytecode", "Bytecode_%s.cfg" % tier, timeout=3000)
    if r.violation:
        raise vlib.Infra("Bytecode.tla contract fails on the model (specification defect): " + r.violation)
    ck.add_tlc(r, "Bytecode.tla: round trip, field independence, temp flag, function values")
    # the same definitions (BytecodeEnc.tla) for every integer, by proof: admitted addresses round-trip, addresses
    # outside the admitted range never do, admitted function values round-trip
    nob = vlib.run_tlapm("BytecodeProof", deps=("BytecodeEnc",))
    ck.part("BytecodeProof.tla (TLAPS): AddrRoundTrip, OutOfRangeNeverRoundTrips, FieldRoundTrip, FunctionRoundTrips over Int", obligations_proved=nob)
    vecs = [json.loads(l[4:]) for l in r.lines if l.startswith("OBS ")]
    vh = vlib.build_harness()
    p = subprocess.run([vh, "bcreplay"], input="\n".join(json.dumps(v) for v in vecs) + "\n", capture_output=True, text=True, timeout=1800)
    if p.returncode != 0:
        raise vlib.Infra("vh bcreplay failed: " + p.stderr[-1000:])
    wraps = 0
    for l in p.stdout.splitlines():
        o = json.loads(l)
        if o.get("summary"):
            ck.cov["evaluations"] += o["cases"]
            ck.cov["traces_validated_against_impl"] += o["cases"]
        else:
            ck.violation("encoding vector %s: %s" % (json.dumps(o["mismatch"]["v"]), o["why"]), o)
    # binding self-test: one flipped bit of the specified word must be reported
    import copy
    bad = [copy.deepcopy(v) for v in vecs if v["kind"] == "operand" and v["admit"]][:5]
    for v in bad:
        v["w"][3] ^= 1
    if bad:
        pb = subprocess.run([vh, "bcreplay"], input="\n".join(json.dumps(v) for v in bad) + "\n", capture_output=True, text=True, timeout=600)
        nb = sum(1 for l in pb.stdout.splitlines() if "mismatch" in json.loads(l))
        if nb != len(bad):
            raise vlib.Infra("binding self-test: %d corrupted vectors, %d reported" % (len(bad), nb))
        ck.part("binding self-test", corrupted=len(bad), rejected=nb)
    ck.cov["distinct_nontrivial"] = sum(1 for v in vecs if v["kind"] == "function" or min(abs(abs(v["v"]["addr"]) - b) for b in (0, 32768, 65536)) <= 3)
    for v in vecs[:: max(1, len(vecs) // 4)][:4]:
        ck.sample(v)
    # ---- scripts crossing the limits
    sizes = {"quick": {"globals": [8000, 16300, 16400], "locals": [16000, 32700, 32800], "jump": [16000, 32700, 32800], "refused-then-continue": [33000], "longjump": [16000, 33000, 66000], "deepfor": [64, 257, 300], "widefor": [64, 256, 300], "manyparams": [300, 65536, 65537, 65540]},
             "thorough": {"globals": [4000, 8000, 16000, 16370, 16380, 16390, 16400, 20000, 33000], "locals": [8000, 16000, 32000, 32760, 32766, 32770, 33000, 65530, 65540], "jump": [8000, 16000, 32000, 32760, 32770, 33000, 65530, 65540], "refused-then-continue": [32769, 33000, 66000], "longjump": [8000, 16000, 32760, 32770, 33000, 65530, 65540, 66000, 131100], "deepfor": [16, 64, 255, 256, 257, 258, 300, 513, 1000], "widefor": [16, 64, 255, 256, 257, 300, 513, 1000], "manyparams": [300, 32768, 32769, 65535, 65536, 65537, 65540, 131073]}}[tier]
    # ds0: data segment size after the built-ins are loaded, measured on the real pipeline
    probe = vlib.run_real([{"id": 1, "items": [{"src": "1"}], "stdin": []}])
    cases = []
    sid = 0
    for shape in SHAPES:
        for n in sizes[shape]:
            items, want = script(shape, n)
            sid += 1
            cases.append((shape, n, want, {"id": sid, "items": [{"src": t} for t in items], "stdin": [], "budget": 50000000}))
    real = vlib.run_real([c[3] for c in cases], timeout=1800)
    # accounting verdicts from the model
    acct = "\n".join(json.dumps({"id": c[3]["id"], "shape": c[0], "n": c[1]}) for c in cases) + "\n"
    mc = ("---- MODULE BytecodeAcct ----\nEXTENDS Bytecode\nCONSTANT DS0\nCases == ndJsonDeserialize(\"acct.ndjson\")\nVARIABLE i\n"
          "AInit == i = 0 /\\ kind = \"acct\" /\\ v = 0 /\\ done = TRUE\nANext == i < Len(Cases) /\\ i' = i + 1 /\\ UNCHANGED <<kind, v, done>> /\\ PrintT(\"ACCT \" \\o ToJson([id |-> Cases[i + 1].id, work |-> MustWork(Cases[i + 1].shape, Cases[i + 1].n, DS0), refuse |-> MustRefuse(Cases[i + 1].shape, Cases[i + 1].n, DS0), overflows |-> Overflows(Cases[i + 1].shape, Cases[i + 1].n, DS0)]))\n====\n")
    ds0 = probe[1][0]["ds"][0]
    ck.part("data segment after the built-ins", ds0=ds0)
    cfg = "INIT AInit\nNEXT ANext\nCONSTANT AddrSet = \"quick\"\nCONSTANT DS0 = %d\nCHECK_DEADLOCK FALSE\n" % ds0
    ra = vlib.run_tlc("BytecodeAcct", "BytecodeAcct.cfg", files={"BytecodeAcct.tla": mc, "BytecodeAcct.cfg": cfg, "acct.ndjson": acct}, workers=1, timeout=600)
    ck.add_tlc(ra, "Bytecode.tla address-space accounting of script shapes")
    verdict = {}
    for l in ra.lines:
        if l.startswith("ACCT "):
            d = json.loads(l[5:])
            verdict[d["id"]] = d
    for shape, n, want, s in cases:
        res = real.get(s["id"])
        ck.cov["evaluations"] += 1
        ck.cov["traces_validated_against_impl"] += 1
        ck.cov["distinct_nontrivial"] += 1
        v = verdict.get(s["id"])
        if res is None or v is None:
            raise vlib.Infra("script %s/%d: no result" % (shape, n))
        aborted = [o for o in res if o.get("kind") in ("panic", "hang", "crash")]
        refused = [o for o in res if o.get("kind") == "cerr"]
        desc = None
        I2 = {"k": "int", "v": 2}
        if aborted:
            o = aborted[0]
            desc = "the interpreter aborted (%s in %s phase: %s) instead of working or refusing with an error" % (o.get("kind"), o.get("phase"), o.get("msg"))
        elif len(res) != len(s["items"]):
            desc = "the session stopped after %d of %d items" % (len(res), len(s["items"]))
        elif shape == "globals":
            lastok = -1
            for i in range(n):
                o = res[i]
                if o["kind"] == "val":
                    if o["val"] != {"k": "int", "v": i}:
                        desc = "x = %d evaluated to %s: addresses wrapped" % (i, json.dumps(o["val"]))
                        break
                    lastok = i
                elif o["kind"] != "cerr":
                    desc = "x = %d: %s" % (i, json.dumps({k: o.get(k) for k in ("kind", "err", "msg")}))
                    break
            xo = res[n]
            if desc is None and xo["kind"] == "val" and xo["val"] != {"k": "int", "v": lastok}:
                desc = "after the script x is %s, the last accepted assignment was x = %d" % (json.dumps(xo["val"]), lastok)
        elif shape == "manyparams":
            d0 = res[0]
            if d0["kind"] == "val":
                for j, nargs in ((1, 1), (2, 0), (3, 4)):
                    if nargs != n and not (res[j].get("kind") == "err" and res[j].get("err") == "arity"):
                        desc = "a function with %d parameters was compiled but a call with %d argument(s) gives %s instead of an arity error: the parameter count was not preserved" % (
                            n, nargs, json.dumps({k: res[j].get(k) for k in ("kind", "val", "err")}))
                        break
            elif d0["kind"] != "cerr":
                desc = "the function: %s" % json.dumps({k: d0.get(k) for k in ("kind", "err", "msg")})
            if desc is None and res[4].get("val") != I2:
                desc = "after the function the session does not go on: 1 + 1 gives %s" % json.dumps({k: res[4].get(k) for k in ("kind", "val", "err", "msg")})
        elif shape in ("deepfor", "widefor"):
            d1, d2, d3 = res[1], res[2], res[3]
            want_t = 2 if shape == "deepfor" else (n - 1) * 2 + (n - 1 + 1) * 2 + 2        # sum over the two rounds and w in 0..1 of last variable + w
            if d1["kind"] == "val" and d2.get("val") != {"k": "int", "v": want_t}:
                desc = "the loop nest was compiled but leaves t = %s instead of %d: iterator contexts were confused" % (json.dumps({k: d2.get(k) for k in ("kind", "val", "err")}), want_t)
            elif d1["kind"] not in ("val", "cerr"):
                desc = "the loop nest: %s" % json.dumps({k: d1.get(k) for k in ("kind", "err", "msg")})
            if desc is None and d3.get("val") != I2:
                desc = "after the loop nest the session does not go on: 1 + 1 gives %s" % json.dumps({k: d3.get(k) for k in ("kind", "val", "err", "msg")})
        elif shape == "longjump":
            d0, d1, d2, d3 = res[0], res[1], res[2], res[3]
            if d0["kind"] == "val":
                if d1.get("val") != {"k": "int", "v": 0}:
                    desc = "the function was compiled but f(false) gives %s instead of 0: the jump over the body wrapped" % json.dumps({k: d1.get(k) for k in ("kind", "val", "err")})
                elif d2.get("val") != {"k": "int", "v": 5}:
                    desc = "the function was compiled but f(true) gives %s instead of 5" % json.dumps({k: d2.get(k) for k in ("kind", "val", "err")})
            if desc is None and d3.get("val") != I2:
                desc = "after the large function the session does not go on: 1 + 1 gives %s" % json.dumps({k: d3.get(k) for k in ("kind", "val", "err", "msg")})
        elif shape == "refused-then-continue":
            want_vals = [{"k": "int", "v": 1}, None, {"k": "int", "v": 1}, {"k": "int", "v": 100}, {"k": "arr", "v": [{"k": "int", "v": 1}, {"k": "int", "v": 100}]}, {"k": "int", "v": 2}, {"k": "int", "v": 5},
                         {"k": "arr", "v": [{"k": "int", "v": 2}, {"k": "int", "v": 100}, {"k": "int", "v": 5}, {"k": "int", "v": 1}]}, I2]
            if res[1].get("kind") != "cerr":
                desc = "a function with %d distinct locals was not refused at compile time: %s" % (n, json.dumps({k: res[1].get(k) for k in ("kind", "msg", "err")}))
            else:
                for j, w in enumerate(want_vals):
                    if w is not None and res[j].get("val") != w:
                        desc = "after a refused statement the session does not go on as if it had not been entered: statement %d (%s) gives %s, expected %s" % (
                            j + 1, s["items"][j]["src"][:40], json.dumps({k: res[j].get(k) for k in ("kind", "val", "err", "msg")})[:200], json.dumps(w))
                        break
        else:
            d0, d1, d2 = res[0], res[1], res[2]
            if d0["kind"] == "val":
                exp = {"k": "int", "v": 7 if shape == "locals" else 1}
                if d1.get("val") != exp:
                    desc = "the function was compiled but f() gives %s instead of %s: addresses or jump distances wrapped" % (json.dumps({k: d1.get(k) for k in ("kind", "val", "err")}), json.dumps(exp))
            if desc is None and d2.get("val") != I2:
                desc = "after the large function the session does not go on: 1 + 1 gives %s" % json.dumps({k: d2.get(k) for k in ("kind", "val", "err", "msg")})
        worked = desc is None and not refused
        if desc is None:
            if v["work"] and refused:
                desc = "a script within the addressable limits was refused: %s" % refused[0].get("msg")
            elif v["refuse"] and not refused:
                desc = "a function with more distinct locals than an operand can address was accepted"
        if desc:
            ck.violation("script shape %s with n=%d: %s" % (shape, n, desc), {"shape": shape, "n": n, "real": [{k: o.get(k) for k in ("kind", "msg", "err", "phase", "site", "val")} for o in res[-3:]]})
        ck.part("script %s n=%d" % (shape, n), outcome="worked" if worked else ("refused" if refused else "other"), must_work=v["work"], must_refuse=v["refuse"], overflows_in_the_current_compiler=v["overflows"])
    # ---- sessions of any length through the real read-eval loop: code and constants of earlier statements stay where functions bound by
    # them expect them, whatever happened to the statement that bound them (it failed half-way, it was refused, it was a parse error)
    mid = {"runtime error": "boom = 1 / 0", "refused": "f = (a) -> " + "+".join("a" for _ in range(33000)), "parse error": "x = )"}     # one line each (the loop lexes the pending input again for every line)
    lsess, lid = [], 0
    for mname, bad in mid.items():
        for doout in (True, False):
            lid += 1
            lines = ["{", "inc = (x) -> x + 1", "keep = [(x) -> x + 2]"] + (bad.split("\n") if mname == "runtime error" else ["t = 0"]) + ["}"]
            if mname != "runtime error":
                lines += bad.split("\n")
            lines += ["dbl = (x) -> x * 100", "neg = (x) -> 0 - x", 'write("R:" + toa(inc(1)) + ":" + toa(dbl(2)) + ":" + toa(neg(3)) + "\n")', "k = keep[0]", 'write("R:" + toa(k(1)) + "\n")']
            lsess.append({"id": lid, "lines": lines, "doout": doout, "stdin": [], "meta": mname})
    lres = vlib.run_loop([{k: v for k, v in x.items() if k != "meta"} for x in lsess], timeout=1800)
    for x in lsess:
        r = lres.get(x["id"]) or {}
        ck.cov["evaluations"] += 1
        ck.cov["traces_validated_against_impl"] += 1
        got = [l for l in (r.get("out") or "").split("\n") if l.startswith("R:")]
        want = ["R:2:200:-3", "R:3"]
        if r.get("kind") != "ok" or got != want:
            ck.violation("a session through the read-eval loop (%s, after a statement that ended in a %s): functions bound earlier give %s, expected %s%s" % (
                "REPL's way" if x["doout"] else "file mode", x["meta"], got, want, "" if r.get("kind") == "ok" else " (the loop ended with %s %s)" % (r.get("kind"), r.get("msg"))),
                {"loop_session": {"lines": x["lines"][:12], "doout": x["doout"]}, "kind": r.get("kind")})
    ck.part("sessions through the read-eval loop after failed / refused / unparsable statements", sessions=len(lsess))
    # ---- a statement that is refused as too large is refused as a whole: code compiled for its earlier parts (an operand, an earlier
    # argument or element, an earlier statement of the same block) is not run, now or with a later statement
    ones = ", ".join("1" for _ in range(40000))
    names = ", ".join("hv" for _ in range(40000))        # every mention of a global takes a data-segment entry
    big = {"call with 40000 arguments as right operand": 'r = toa(write("B")) + g(' + ones + ")", "call with 40000 arguments as later argument": 'r = g(write("B"), g(' + ones + "))",
           "array literal of 40000 constants after an effectful element": 'r = [write("B"), ' + names + "]", "block whose second statement is too large": '{\nwrite("B")\nr = [' + names + "]\n}",
           "if whose body is too large": 'if write("B") == nope {\n[' + names + "]\n}", "function call inside a too large array": "r = [" + names + ', write("B")]',
           "loop whose body is too large": 'for i <- fromto(0, 2) {\nwrite("B")\nr = [' + names + "]\n}"}
    rsess = []
    for bname, stmt in big.items():
        for doout in (True, False):
            rsess.append({"id": len(rsess) + 1, "lines": ["g = (a) -> a", 'write("A")'] + stmt.split("\n") + ['write("C")', 'write("D")'], "doout": doout, "stdin": [], "meta": bname})
    rres = vlib.run_loop([{k: v for k, v in x.items() if k != "meta"} for x in rsess], timeout=1800)
    import re as _re
    for x in rsess:
        r = rres.get(x["id"]) or {}
        ck.cov["evaluations"] += 1
        ck.cov["traces_validated_against_impl"] += 1
        out = r.get("out") or ""
        seq = _re.findall(r"A|B|COMPILE ERROR|D|(?<![A-Z])C(?![A-Z])", out.replace("COMPILE ERROR", "#CE#").replace("RUNTIME ERROR", "#RE#").replace("#CE#", "COMPILE ERROR")) if False else \
            [t for t in _re.findall(r"COMPILE ERROR|RUNTIME ERROR|[ABCD]", _re.sub(r"program too large[^\n]*", "", out)) if t != "RUNTIME ERROR" or True]
        want = ["A", "COMPILE ERROR", "C", "D"]
        if "Parser:" in out or "Lexer:" in out:
            raise vlib.Infra("a generated oversized statement does not parse: " + x["meta"])
        if r.get("kind") != "ok" or seq != want:
            ck.violation("a statement refused as too large (%s, %s): the session prints %s, expected %s%s" % (x["meta"], "REPL's way" if x["doout"] else "file mode", seq[:12], want,
                         "" if r.get("kind") == "ok" else " (the loop ended with %s %s)" % (r.get("kind"), r.get("msg"))), {"loop_session": {"lines": [l[:200] for l in x["lines"]], "doout": x["doout"], "refused": x["meta"]}, "kind": r.get("kind")})
    ck.part("statements refused as too large after part of them was compiled", sessions=len(rsess))
    ck.cov["exhaustive"] = True
    ck.cov["rule"] = ("vectors: opcodes x selector x 8 kinds x addresses around 0, +-2^15, +-2^16 x a second operand in another field; function values at the field boundaries; "
                      "non-trivial = address within 3 of a field boundary or a function value.  Scripts: n global assignments / a function with n locals / a function and an if whose bodies "
                      "have n statements, with n at half the limit (must work), and on both sides of 2^15 (and 2^16) (either outcome, an accepted script must compute the right values; "
                      "more distinct locals than an operand can address must be refused)")
    ck.assumptions += ["the four-limb model is an exact re-encoding of the 64-bit word", "ds0 (data-segment entries used by the built-ins) is measured on the real pipeline and passed to the accounting model",
                       "functions whose parameter or local count exceeds the 16-bit fields of a function value are refused at compile time (D25)"]
    return ck.finish()
