"""C04 -- lexical scoping and isolation.  Session families judged by CalcSem (TLC); in addition the tree produced by the
real symbol-table rewriter for every statement of those sessions (and of random sessions) must be the tree CalcSem's
static-scoping rules give: storage class and frame slot of every name, slot count of every function (CalcScope.tla)."""
import vlib, props, semcheck, scopecheck, gens
from astlib import walk


def run(tier, replay=None):
    ck = vlib.Check("C04", tier)
    if replay:
        return semcheck.replay_file(ck, replay)
    fams = props.c04_families(tier, vlib.seed())
    vs = semcheck.run_families(ck, fams, props.c04_nontrivial)
    semcheck.binding_selftest(ck, vs)
    scoped = [s for fam in fams for s in fam[1]] + gens.random_sessions(150 if tier == "quick" else 3000, vlib.seed(), "c04scope", first_id=7000000)
    for desc, case in scopecheck.validate(ck, scoped, "the rewriter's tree = CalcSem's static scoping (CalcScope.tla), statement by statement"):
        ck.violation(desc, case)
    ck.cov["rule"] = props.c04_rule
    ck.assumptions += ["CalcSem.tla as evaluated by TLC is the oracle; Unspecified sessions are only checked for no-crash"]
    return ck.finish()
