"""C05 -- no accepted program can crash the interpreter.  Adversarial families and random ill-typed sessions judged by CalcSem
(the verdict is: a value or a documented runtime error, never a host-level fault); programs beyond what an instruction can
address must end in a compile error or work, never in a host-level fault either."""
import json
import vlib, props, semcheck
from astlib import walk


def run(tier, replay=None):
    ck = vlib.Check("C05", tier)
    if replay:
        return semcheck.replay_file(ck, replay)
    fams = props.c05_families(tier, vlib.seed())
    semcheck.run_families(ck, fams, props.c05_nontrivial, crash_is_violation=True)
    # programs at and beyond the addressing limits (the shapes of C15, and one function body that is a single expression of 33000 terms):
    # whatever the outcome -- works, or refused at compile time -- the interpreter must not fall over and the session must go on
    import check_C15
    big = []
    for shape, n in ([("longjump", 33000), ("locals", 32800), ("jump", 32800), ("deepfor", 300)] if tier == "quick" else
                     [("longjump", 33000), ("longjump", 66000), ("locals", 32800), ("locals", 65540), ("jump", 32800), ("jump", 65540), ("deepfor", 300), ("widefor", 300), ("globals", 16400)]):
        items, _ = check_C15.script(shape, n)
        big.append((shape, n, items))
    big.append(("long-expression", 33000, ["f = (a) -> " + "+".join("a" for _ in range(33000)), "f(1)", "g = (a) -> [" + ", ".join("a" for _ in range(33000)) + "]", "#g(2)", "1 + 1"]))
    reqs = [{"id": 900000 + k, "items": [{"src": t} for t in items], "stdin": [], "budget": 50000000} for k, (_, _, items) in enumerate(big)]
    real = vlib.run_real(reqs, timeout=1800)
    for (shape, n, items), rq in zip(big, reqs):
        res = real.get(rq["id"])
        ck.cov["evaluations"] += 1
        ck.cov["traces_validated_against_impl"] += 1
        if res is None:
            raise vlib.Infra("no result for the oversized program %s/%d" % (shape, n))
        bad = [o for o in res if o.get("kind") not in ("val", "err", "cerr", "perr")]
        last = res[-1] if res else {}
        # (once the data segment is full every further statement that needs a constant is refused as well: that is going on, too)
        if bad or len(res) != len(items) or not (last.get("val") == {"k": "int", "v": 2} or last.get("kind") == "cerr"):
            o = bad[0] if bad else last
            ck.violation("program at the addressing limits (%s, n=%d): %s" % (shape, n, ("the interpreter fell over: %s %s in %s phase" % (o.get("kind"), o.get("msg"), o.get("phase"))) if bad else
                                                                              "the session did not go on to its last statement (1 + 1 gives %s)" % json.dumps({k: last.get(k) for k in ("kind", "val", "msg")})),
                         {"shape": shape, "n": n})
    ck.part("programs at and beyond the addressing limits", programs=len(big))
    ck.cov["rule"] = props.c05_rule
    ck.assumptions += ["CalcSem.tla as evaluated by TLC is the oracle; Unspecified sessions are only checked for no-crash"]
    return ck.finish()
