"""C09 -- evaluation leaves the machine clean."""
import json, collections
import vlib, props, semcheck, vmcheck


def run(tier, replay=None):
    ck = vlib.Check("C09", tier)
    if replay:
        return semcheck.replay_file(ck, replay, cmp=("value", "residue"))
    fams, pairs = props.c09_families(tier, vlib.seed())
    vs = semcheck.run_families(ck, fams, props.c09_nontrivial)
    # bounded loop storage: where the specification's continuation depth is the same for n and 2n iterations,
    # the real peak stack pointer and stack allocation must be the same too
    groups = collections.defaultdict(list)
    for v in vs:
        k = v.session.get("meta", {}).get("pairkey")
        if k and v.status == "accept" and not v.accept.get("unspec"):
            groups[k].append(v)
    compared = 0
    for k, g in groups.items():
        if len(g) != 2:
            continue
        a, b = sorted(g, key=lambda v: v.session["meta"]["n"])
        if max(a.accept["depths"]) != max(b.accept["depths"]):
            continue      # the language itself needs more room (not the case for these families)
        compared += 1
        pa = max(o.get("peak", 0) for o in a.real)
        pb = max(o.get("peak", 0) for o in b.real)
        la = max((o.get("residue") or {}).get("stacklen", 0) for o in a.real)
        lb = max((o.get("residue") or {}).get("stacklen", 0) for o in b.real)
        if pa != pb or la != lb:
            b.info = {"id": b.session["id"], "item": len(b.real), "aspect": "storage-growth",
                      "expected": {"peak_sp": pa, "stack_len": la, "n": a.session["meta"]["n"]},
                      "recorded": {"peak_sp": pb, "stack_len": lb, "n": b.session["meta"]["n"]}}
            ck.violation("loop storage grows with the iteration count: %s with n=%d peak sp %d / stack %d, n=%d peak sp %d / stack %d: %s" % (
                k, a.session["meta"]["n"], pa, la, b.session["meta"]["n"], pb, lb, " ; ".join(b.texts)[:300]), semcheck.replay_case(b))
    ck.part("bounded loop storage", pairs_compared=compared)
    # machine level: the compiled code must leave the *intended* VM clean (locates compiler-side leaks), and the real VM's
    # (ip, sp, frames, closures) must follow the intended VM instruction by instruction
    sl = [v.session for v in vs if v.status == "accept" and v.session.get("mode") != "discard" and v.session.get("meta", {}).get("n", 0) <= 6]
    n, agree, viol = vmcheck.validate(ck, sl[:1500], "CalcVM: compiled code leaves the intended VM clean; real instruction traces followed")
    for desc, case, kind in viol:
        ck.violation(desc, case)
    # ---- the same through the real read-eval loop (node.Loop, in process): after a whole session, in the REPL's way of running
    # statements and in file mode, one statement per input or several written one after the other on one line
    import sess
    ls, lid = [], 0
    for fam in fams:
        for s in fam[1][:: (3 if tier == "quick" else 1)]:
            if s.get("mode", "used") != "used":
                continue
            texts = [sess.item_text(it) for it in s["items"]]
            one = [t for t in texts if "\n" not in t]
            joined = [" ".join(one[i:i + 3]) for i in range(0, len(one), 3)]
            for doout in (True, False):
                for variant, lines in (("one statement per input", [l for t in texts for l in t.split("\n")]), ("several statements on one line", joined)):
                    lid += 1
                    ls.append({"id": lid, "lines": lines, "doout": doout, "stdin": [], "meta": {"family": fam[0], "variant": variant, "session": s["id"]}})
    # deep call nesting, in the main context, inside a generator under a for loop, and that inside a function (whatever the machine
    # does with it -- run it, or refuse it with a runtime error -- it must be clean afterwards); no closures involved
    defs = ["d = (n) -> if n <= 0 0 else 1 + d(n - 1)", "g = (n) -> yield d(n)", "gg = (n) -> for v <- g(n) yield v",
            "f = (n) -> {", "t = 0", "for i <- g(n) t = t + i", "t", "}", "ff = (n) -> {", "t = 0", "for i <- gg(n) t = t + i", "return t", "}",
            "w = (n) -> {", "k = 0", "while k < 2 {", "k = k + 1", "for i <- g(n) k = k + 0 * i", "}", "k", "}"]
    deep = 0
    for n in ([40, 12000, 20000] if tier == "quick" else [40, 3000, 9999, 10000, 10001, 12000, 20000, 50000]):
        for name, uses in (("main context", ["d(%d)"]), ("generator under a top-level for loop", ["for i <- g(%d) i"]), ("nested generators", ["for i <- gg(%d) i"]),
                           ("generator under a for loop inside a function", ["f(%d)"]), ("nested generators inside a function", ["ff(%d)"]),
                           ("generator under a for loop inside a while loop inside a function", ["w(%d)"]),
                           ("twice, with statements between", ["f(%d)", "x = 1", "ff(%d)", "x + 1"])):
            for doout in (True, False):
                lid += 1
                deep += 1
                ls.append({"id": lid, "lines": defs + [u % n if "%d" in u else u for u in uses] + ["d(3)"], "doout": doout, "stdin": [], "budget": 40000000,
                           "meta": {"family": "deep call nesting", "variant": "%s, depth %d" % (name, n), "session": 0}})
    res = vlib.run_loop([{k: v for k, v in x.items() if k != "meta"} for x in ls])
    dirty = 0
    for x in ls:
        r = res.get(x["id"])
        if r is None:
            raise vlib.Infra("vh loop gave no result for session %d" % x["id"])
        ck.cov["evaluations"] += 1
        ck.cov["traces_validated_against_impl"] += 1
        rs = r.get("residue") or {}
        what = None
        if r.get("kind") != "ok":
            what = "the read-eval loop ended with %s (%s)" % (r.get("kind"), str(r.get("msg"))[:120])
        elif any(rs.get(k, 0) != 0 for k in ("sp", "frames", "closures", "live", "ipgap")):
            what = "residue after the session: %s" % json.dumps({k: rs.get(k) for k in ("sp", "frames", "closures", "live", "ipgap")})
        if what:
            dirty += 1
            ck.violation("through the read-eval loop (%s, %s): %s: %s" % ("REPL's way" if x["doout"] else "file mode", x["meta"]["variant"], what, " | ".join(x["lines"])[:300]),
                         {"loop_session": {k: v for k, v in x.items() if k != "meta"}, "result": {k: r.get(k) for k in ("kind", "msg", "residue")}})
    ck.part("sessions through the real read-eval loop, residue after the session", sessions=len(ls), deep_call_nesting=deep, dirty=dirty)
    ck.cov["rule"] = props.c09_rule
    ck.assumptions += ["CalcSem.tla (NoResidue invariant, continuation depth) as evaluated by TLC is the oracle", "Go heap growth not reflected in sp / len(stack) / context count is out of scope"]
    return ck.finish()
