"""C09 -- evaluation leaves the machine clean."""
import json, collections
import vlib, props, semcheck, vmcheck


def run(tier, replay=None):
    ck = vlib.Check("C09", tier)
    if replay:
        return semcheck.replay_file(ck, replay, cmp=("value", "residue"))
    fams, pairs = props.c09_families(tier, vlib.seed())
    vs = semcheck.run_families(ck, fams, props.c09_nontrivial)
    # bounded loop storage: where the specification's continuation depth is the same for n and 2n iterations,
    # the real peak stack pointer and stack allocation must be the same too
    groups = collections.defaultdict(list)
    for v in vs:
        k = v.session.get("meta", {}).get("pairkey")
        if k and v.status == "accept" and not v.accept.get("unspec"):
            groups[k].append(v)
    compared = 0
    for k, g in groups.items():
        if len(g) != 2:
            continue
        a, b = sorted(g, key=lambda v: v.session["meta"]["n"])
        if max(a.accept["depths"]) != max(b.accept["depths"]):
            continue      # the language itself needs more room (not the case for these families)
        compared += 1
        pa = max(o.get("peak", 0) for o in a.real)
        pb = max(o.get("peak", 0) for o in b.real)
        la = max((o.get("residue") or {}).get("stacklen", 0) for o in a.real)
        lb = max((o.get("residue") or {}).get("stacklen", 0) for o in b.real)
        if pa != pb or la != lb:
            b.info = {"id": b.session["id"], "item": len(b.real), "aspect": "storage-growth",
                      "expected": {"peak_sp": pa, "stack_len": la, "n": a.session["meta"]["n"]},
                      "recorded": {"peak_sp": pb, "stack_len": lb, "n": b.session["meta"]["n"]}}
            ck.violation("loop storage grows with the iteration count: %s with n=%d peak sp %d / stack %d, n=%d peak sp %d / stack %d: %s" % (
                k, a.session["meta"]["n"], pa, la, b.session["meta"]["n"], pb, lb, " ; ".join(b.texts)[:300]), semcheck.replay_case(b))
    ck.part("bounded loop storage", pairs_compared=compared)
    # machine level: the compiled code must leave the *intended* VM clean (locates compiler-side leaks), and the real VM's
    # (ip, sp, frames, closures) must follow the intended VM instruction by instruction
    sl = [v.session for v in vs if v.status == "accept" and v.session.get("mode") != "discard" and v.session.get("meta", {}).get("n", 0) <= 6]
    n, agree, viol = vmcheck.validate(ck, sl[:1500], "CalcVM: compiled code leaves the intended VM clean; real instruction traces followed")
    for desc, case, kind in viol:
        ck.violation(desc, case)
    ck.cov["rule"] = props.c09_rule
    ck.assumptions += ["CalcSem.tla (NoResidue invariant, continuation depth) as evaluated by TLC is the oracle", "Go heap growth not reflected in sp / len(stack) / context count is out of scope"]
    return ck.finish()
