"""Translation validation and instruction-level trace validation with CalcVM.tla.
The real compiler's bytecode for each session (decoded by `vh run`, wantbc) is executed by the intended VM
of CalcVM.tla inside TLC; its observations are compared with CalcSem's (same session, generate mode), which
separates "the compiler emitted wrong code" from "the VM executed right code wrongly"; the per-instruction
trace (ip, sp, frames, closures, temp-register and stack-top signatures) of the real VM must be followed step by
step by the intended VM, with the specified value in the temp register / on the stack wherever an instruction reads it."""
import json
import vlib, sess

TRACE_CAP = 2500


def key(o):
    if "val" in o:
        return ("val", json.dumps(o["val"], sort_keys=True), "".join(o.get("out", [])))
    if "err" in o:
        return ("err", o["err"], "".join(o.get("out", [])))
    if "stuck" in o:
        return ("stuck", o["stuck"])
    if "unspec" in o:
        return ("unspec",)
    if "perr" in o:
        return ("perr",)
    return ("?",)


def validate(ck, sessions, part, maxsteps=40000, batch=1500, with_trace=True):
    """returns (n_programs, n_agree, violations list of (desc, case))"""
    real_in = []
    for s in sessions:
        real_in.append({"id": s["id"], "items": [{"src": sess.item_text(it)} for it in s["items"]], "stdin": [], "wantbc": True, "trace": with_trace})
    real = vlib.run_real_full(real_in)
    progs = []
    for s in sessions:
        r = real.get(s["id"])
        if not r or "bc" not in r:
            continue
        res = r["res"]
        if any(o.get("kind") in ("panic", "hang", "crash", "cerr") for o in res) or len(res) != len(s["items"]):
            continue     # the statement-level checks report those; the machine model needs a complete compile
        entries = [(-1 if o.get("kind") == "perr" else o["cs"][0]) for o in res]
        p = {"id": s["id"], "code": r["bc"]["code"], "ds": r["bc"]["ds"], "entries": entries}
        if with_trace and all(len(o.get("trace", [])) < TRACE_CAP for o in res):
            p["trace"] = [o.get("trace", []) for o in res]
        progs.append(p)
    so = sess.spec_obs([s for s in sessions if any(p["id"] == s["id"] for p in progs)], maxsteps=60000)
    vm = {}
    div = {}
    for b in range(0, len(progs), batch):
        data = "\n".join(json.dumps(p) for p in progs[b:b + batch]) + "\n"
        cfg = "SPECIFICATION Spec\nCONSTANT ProgramsFile = \"programs.ndjson\"\nCONSTANT MaxSteps = %d\nVIEW View\nCHECK_DEADLOCK FALSE\n" % maxsteps
        r = vlib.run_tlc("CalcVM", "VMRun.cfg", files={"programs.ndjson": data, "VMRun.cfg": cfg}, timeout=3000)
        if r.violation:
            raise vlib.Infra("CalcVM.tla failed: " + r.violation + r.raw[-1000:])
        ck.add_tlc(r, part)
        for l in r.lines:
            if l.startswith("OBS "):
                d = json.loads(l[4:])
                vm[d["id"]] = d["obs"]
            elif l.startswith("VMDIVERGE "):
                d = json.loads(l[10:])
                div[d["id"]] = d
    by_id = {s["id"]: s for s in sessions}
    agree = 0
    viol = []
    followed = 0
    for p in progs:
        sid = p["id"]
        s = by_id[sid]
        texts = [sess.item_text(it) for it in s["items"]]
        if sid in div:
            d = div[sid]
            viol.append(("the real VM leaves the intended machine at instruction level (%s): statement %d (%s) step %d, opcode %s: intended (ip, sp, frames, closures) = %s%s, real event (.., temp register, stack top) = %s" % (
                d.get("what", "state"), d["stmt"], texts[d["stmt"] - 1].replace("\n", " ; ")[:120], d["step"], d["op"], d["spec"],
                (", intended value " + d["specval"]) if d.get("specval") else "", d["real"]), {"session": s, "texts": texts, "vmdiverge": d}, "trace"))
            continue
        if "trace" in p:
            followed += 1
        v, c = vm.get(sid), so.get(sid)
        if v is None or c is None:
            continue
        verdict = None
        for j, (a, b) in enumerate(zip(c, v)):
            ka, kb = key(a), key(b)
            if ka[0] == "unspec" or kb[0] == "unspec":
                break
            if ka[0] == "err" and kb[0] == "err":
                if not (kb[1] in (a["err"], a.get("alt"), a.get("alt2")) or ka[1] in (b["err"], b.get("alt"))) or ka[2] != kb[2]:
                    verdict = (j, "error class or output differs: semantics %s, compiled code on the intended VM %s" % (ka, kb))
                    break
            elif ka != kb:
                verdict = (j, "semantics gives %s, the compiled code on the intended VM gives %s" % (str(ka)[:200], str(kb)[:200]))
                break
            if "val" in b and (b["sp"] != 0 or b["frames"] != 0 or b["clos"] != 0 or b["live"] != 0 or b["incur"] != 1):
                verdict = (j, "the compiled code leaves residue on the intended VM: sp=%s frames=%s closures=%s live contexts=%s" % (b["sp"], b["frames"], b["clos"], b["live"]))
                break
        if verdict:
            j, why = verdict
            viol.append(("translation validation: statement %d (%s): %s" % (j + 1, texts[j].replace("\n", " ; ")[:120], why), {"session": s, "texts": texts, "item": j + 1}, "residue" if "residue" in why else "code"))
        else:
            agree += 1
    ck.part(part, programs=len(progs), agree_with_semantics=agree, traces_followed_to_the_end=followed)
    ck.cov["traces_validated_against_impl"] += followed
    if with_trace:
        # only programs the intended VM followed to the end of every statement (after an Unspecified statement the rest of a
        # session is not examined, so a corrupted event there would go unnoticed for a reason that is not the binding's)
        clean = [p for p in progs if "trace" in p and p["id"] not in div and vm.get(p["id"]) is not None and len(vm[p["id"]]) == len(p["entries"])
                 and all(("val" in o or "err" in o) for o in vm[p["id"]])]
        selftest(ck, clean, part, maxsteps)
    return len(progs), agree, viol


BINOPS = {"ADD", "SUB", "MUL", "DIV", "MOD", "AND", "OR", "LT", "GT", "LE", "GE", "EQ", "NE", "LSH", "RSH"}
UNOPS = {"NOT", "FLIP", "LEN"}


def reads_tmp(i):
    return (i["op"] in BINOPS | UNOPS and i["t"]) or (i["op"] == "PUSH" and i["t"]) or (i["op"] == "MOV" and i["k0"] == "tmp")


def pops_first(i):
    return i["k0"] == "stck" and (i["op"] in BINOPS or (i["op"] in UNOPS and not i["t"]) or (i["op"] == "PUSH" and not i["t"]) or
                                  i["op"] in ("MOV", "INC", "JMPF", "JMPT", "IX1", "IX2", "ARR", "FUNC", "CALL", "RET", "YIELD", "WRITE", "TOA", "ATON"))


def selftest(ck, progs, part, maxsteps, want=8):
    """the binding must notice a corrupted event: one stack pointer, one temp-register signature at an instruction that
    reads the register, one stack-top signature at an instruction that pops it (a missed corruption is exit 2)"""
    import copy
    bad, expect = [], {}
    for kind in ("state", "temp register", "operand"):
        n = 0
        for p in progs:
            if n >= want:
                break
            hit = None
            for si, tr in enumerate(p["trace"]):
                for j, ev in enumerate(tr):
                    if len(ev) < 6 or ev[0] >= len(p["code"]):
                        continue
                    ins = p["code"][ev[0]]
                    if kind == "state" and j > 0 or kind == "temp register" and reads_tmp(ins) or kind == "operand" and pops_first(ins) and ev[5] != "-":
                        hit = (si, j)
                        break
                if hit:
                    break
            if not hit:
                continue
            q = copy.deepcopy(p)
            q["id"] = "selftest-%s-%s" % (kind.replace(" ", ""), p["id"])
            ev = q["trace"][hit[0]][hit[1]]
            if kind == "state":
                ev[1] += 1
            elif kind == "temp register":
                ev[4] = "i987654" if ev[4] != "i987654" else "n"
            else:
                ev[5] = "i987654" if ev[5] != "i987654" else "n"
            bad.append(q)
            expect[q["id"]] = kind
            n += 1
    if not bad:
        return
    data = "\n".join(json.dumps(p) for p in bad) + "\n"
    cfg = "SPECIFICATION Spec\nCONSTANT ProgramsFile = \"programs.ndjson\"\nCONSTANT MaxSteps = %d\nVIEW View\nCHECK_DEADLOCK FALSE\n" % maxsteps
    r = vlib.run_tlc("CalcVM", "VMRun.cfg", files={"programs.ndjson": data, "VMRun.cfg": cfg}, timeout=3000)
    got = {}
    for l in r.lines:
        if l.startswith("VMDIVERGE "):
            d = json.loads(l[10:])
            got[d["id"]] = d.get("what")
    missed = [i for i, k in expect.items() if got.get(i) != k]
    if missed:
        raise vlib.Infra("CalcVM binding self-test: corrupted events not rejected as expected: %s" % [(i, expect[i], got.get(i)) for i in missed[:5]])
    counts = {}
    for k in expect.values():
        counts[k] = counts.get(k, 0) + 1
    ck.part(part, selftest_corrupted_events=counts, selftest_rejected=len(expect))
