"""C13 -- backtracking is invisible.
(1) TLexer.tla: all operation sequences up to the bound on the abstract cursor/snapshot model and the
    cache-level model, refinement + fresh-scan equivalence as invariants; every maximal sequence replayed
    on lexer.TLexer.  (2) Combinator.tla: operational semantics of every combinator vs the declarative
    ordered-choice recogniser (TLC invariant), every (term, token string) case replayed on the real
    combinator package over a real TLexer.  (3) trace validation: operation traces recorded from the real
    parser on random programs (and from deeper combinator terms) are checked against TLexer.tla by TLC."""
import json, random, subprocess
import vlib, gens, frontlib
from astlib import ps

SRC = {(2, False): "", (3, False): "a", (4, False): "a +", (5, False): "a + 1",
       (1, True): "$", (2, True): "a $", (3, True): "a + $", (4, True): "a + 1 $", (5, True): "a + 1 , $"}


def vh_json(cmd, lines, timeout=1200):
    vh = vlib.build_harness()
    n = vlib.NCPU
    chunks = [lines[i::n] for i in range(n)]
    procs = [subprocess.Popen([vh, cmd], stdin=subprocess.PIPE, stdout=subprocess.PIPE, stderr=subprocess.PIPE, text=True) for ch in chunks if ch]
    import threading
    outs = [None] * len(procs)

    def work(i, p, inp):
        outs[i] = p.communicate(inp, timeout=timeout)
    ths = [threading.Thread(target=work, args=(i, p, "\n".join(json.dumps(x) for x in ch) + "\n")) for i, (p, ch) in enumerate(zip(procs, [c for c in chunks if c]))]
    for t in ths:
        t.start()
    for t in ths:
        t.join()
    res = []
    for i, p in enumerate(procs):
        if outs[i] is None or p.returncode != 0:
            raise vlib.Infra("vh %s failed: %s" % (cmd, outs[i][1][-1500:] if outs[i] else ""))
        res += [json.loads(l) for l in outs[i][0].splitlines()]
    return res


def run(tier, replay=None):
    ck = vlib.Check("C13", tier)
    seed = vlib.seed()
    rnd = random.Random(seed)
    if replay:
        case = json.load(open(replay))["case"]
        kind = case.get("kind")
        out = vh_json({"tlexer": "tlreplay", "comb": "combreplay"}[kind], [case["mismatch"]])
        for o in out:
            if not o.get("summary"):
                ck.violation("replay: " + json.dumps(o)[:500], case)
        ck.cov["evaluations"] = 1
        return ck.finish()
    # (1) TLexer
    r = vlib.run_tlc("TLexer", "TLexer_%s.cfg" % tier, timeout=3000)
    if r.violation:
        raise vlib.Infra("TLexer.tla invariant failed (specification defect): " + r.violation)
    ck.add_tlc(r, "TLexer.tla: refinement and fresh-scan equivalence, all operation sequences")
    # (1b) the same model for histories of any length: Apalache checks that IndInv (the TLC invariants strengthened by
    # "every saved pointer lies inside what has been scanned") holds initially and is preserved by every action from any state
    # satisfying it; two controls must fail (the TLC invariants alone are not inductive; the set of start states is not vacuous)
    ind = dict(deps=("TLexerCore",), next_="CoreNext", cinit="CInit")
    if not vlib.run_apalache("TLexerInd", init="CoreInit", inv="IndInv", length=0, **ind):
        raise vlib.Infra("TLexerInd: IndInv does not hold initially (specification defect)")
    if not vlib.run_apalache("TLexerInd", init="IndInit", inv="IndInv", length=1, **ind):
        raise vlib.Infra("TLexerInd: IndInv is not inductive (specification defect)")
    controls = 0
    if tier == "thorough":
        if vlib.run_apalache("TLexerInd", init="WeakInit", inv="WeakInv", length=1, **ind):
            raise vlib.Infra("TLexerInd self-test: the invariants without PtrsScanned came out inductive")
        if vlib.run_apalache("TLexerInd", init="IndInit", inv="NotFull", length=0, **ind):
            raise vlib.Infra("TLexerInd self-test: IndInit admits no full snapshot stack over a fully scanned input (vacuous)")
        controls = 2
    ck.part("TLexerInd.tla: inductive invariant checked by Apalache (histories of any length, scans of 2-8 tokens, snapshot stacks up to 6)",
            base_case=1, inductive_step=1, failing_controls=controls)
    seqs = [json.loads(l[4:]) for l in r.lines if l.startswith("OBS ")]
    cases = []
    for s in seqs:
        key = (s["n"], s["err"])
        if key not in SRC:
            continue
        cases.append({"src": SRC[key], "n": s["n"], "err": s["err"], "h": s["h"]})
    out = vh_json("tlreplay", cases)
    nt = 0
    for o in out:
        if o.get("summary"):
            ck.cov["evaluations"] += o["cases"]
            ck.cov["traces_validated_against_impl"] += o["cases"]
        else:
            ck.violation("TLexer operation sequence: %s: %s" % (o["why"], json.dumps(o["mismatch"])[:300]), {"kind": "tlexer", "mismatch": o["mismatch"]})
    for c in cases:
        ops = [h["op"] for h in c["h"]]
        if "rollback" in ops and "next" in ops[:ops.index("rollback")]:
            nt += 1
    # binding self-test: a sequence whose recorded token index is changed must be rejected by the replayer
    import copy
    bad = []
    for c in cases:
        idx = [i for i, h in enumerate(c["h"]) if h["op"] == "next" and h["ok"] and h["tok"] >= 1 and c["n"] >= 3 and not (c["err"] and h["tok"] >= c["n"] - 1)]
        if idx:
            c2 = copy.deepcopy(c)
            hh = c2["h"][idx[0]]
            hh["tok"] = hh["tok"] + 1 if hh["tok"] + 1 < c2["n"] - (1 if c2["err"] else 0) else hh["tok"] - 1
            if hh["tok"] >= 1:
                bad.append(c2)
        if len(bad) >= 10:
            break
    if bad:
        bo = [o for o in vh_json("tlreplay", bad) if not o.get("summary")]
        if len(bo) != len(bad):
            raise vlib.Infra("binding self-test: %d corrupted TLexer sequences, %d reported" % (len(bad), len(bo)))
        ck.part("binding self-test", corrupted=len(bad), rejected=len(bo))
    ck.part("TLexer sequences replayed on lexer.TLexer", sequences=len(cases), with_rollback_after_next=nt)
    if cases:
        ck.sample({"tlexer_sequence": {"src": cases[len(cases) // 2]["src"], "ops": [h["op"] for h in cases[len(cases) // 2]["h"]]}})
    # (2) combinators
    cfg = "CombMC_D2.cfg" if tier == "quick" else "CombMC_D3.cfg"
    r2 = vlib.run_tlc("CombMC", cfg, timeout=3000)
    if r2.violation:
        raise vlib.Infra("Combinator.tla theorem failed (specification defect): " + r2.violation)
    ck.add_tlc(r2, "Combinator.tla: Run = Peg, balanced snapshots, restoring combinators")
    ccases = [json.loads(l[4:]) for l in r2.lines if l.startswith("OBS ")]
    out = vh_json("combreplay", ccases)
    for o in out:
        if o.get("summary"):
            ck.cov["evaluations"] += o["cases"]
            ck.cov["traces_validated_against_impl"] += o["cases"]
        else:
            m = o["mismatch"]
            ck.violation("combinator term %s on tokens %s: specified ok=%s nodes=%s pos=%s, real %s" % (json.dumps(m["p"])[:300], m["s"], m["ok"], m["nodes"], m["pos"], json.dumps(o["real"])),
                         {"kind": "comb", "mismatch": m})
    restoring = sum(1 for c in ccases if not c["ok"] and c["p"]["c"] in ("oneof", "assert", "choose", "any", "sepby") or c["p"]["c"] in ("assert",))
    nt += restoring
    ck.part("combinator terms replayed on the real package", cases=len(ccases), restoring_cases=restoring)
    if ccases:
        ck.sample({"combinator_case": ccases[len(ccases) // 3]})
    # (3) traces of the real parser on random programs, validated against TLexer.tla
    texts = []
    for s in gens.random_sessions(25 if tier == "quick" else 400, seed, "c13"):
        for it in s["items"]:
            t = ps(it)
            if len(t) < 400:
                texts.append(t)
    # corrupted programs: the parser backtracks and fails
    for t in list(texts[:: 3]):
        b = list(t)
        i = rnd.randrange(len(b))
        b[i] = rnd.choice("(){}[],+$")
        texts.append("".join(b))
    # long parses: hundreds of tokens behind the cursor, look-ahead and backtracking late in the input
    import frontlib
    texts += frontlib.long_programs(seed, 4 if tier == "quick" else 40)
    treq = [{"id": i + 1, "src": t} for i, t in enumerate(texts)]
    traces = vh_json("tltrace", treq)
    traces.sort(key=lambda t: t["id"])
    bad = [t for t in traces if "panic" in t]
    for t in bad:
        ck.violation("the parser panicked while being traced: %s on %r" % (t["panic"], texts[t["id"] - 1][:200]), {"kind": "trace", "src": texts[t["id"] - 1]})
    good = [t for t in traces if "panic" not in t and t["n"] > 0]
    nops = sum(len(t["ops"]) for t in good)
    B = 300
    done = rej = 0
    for b in range(0, len(good), B):
        batch = good[b:b + B]
        data = "\n".join(json.dumps({"id": t["id"], "n": t["n"], "err": t["err"], "ops": t["ops"]}) for t in batch) + "\n"
        cfgt = "SPECIFICATION TraceSpec\nCONSTANT TraceFile = \"traces.ndjson\"\nCONSTANT NToks = {1}\nCONSTANT ErrModes = {FALSE}\nCONSTANT MaxOps = 1\nINVARIANT TraceInv\nCHECK_DEADLOCK FALSE\n"
        rt = vlib.run_tlc("TLexerTrace", "TLexerTrace.cfg", files={"traces.ndjson": data, "TLexerTrace.cfg": cfgt}, workers=1, timeout=3000)
        if rt.violation:
            raise vlib.Infra("TLexerTrace invariant failed: " + rt.violation + rt.raw[-800:])
        ck.add_tlc(rt, "trace validation of real parser runs against TLexer.tla")
        fin = [l for l in rt.lines if l.startswith("TRACES-DONE ")]
        if not fin:
            raise vlib.Infra("trace validation did not reach the end of the trace file:\n" + rt.raw[-1500:])
        d = json.loads(fin[0][12:])
        done += d["traces"]
        rej += d["rejected"]
        for l in rt.lines:
            if l.startswith("TRACE-REJECTED "):
                x = json.loads(l[15:])
                ck.violation("real parser trace rejected by TLexer.tla: %s at event %d (%s) while parsing %r" % (x["why"], x["at"], json.dumps(x["event"]), texts[x["id"] - 1][:200]),
                             {"kind": "trace", "src": texts[x["id"] - 1], "rejection": x})
    ck.cov["traces_validated_against_impl"] += done
    ck.cov["evaluations"] += done
    ck.part("real parser traces validated by TLC", traces=done, events=nops, rejected=rej)
    ck.cov["distinct_nontrivial"] = nt + sum(1 for t in good if any(o["op"] == "rollback" for o in t["ops"]))
    ck.cov["rule"] = ("TLexer: every legal operation sequence up to the bound over fresh scans of 2-5 tokens with and without a final lexer error; combinators: every term of the bounded "
                      "term algebra (Accept/Ok/And/Seq/OneOf/Choose/Any/SeparatedBy/SurroundedBy/Assert/Not-under-Assert/Drop/Fmap, non-productive repetitions excluded) x every token "
                      "string up to the bound; traces: the real parser on seeded random and corrupted programs. non-trivial = a rollback after a Next / a restoring combinator that fails / "
                      "a trace containing a rollback")
    ck.assumptions += ["TLexer.tla and Combinator.tla evaluated by TLC are the oracle", "Not is only specified as a look-ahead (under Assert), which is how the grammar uses it",
                       "Any/SeparatedBy over gates that can succeed without consuming input loop by design (usage precondition) and are excluded by the Nullable analysis"]
    return ck.finish()
