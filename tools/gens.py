"""Seeded generators and bounded enumerations of calc sessions (DESIGN.md Appendix G).
Everything is deterministic in (seed, index).  Programs terminate by construction: while loops
count a write-protected fresh counter, recursion decreases an int argument, generators are finite."""
import random
from astlib import *


class G:
    """typed random session generator: pure functions, generator functions, closure makers,
    bounded while, one- and two-iterator for, nested loops, return/yield/write in every position"""

    def __init__(s, seed, p_ill=0.0):
        s.r = random.Random(seed)
        s.k = 0
        s.fns = {}
        s.p_ill = p_ill

    def fresh(s, p):
        s.k += 1
        n = s.k
        out = ""
        while True:
            out = chr(97 + n % 26) + out
            n //= 26
            if n == 0:
                break
        return p + "z" + out

    def vt(s, ctx, t):
        return [v for v, tt in ctx["vars"].items() if tt == t]

    def e(s, t, ctx, d):
        if s.p_ill and s.r.random() < s.p_ill:
            t = s.r.choice("IBSFA")
        return {"I": s.eI, "B": s.eB, "S": s.eS, "F": s.eF, "A": s.eA}[t](ctx, d)

    def eI(s, ctx, d):
        r = s.r
        c = r.random()
        vs = s.vt(ctx, "I")
        if d <= 0 or c < 0.22:
            if vs and r.random() < 0.7:
                return N(r.choice(vs))
            return I(r.randint(0, 5))
        if c < 0.55:
            return bin_(r.choice(["+", "+", "-", "*", "*"]), s.e("I", ctx, d - 1), s.e("I", ctx, d - 1))
        if c < 0.60:
            return bin_(r.choice(["/", "%"]), s.eI(ctx, d - 1), I(r.randint(1, 4)))
        if c < 0.64:
            return un(r.choice(["-", "~"]), s.eI(ctx, d - 1))
        if c < 0.68:
            return un("#", s.e(r.choice("SA"), ctx, d - 1))
        if c < 0.72:
            return ix1(s.eA(ctx, d - 1), s.eI(ctx, 0))
        if c < 0.75:
            return bin_(r.choice(["&", "|"]), s.eI(ctx, d - 1), s.eI(ctx, d - 1))
        if c < 0.77:
            return bin_(r.choice(["<<", ">>"]), s.eI(ctx, 0), I(r.randint(0, 3)))
        if c < 0.80:
            return call("aton", call("toa", s.eI(ctx, d - 1)))
        pures = [(f, k[1]) for f, k in s.fns.items() if k[0] == "pure"] + \
                [(v, t[1]) for v, t in ctx["vars"].items() if isinstance(t, tuple) and t[0] == "pure"]
        if pures and ctx["calls"]:
            f, np_ = r.choice(pures)
            return call(f, *[s.eI(ctx, d - 1) for _ in range(np_)])
        return bin_("+", s.eI(ctx, d - 1), s.eI(ctx, d - 1))

    def eB(s, ctx, d):
        r = s.r
        c = r.random()
        if c < 0.12:
            return Bo(r.random() < 0.5)
        if c < 0.2 and d > 0:
            return un("!", s.eB(ctx, d - 1))
        if c < 0.3 and d > 0:
            return bin_(r.choice(["&", "|", "&&", "||"]), s.eB(ctx, d - 1), s.eB(ctx, d - 1))
        if c < 0.38:
            t = r.choice("SAF")
            return bin_(r.choice(["==", "!="]), s.e(t, ctx, d - 1), s.e(t, ctx, d - 1))
        if c < 0.45:
            return bin_(r.choice(["<", "<=", ">", ">="]), s.eF(ctx, d - 1), s.eI(ctx, d - 1))
        return bin_(r.choice(["<", "<=", ">", ">=", "==", "!="]), s.eI(ctx, d), s.eI(ctx, d))

    def eS(s, ctx, d):
        r = s.r
        c = r.random()
        vs = s.vt(ctx, "S")
        if d <= 0 or c < 0.3:
            if vs and r.random() < 0.6:
                return N(r.choice(vs))
            if r.random() < 0.08:       # beyond ASCII / longer than the 20 characters a report shows
                return St(r.choice(["\u00e9", "a\u00f1b", "abcdefghijklmnopqrstuvwxy", "\u65e5\u672c"]))
            return St(r.choice(["", "a", "ab", "xyz", "5%d", "%", 'q"', '"', 'a"b']))
        if c < 0.55:
            return bin_("+", s.eS(ctx, d - 1), s.eS(ctx, d - 1))
        if c < 0.8:
            return call("toa", s.e(r.choice("IIFAB"), ctx, d - 1))
        if c < 0.9:
            return ix2(s.eS(ctx, d - 1), I(r.randint(0, 1)), I(r.randint(1, 2)))
        return ix1(s.eS(ctx, d - 1), I(r.randint(0, 1)))

    def eF(s, ctx, d):
        r = s.r
        c = r.random()
        vs = s.vt(ctx, "F")
        if d <= 0 or c < 0.35:
            if vs and r.random() < 0.6:
                return N(r.choice(vs))
            if r.random() < 0.04:       # a finite float outside the exact sub-domain (carried by its bits)
                return FlOpq(r.choice([0.1, 0.30000000000000004, 2.675, 1234.5678]))
            return Fl(r.choice([1, 3, 5, 0]), r.choice([0, 1, 2]))
        if c < 0.7:
            return bin_(r.choice(["+", "-", "*"]), s.eF(ctx, d - 1), s.e(r.choice("FI"), ctx, d - 1))
        if c < 0.85:
            return bin_("/", s.e(r.choice("FI"), ctx, d - 1), Fl(r.choice([1, 1, 2, 4, 0]), r.choice([0, 1])))
        return un("-", s.eF(ctx, d - 1))

    def eA(s, ctx, d):
        r = s.r
        c = r.random()
        vs = s.vt(ctx, "A")
        if d <= 0 or c < 0.3:
            if vs and r.random() < 0.6:
                return N(r.choice(vs))
            return lst([I(r.randint(0, 3)) for _ in range(r.randint(0, 3))])
        if c < 0.55:
            return lst([s.eI(ctx, d - 1) for _ in range(r.randint(1, 3))])
        if c < 0.8:
            return bin_("+", s.eA(ctx, d - 1), s.eA(ctx, d - 1))
        return ix2(s.eA(ctx, d - 1), I(r.randint(0, 1)), I(r.randint(1, 2)))

    def genCall(s, ctx, d):
        r = s.r
        gens = [(f, k[1]) for f, k in s.fns.items() if k[0] == "gen"] + \
               [(v, t[1]) for v, t in ctx["vars"].items() if isinstance(t, tuple) and t[0] == "gen"]
        c = r.random()
        if not gens or c < 0.35:
            if c < 0.12:
                return call("elems", s.eA(ctx, 1))
            if c < 0.2:
                return call("indices", s.e(r.choice("SA"), ctx, 1))
            lo = r.randint(0, 2)
            return call("fromto", I(lo), I(lo + r.randint(0, 4)))
        f, np_ = r.choice(gens)
        return call(f, *[s.eI(ctx, min(d, 1)) for _ in range(np_)])

    def stmts(s, ctx, d, n):
        out = []
        ctx = dict(ctx, vars=dict(ctx["vars"]))
        for _ in range(n):
            x = s.stmt(ctx, d)
            if isinstance(x, list):
                out.extend(x)
            else:
                out.append(x)
        return out

    def body(s, ctx, d):
        return block(s.stmts(ctx, d, s.r.randint(1, 3)))

    def stmt(s, ctx, d):
        r = s.r
        c = r.random()
        if d <= 0:
            c = c * 0.49
        if c < 0.30:
            t = r.choice("IIIISFA")
            vs = [v for v in s.vt(ctx, t) if not v.startswith("cz")]
            v = r.choice(vs) if vs and r.random() < 0.5 else s.fresh("v")
            e = s.e(t, ctx, 2)
            ctx["vars"][v] = t
            return assign(v, e)
        if c < 0.38:
            return wr(s.e(r.choice("IISFAB"), ctx, 2))
        if c < 0.46 and ctx["isgen"]:
            return y(s.eI(ctx, 2))
        if c < 0.50:
            if ctx["infn"] and r.random() < 0.5:
                return ret(s.eI(ctx, 1))
            return s.e(r.choice("IISFAB"), ctx, 2)
        if c < 0.62:
            return iff(s.eB(ctx, 1), s.body(ctx, d - 1))
        if c < 0.70:
            return ife(s.eB(ctx, 1), s.body(ctx, d - 1), s.body(ctx, d - 1))
        if c < 0.78:
            cv = s.fresh("c")
            k = r.randint(1, 3)
            ctx["vars"][cv] = "I"
            inner = s.stmts(ctx, d - 1, r.randint(1, 2))
            cond = bin_("<", N(cv), I(k))
            if r.random() < 0.3:        # a condition that calls (evaluated once more than the body runs)
                cond = bin_("&", cond, bin_(r.choice(["<", ">=", "!="]), s.eI(ctx, 2), s.eI(ctx, 1)))
            return [assign(cv, I(0)), wh(cond, block([assign(cv, bin_("+", N(cv), I(1)))] + inner))]
        if c < 0.96:
            ni = 1 if r.random() < 0.75 else 2
            vs = [s.fresh("i") for _ in range(ni)]
            its = [s.genCall(ctx, d) for _ in range(ni)]
            bctx = dict(ctx, vars=dict(ctx["vars"]))
            for v in vs:
                bctx["vars"][v] = "I"
            return fr(vs, its, s.body(bctx, d - 1))
        if ctx["infn"]:
            h = s.fresh("h")
            p = s.fresh("p")
            hctx = {"vars": {k: v for k, v in ctx["vars"].items() if not isinstance(v, tuple)}, "infn": True, "isgen": False, "calls": ctx["calls"]}
            hctx["vars"][p] = "I"
            ctx["vars"][h] = ("pure", 1)
            return assign(h, fn([p], s.eI(hctx, 2)))
        return s.eI(ctx, 2)

    def define(s, name, kind, np_, gl):
        """items that bind `name` to a new function of the given kind and arity (pure / gen / mk: a maker and an instance of it)"""
        r = s.r
        items = []
        ps_ = [s.fresh("p") for _ in range(np_)]
        ctx = {"vars": dict(gl), "infn": True, "isgen": kind == "gen", "calls": True}
        for p in ps_:
            ctx["vars"][p] = "I"
        if kind == "pure":
            ss = s.stmts(ctx, 2, r.randint(1, 3))
            fin = s.eI({"vars": {**gl, **{p: "I" for p in ps_}}, "infn": True, "isgen": False, "calls": True}, 2)
            if r.random() < 0.5:
                # a local that is assigned only on a path that is not taken reads nil, whatever earlier calls left on the stack
                u = s.fresh("u")
                ss.insert(r.randint(0, len(ss)), iff(Bo(False), assign(u, I(7))))
                fin = bin_("+", fin, un("#", call("toa", N(u))))
            ss.append(fin)
            items.append(assign(name, fn(ps_, block(ss))))
            s.fns[name] = ("pure", np_)
        elif kind == "gen":
            items.append(assign(name, fn(ps_, block(s.stmts(ctx, 2, r.randint(2, 4))))))
            s.fns[name] = ("gen", np_)
        elif kind == "mk":
            x = s.fresh("x")
            inner_kind = r.choice(["gen", "pure"])
            ictx = {"vars": {**{p: "I" for p in ps_}, x: "I"}, "infn": True, "isgen": inner_kind == "gen", "calls": True}
            if inner_kind == "gen":
                inner = fn([], block(s.stmts(ictx, 1, r.randint(2, 3))))
            else:
                q = s.fresh("q")
                ictx["vars"][q] = "I"
                inner = fn([q], s.eI(ictx, 2))
            items.append(assign(name, fn(ps_, block([assign(x, s.eI({"vars": {p: "I" for p in ps_}, "infn": True, "isgen": False, "calls": False}, 1)), inner]))))
            inst = s.fresh("k")
            items.append(assign(inst, call(name, *[I(r.randint(0, 4)) for _ in ps_])))
            s.fns[inst] = (inner_kind, 0 if inner_kind == "gen" else 1)
        else:
            # function literals nested three deep: the outermost has a local named like a global, the innermost reads that name -- only its
            # own frame and its definer's frame are visible to a function, so it reads the global; the middle one has variables of its own
            ig = [g for g, t in gl.items() if t == "I"]
            shadow = r.choice(ig) if ig else s.fresh("g")
            y_, q = s.fresh("y"), s.fresh("q")
            innermost = fn([q], bin_("+", bin_("*", N(shadow), I(2)), bin_("+", N(y_), N(q))))
            mid = fn([], block([assign(y_, s.eI({"vars": {}, "infn": True, "isgen": False, "calls": False}, 1)), innermost]))
            pad = [assign(s.fresh("w"), I(r.randint(0, 9))) for _ in range(r.randint(0, 3))]
            m = s.fresh("m")
            items.append(assign(name, fn(ps_, block(pad + [assign(shadow, I(r.randint(50, 60))), assign(m, mid), call(m)]))))
            inst = s.fresh("k")
            items.append(assign(inst, call(name, *[I(r.randint(0, 4)) for _ in ps_])))
            if ig:
                s.fns[inst] = ("pure", 1)
        return items

    def session(s):
        r = s.r
        items = []
        gl = {}
        for t in "IISAF"[:r.randint(2, 5)]:
            v = s.fresh("g")
            items.append(assign(v, s.e(t, {"vars": {}, "infn": False, "isgen": False, "calls": False}, 1)))
            gl[v] = t
        named = []
        for _ in range(r.randint(1, 4)):
            kind = r.choice(["pure", "gen", "gen", "mk", "pure", "gen", "gen", "mk", "mk3"])
            np_ = r.randint(0, 2)
            name = s.fresh("f")
            items += s.define(name, kind, np_, gl)
            if kind in ("pure", "gen"):
                named.append((name, kind, np_))
        top = {"vars": dict(gl), "infn": False, "isgen": False, "calls": True}
        tops = []
        for _ in range(r.randint(2, 5)):
            x = s.stmt(top, 2)
            if isinstance(x, list):
                tops.extend(x)
            else:
                tops.append(x)
        if r.random() < 0.25:
            # values read from standard input, kept while more is read; the same call written twice in one expression
            s.stdin = ["l%d%s\n" % (i, "x" * r.choice([0, 3, 70])) for i in range(8)]
            ra, rb = s.fresh("v"), s.fresh("v")
            tops += [assign(ra, call("read")), assign(rb, bin_("+", bin_("+", call("read"), call("read")), St("|"))), lst([N(ra), N(rb), call("read")]), N(ra)]
        items += tops
        if named and r.random() < 0.4:
            # the same statements again after functions they call were bound anew (same kind and arity, another body) and globals reassigned
            for name, kind, np_ in r.sample(named, min(len(named), r.randint(1, 2))):
                saved = s.fns
                order = list(saved)
                s.fns = {k: saved[k] for k in order[:order.index(name)]}        # the new body may call only what was defined before the name first was: no recursion
                items += s.define(name, kind, np_, gl)
                s.fns = saved
            # (not the statements that read input, and not loops over a value the first run may have made longer: run twice, a loop that
            # doubles the value it iterates over needs 2^length steps)
            def grows(x):
                return any(n["t"] == "for" and any(i.get("t") == "call" and i["name"].get("n") in ("elems", "indices") and any(m.get("t") == "name" for m in walk(i)) for i in n["iters"]) for n in walk(x))
            again = [x for x in tops if not any(n["t"] == "call" and n["name"].get("n") == "read" for n in walk(x)) and not grows(x)]
            items += again
        for g in list(gl)[:3]:
            items.append(N(g))
        return items


def random_sessions(n, seed, tag, p_ill=0.0, first_id=1):
    out = []
    for i in range(n):
        g = G(seed * 1000003 + i * 7919 + sum(ord(c) for c in tag), p_ill)
        items = g.session()
        out.append({"id": first_id + i, "items": items, "stdin": list(getattr(g, "stdin", [])), "meta": {"family": tag, "index": i}})
    return out


# ----------------------------------------------------------------- expressions x contexts (C12 / C01)

# f computes n + 1 through nested operators, so that a call of it uses the callee's temp register and stack like any real function
PRELUDE = [assign("x", I(1)), assign("a", lst([I(1), I(2), I(3)])), assign("f", fn(["n"], bin_("+", bin_("-", bin_("*", N("n"), I(2)), N("n")), I(1)))),
           assign("id", fn(["v"], N("v"))), assign("sv", St("vw"))]
ATOMS = [I(2), N("x"), Fl(3, 1), St("a"), lst([I(1), I(2)]), call("f", I(1)), N("u"), Bo(True), N("a")]
OPS10 = ["+", "-", "*", "/", "%", "==", "<", "&", "|", "<<"]


def exprs_depth1(atoms=None, ops=None):
    atoms = atoms or ATOMS
    ops = ops or OPS10
    out = list(atoms)
    for op in ops:
        for l in atoms:
            for r in atoms:
                out.append(bin_(op, l, r))
    for u in UNOPS:
        for a in atoms:
            out.append(un(u, a))
    for a in atoms:
        out.append(ix1(a, I(0)))
        out.append(ix1(N("a"), a))
        out.append(ix2(a, I(0), I(1)))
    return out


SMALL = [bin_("+", N("x"), I(1)), bin_("*", N("x"), Fl(3, 1)), un("#", N("a")), ix1(N("a"), N("x")), call("f", N("x")),
         bin_("==", N("x"), I(1)), bin_("+", N("a"), lst([N("x")])), lst([bin_("+", N("x"), I(1)), I(2)])]


def exprs_depth2():
    out = []
    for op in ["+", "*", "==", "<", "&"]:
        for l in SMALL:
            for r in SMALL + ATOMS[:3]:
                out.append(bin_(op, l, r))
    for s in SMALL:
        out.append(ix1(N("a"), s))
        out.append(ix1(lst([s, I(7)]), I(0)))
        out.append(un("-", s))
        out.append(un("#", lst([s])))
        out.append(bin_("+", s, s))
        out.append(ix2(N("a"), I(0), s))
        out.append(bin_("-", bin_("+", s, I(1)), bin_("*", s, I(2))))
    return out


def contexts(e):
    """embedding contexts of Appendix C: (name, items)"""
    yield "top", [e]
    yield "midblock", [block([e, I(0)])]
    yield "lastblock", [block([I(0), e])]
    yield "fntail", [assign("g", fn([], e)), call("g")]
    yield "fnmid", [assign("g", fn([], block([e, I(0)]))), call("g")]
    yield "fnret", [assign("g", fn([], block([ret(e), I(0)]))), call("g")]
    yield "topret", [ret(e)]
    yield "arg", [call("id", e)]
    yield "arg2", [assign("snd", fn(["p", "q"], N("q"))), call("snd", I(0), e)]
    yield "assign", [assign("t", e), N("t")]
    yield "fnassign", [assign("g", fn([], block([assign("t", e), N("t")]))), call("g")]
    yield "elem", [lst([e])]
    yield "elem2", [lst([N("x"), e])]
    yield "opl", [bin_("==", e, e)]
    yield "ifcond", [iff(e, I(5))]
    yield "ifcondmid", [block([iff(e, I(5)), I(0)])]
    yield "whilecond", [assign("g", fn([], wh(e, ret(I(5))))), call("g")]
    yield "ifbody", [iff(Bo(True), e)]
    yield "ifbodymid", [block([iff(Bo(True), e), I(0)])]
    yield "ifelsefn", [assign("g", fn(["p"], ife(bin_("<", N("p"), I(1)), e, I(9)))), call("g", I(0)), call("g", I(5))]
    yield "whilebody", [block([assign("k", I(0)), wh(bin_("<", N("k"), I(2)), block([assign("k", bin_("+", N("k"), I(1))), e]))])]
    yield "whilebodyfn", [assign("g", fn([], block([assign("k", I(0)), wh(bin_("<", N("k"), I(2)), block([assign("k", bin_("+", N("k"), I(1))), e]))]))), call("g")]
    yield "forbody", [fr(["i"], [call("fromto", I(0), I(2))], e)]
    yield "forbodymid", [block([fr(["i"], [call("fromto", I(0), I(2))], e), I(0)])]
    yield "forbodyfn", [assign("g", fn([], fr(["i"], [call("fromto", I(0), I(2))], e))), call("g")]
    yield "foriter", [fr(["i"], [call("elems", lst([e]))], N("i"))]
    yield "yield", [assign("g", fn([], y(e))), fr(["i"], [call("g")], N("i"))]
    yield "nakedyield", [y(e)]
    yield "write", [call("write", e)]
    yield "indexed", [ix1(lst([e]), I(0))]


def context_sessions(exprs, first_id=1, ctx_filter=None):
    out = []
    i = first_id
    for e in exprs:
        for name, items in contexts(e):
            if ctx_filter and name not in ctx_filter:
                continue
            out.append({"id": i, "items": PRELUDE + items, "stdin": [], "meta": {"ctx": name, "e": pe(e)}})
            i += 1
    return out


def exprs_deep():
    """operands with two or more operators inside, placed to the right and to the left of temp-register operators at operator depth 0..3"""
    a, x = N("a"), N("x")
    inner = [ix1(a, bin_("-", bin_("+", x, I(1)), I(1))), ix1(a, bin_("+", bin_("*", x, I(1)), I(0))), ix2(a, bin_("-", bin_("+", x, I(0)), I(1)), bin_("+", bin_("*", x, I(1)), I(1))),
             lst([bin_("+", bin_("*", x, I(2)), I(1)), I(5)]), ix1(lst([I(7), bin_("+", bin_("+", x, x), x)]), I(1)), un("#", lst([bin_("+", bin_("+", x, I(1)), I(1))])),
             bin_("+", bin_("*", x, I(3)), bin_("-", x, I(1))), bin_("-", x, bin_("+", bin_("*", x, I(2)), I(1))), call("f", bin_("+", bin_("*", x, I(2)), I(1))),
             un("-", bin_("+", bin_("*", x, I(2)), I(1))), ix1(St("abc"), bin_("-", bin_("+", x, I(1)), I(1))), bin_("+", call("toa", bin_("+", bin_("*", x, I(2)), I(1))), St("s"))]
    L = [bin_("*", x, I(100)), I(200), N("x"), call("f", I(1))]
    out = []
    for X in inner:
        for l in L:
            for op1 in ("+", "*", "-", "=="):
                out.append(bin_(op1, l, X))
                out.append(bin_(op1, X, l))
                out.append(bin_(op1, bin_("+", l, I(3)), X))
                out.append(bin_("+", bin_(op1, l, X), I(1)))
                out.append(bin_("+", I(1), bin_(op1, l, bin_("*", I(1), X))))
                out.append(bin_(op1, l, bin_("-", I(50), X)))
    # operators whose operand ORDER matters (concatenation of strings and of arrays): a leaf to the left of a compound operand, to the
    # right of one, right-nested and left-nested chains, mixed with comparisons
    sl = [St("p"), N("sv"), call("toa", x)]
    al = [lst([I(7)]), a, lst([x, I(2)])]
    sc = [bin_("+", St("q"), St("r")), bin_("+", N("sv"), St("t")), bin_("+", call("toa", x), St("u"))]
    ac = [bin_("+", lst([I(8)]), lst([I(9)])), bin_("+", a, lst([x])), bin_("+", lst([x]), a)]
    for leaves, comps in ((sl, sc), (al, ac)):
        for l in leaves:
            for c in comps:
                out += [bin_("+", l, c), bin_("+", c, l), bin_("+", l, bin_("+", l, c)), bin_("+", bin_("+", l, c), l), bin_("==", bin_("+", l, c), bin_("+", c, l)),
                        bin_("+", l, bin_("+", c, c)), un("#", bin_("+", l, c)), ix2(bin_("+", l, c), I(0), I(2))]
    return out


def enum_sessions(slice_k, slice_n, first_id=1, ck=None):
    """the expression x context product enumerated by TLC from CalcEnum.tla (TLC is the enumerator; CalcSem the judge)"""
    import json
    import vlib
    cfg = "SPECIFICATION Spec\nCONSTANT SliceK = %d\nCONSTANT SliceN = %d\nINVARIANT TableOK\nCHECK_DEADLOCK FALSE\n" % (slice_k % slice_n, slice_n)
    r = vlib.run_tlc("CalcEnum", "CalcEnumRun.cfg", files={"CalcEnumRun.cfg": cfg}, timeout=1800)
    if r.violation:
        raise vlib.Infra("CalcEnum.tla: " + r.violation)
    if ck is not None:
        ck.add_tlc(r, "CalcEnum.tla: enumeration of expressions x contexts")
    out = []
    rows = sorted((json.loads(l[8:]) for l in r.lines if l.startswith("SESSION ")), key=lambda d: (d["e"], d["ctx"]))
    for i, d in enumerate(rows):
        out.append({"id": first_id + i, "items": d["items"], "stdin": [], "meta": {"ctx": d["ctx"], "e": d["e"], "enumerated_by": "TLC"}})
    return out
