import vlib, props, semcheck
from astlib import walk

TITLE = {"C02": "for loops consume exactly what their iterators yield, lazily and in order",
         "C03": "functions are pure: same arguments, same result, whatever happened before"}


def ladder(ck, tier, only=None):
    # ---- "at any call depth": a loop over a generator runs inside another loop's body, k call frames further down.  CalcSem gives the value for
    # k = 0..6 (the same for all: the frames in between only pass the value up); the real pipeline must give that value for every k, in
    # particular where the distance is a power of two or next to one (the recursion is plain, its depth is limited only by memory)
    import sess, json
    from astlib import assign, fn, call, N, I, block, fr, ife, bin_, lst
    defs = [assign("inner", fn([], block([assign("t", I(0)), fr(["v", "u"], [call("fromto", I(0), I(3)), call("fromto", I(10), I(13))], assign("t", bin_("+", N("t"), bin_("+", bin_("*", N("v"), I(100)), N("u"))))), N("t")]))),
            assign("dive", fn(["n"], ife(bin_("==", N("n"), I(0)), call("inner"), call("dive", bin_("-", N("n"), I(1)))))),
            assign("outer", fn(["n"], block([assign("s", lst([])), fr(["w"], [call("fromto", I(0), I(2))], assign("s", bin_("+", N("s"), lst([N("w"), call("dive", N("n"))])))), N("s")]))),
            assign("gen", fn(["n"], fr(["w"], [call("fromto", I(0), I(2))], block([bin_("+", I(0), I(0)), fr(["z"], [call("fromto", I(5), I(7))], block([I(0), __import__("astlib").y(bin_("+", N("z"), call("dive", N("n"))))]))])))),
            assign("col", fn(["n"], block([assign("s", lst([])), fr(["e"], [call("gen", N("n"))], assign("s", bin_("+", N("s"), lst([N("e")])))), N("s")])))]
    small = [{"id": 1, "items": defs + [call("outer", I(k)) for k in range(0, 7)] + [call("col", I(k)) for k in range(0, 7)], "stdin": []}]
    so = sess.spec_obs(small)[1]
    vals_outer = [o.get("val") for o in so[len(defs):len(defs) + 7]]
    vals_col = [o.get("val") for o in so[len(defs) + 7:]]
    if any(v is None or v != vals_outer[0] for v in vals_outer) or any(v is None or v != vals_col[0] for v in vals_col):
        raise vlib.Infra("CalcSem does not give one value for the call-depth ladder: %s" % json.dumps(so)[:400])
    depths = only or [7, 255, 256, 257, 32767, 32768, 65535, 65536, 131070, 131071, 131072, 131073] + ([] if tier == "quick" else [262142, 262143, 262144, 262145, 524286, 524287, 524288, 1048575])
    from astlib import ps
    ladder = [{"id": 100 + i, "items": [{"src": ps(d)} for d in defs] + [{"src": "outer(%d)" % k}, {"src": "col(%d)" % k}, {"src": "outer(3)"}], "stdin": [], "budget": 200000000} for i, k in enumerate(depths)]
    real = vlib.run_real(ladder, timeout=3000)
    for x, k in zip(ladder, depths):
        res = real.get(x["id"]) or []
        ck.cov["evaluations"] += 1
        ck.cov["traces_validated_against_impl"] += 1
        ck.cov["distinct_nontrivial"] += 1
        got = [(o.get("kind"), o.get("val")) for o in res[len(defs):]]
        want = [("val", vals_outer[0]), ("val", vals_col[0]), ("val", vals_outer[0])]
        if got != want:
            ck.violation("a loop %d call frames below another loop's body: outer(%d), col(%d), outer(3) give %s, specified (for every depth) %s" % (
                k, k, k, json.dumps([{"kind": o.get("kind"), "val": o.get("val"), "msg": o.get("msg"), "err": o.get("err")} for o in res[len(defs):]])[:400], json.dumps([w[1] for w in want])[:200]),
                {"ladder": {"depth": k}, "session": {"id": x["id"], "items": x["items"]}})
    ck.part("loops at call depths up to %d below another loop (value from CalcSem at depths 0..6)" % max(depths), depths=len(depths))


def run(tier, replay=None):
    ck = vlib.Check("C02", tier)
    if replay:
        import json as _json
        case = _json.load(open(replay))["case"]
        if "ladder" in case:
            ladder(ck, tier, only=[case["ladder"]["depth"]])
            return ck.finish()
        return semcheck.replay_file(ck, replay)
    fams = props.c02_families(tier, vlib.seed())
    vs = semcheck.run_families(ck, fams, props.c02_nontrivial)
    semcheck.binding_selftest(ck, vs)
    ladder(ck, tier)
    ck.cov["rule"] = props.c02_rule
    ck.assumptions.append("call-depth ladder: CalcSem is evaluated for 0 to 6 intermediate frames and gives one value; that the value is the same for any number of intermediate frames is taken from the rules of CalcSem (a frame that only passes a value up), not evaluated by TLC at depth 10^5")
    ck.assumptions += ["CalcSem.tla as evaluated by TLC is the oracle; Unspecified sessions are only checked for no-crash"]
    return ck.finish()
