"""Common driver for the session-based checks: run families of sessions through the real
pipeline, let CalcSem (TLC) judge the recorded observations, classify divergences against the
known findings, count coverage."""
import json, os
import vlib, sess, findings
from astlib import walk


def describe(v):
    d = v.info
    if v.status == "guard":
        return "parse guard (C07): item %d %s: %r" % (d["item"], d["why"], d["text"][:200])
    if v.status == "lost":
        return "no verdict: " + str(d)
    exp, rec = d.get("expected", {}), d.get("recorded", {})
    return "session %s item %d (%s): aspect %s: specified %s, real %s" % (
        d.get("id"), d.get("item"), v.texts[d["item"] - 1].replace("\n", " ; ")[:160] if d.get("item", 0) - 1 < len(v.texts) else "?",
        d.get("aspect"), short(exp), short(rec))


def short(o):
    o = dict(o)
    for k in ("report", "residue"):
        if k in o and not isinstance(o[k], str):
            o[k] = json.dumps(o[k])[:300]
    if "out" in o and isinstance(o["out"], list):
        o["out"] = "".join(o["out"])
    return json.dumps(o)[:500]


def replay_case(v):
    return {"session": {k: v.session[k] for k in ("id", "items", "stdin", "meta") if k in v.session}, "texts": v.texts,
            "cmp": v.session.get("cmp"), "mode": v.session.get("mode"), "divergence": v.info, "real": v.real}


def run_families(ck, families, nontrivial=None, maxsteps=60000, guard_is_violation=False, budget=0, crash_is_violation=False):
    """families: list of (name, sessions, cmp, mode).  Updates ck; returns list of verdicts"""
    allv = []
    seen = set()
    for fam in families:
        name, sessions, cmp = fam[0], fam[1], fam[2]
        mode = fam[3] if len(fam) > 3 else "used"
        if not sessions:
            continue
        vs = sess.judge(sessions, cmp=cmp, mode=mode, maxsteps=maxsteps, ck=ck, part=name, budget=budget)
        st = {"sessions": len(vs), "accepted": 0, "unspecified": 0, "diverged": 0, "guard_skipped": 0, "known": 0}
        d11_candidates = []
        for v in vs:
            ck.cov["evaluations"] += 1
            crashed = [o for o in (v.real or []) if o.get("kind") in ("panic", "hang", "crash") or str(o.get("err", "")).startswith("other:")]
            if crash_is_violation and crashed and v.status in ("accept", "guard"):
                # the specification stopped judging (Unspecified) before the crash: "no crash" still applies
                o = crashed[0]
                i = (v.real or []).index(o)
                v.status = "diverge"
                v.info = {"id": v.session["id"], "item": i + 1, "aspect": "kind", "expected": {"any": "value or documented runtime error"},
                          "recorded": sess.to_rec(o) if o.get("kind") != "err" else {"kind": "err", "err": o.get("err")}}
            if v.status == "accept":
                st["accepted"] += 1
                ck.cov["traces_validated_against_impl"] += 1
                if v.accept.get("unspec"):
                    st["unspecified"] += 1
                dg = vlib.digest(v.session["items"])
                if dg not in seen and not v.accept.get("unspec") and (nontrivial is None or nontrivial(v)):
                    seen.add(dg)
                    ck.cov["distinct_nontrivial"] += 1
            elif v.status == "diverge":
                st["diverged"] += 1
                ck.cov["traces_validated_against_impl"] += 1
                fid = findings.classify(ck.pid, v)
                if fid and fid[0] == "D11":
                    d11_candidates.append((v, fid))      # confirmed below by a run whose stack never reallocates
                elif fid:
                    st["known"] += 1
                    ck.known_finding(fid[0], fid[1])
                    if os.environ.get("VERIF_DUMPKNOWN"):
                        os.makedirs(os.path.join(vlib.VERIF, "evidence", "replay"), exist_ok=True)
                        json.dump({"finding": fid[0], "description": describe(v), "case": replay_case(v)},
                                  open(os.path.join(vlib.VERIF, "evidence", "replay", "known_%s_%s_%d.json" % (ck.pid, fid[0], v.session["id"])), "w"))
                else:
                    ck.violation(describe(v), replay_case(v))
            elif v.status == "guard":
                st["guard_skipped"] += 1
                if guard_is_violation:
                    ck.violation(describe(v), replay_case(v))
            else:
                raise vlib.Infra("session %s of family %s: %s" % (v.session["id"], name, v.info))
        if d11_candidates:
            # D11 is "the closure's captured frame goes stale when the operand stack is reallocated": a candidate is the known
            # finding only if the same session agrees with the specification when the stack is grown once, beforehand
            import copy
            again = []
            for v, fid in d11_candidates:
                s2 = copy.deepcopy(v.session)
                s2["pregrow"] = 60000
                s2["items"] = s2["items"][:v.info.get("item", len(s2["items"]))]     # up to and including the diverging item
                again.append(s2)
            vs2 = sess.judge(again, cmp=cmp, mode=mode, maxsteps=maxsteps, ck=ck, part=name + " (D11 confirmation runs)", budget=budget)
            for (v, fid), v2 in zip(d11_candidates, vs2):
                if v2.status == "accept":
                    st["known"] += 1
                    ck.known_finding(fid[0], fid[1])
                    if os.environ.get("VERIF_DUMPKNOWN"):
                        os.makedirs(os.path.join(vlib.VERIF, "evidence", "replay"), exist_ok=True)
                        json.dump({"finding": fid[0], "description": describe(v), "case": replay_case(v)},
                                  open(os.path.join(vlib.VERIF, "evidence", "replay", "known_%s_%s_%d.json" % (ck.pid, fid[0], v.session["id"])), "w"))
                else:
                    ck.violation(describe(v) + " [matches the syntactic shape of D11 but does not depend on stack reallocation]", replay_case(v))
            d11_candidates = []
        ck.part(name, **st)
        if vs:
            v0 = vs[len(vs) // 2]
            ck.sample({"family": name, "texts": v0.texts, "verdict": v0.status, "meta": v0.session.get("meta")})
        allv += vs
    skipped = sum(p.get("guard_skipped", 0) for p in ck.cov["parts"].values() if isinstance(p, dict))
    if skipped and not guard_is_violation:
        print("note: %d session(s) not judged because the real parser did not return the printed tree (that is property C07's check)" % skipped)
    return allv


def replay_file(ck, path, cmp=("value",)):
    case = json.load(open(path))["case"]
    s = case["session"]
    if case.get("cmp"):
        s["cmp"] = case["cmp"]
    if case.get("mode"):
        s["mode"] = case["mode"]
    if str(case.get("via", "")).startswith("loop"):
        import sess as _sess
        for v in _sess.judge_via_loop([s], cmp=("report",), ck=ck, part="replay through the read-eval loop", oneline=case["via"] == "loop-oneline"):
            ck.cov["evaluations"] += 1
            if v.status != "accept":
                ck.violation("through the read-eval loop: %s" % json.dumps(v.info)[:600], {"session": v.session, "texts": v.texts, "via": case["via"]})
        return ck.finish()
    if case.get("scope_diff"):
        import scopecheck
        for desc, c in scopecheck.validate(ck, [s], "replay: the front end's tree against CalcScope.tla"):
            ck.violation(desc, c)
        return ck.finish()
    run_families(ck, [("replay", [s], cmp)])
    return ck.finish()


def binding_selftest(ck, verdicts, maxsteps=60000, n=24):
    """Binding self-test: corrupt one recorded field of sessions the specification accepted (flip a value, drop an output
    character, change an error class, leave residue) and require CalcSem to reject every corrupted record.  A corrupted
    record that is still accepted means the judge is not binding: infrastructure failure (exit 2), never a verdict."""
    import copy
    cand = [v for v in verdicts if v.status == "accept" and not v.accept.get("unspec") and getattr(v, "tlc_in", None)]
    made = []
    for v in cand:
        if len(made) >= n:
            break
        ts = copy.deepcopy(v.tlc_in)
        cmp_ = ts.get("cmp", ["value"])
        done = None
        for kk in range(4):
            k = (len(made) + kk) % 4
            for i, r in enumerate(ts["rec"]):
                if r.get("kind") == "val" and "value" in cmp_:
                    val = r["val"]
                    if k == 0 and val.get("k") == "int":
                        val["v"] += 1
                        done = "value of item %d incremented" % (i + 1)
                    elif k == 1 and r.get("out"):
                        r["out"] = r["out"][:-1]
                        done = "last output character of item %d dropped" % (i + 1)
                    elif k == 2 and val.get("k") in ("int", "bool", "str", "arr", "float"):
                        r["val"] = {"k": "nil"}
                        done = "value of item %d replaced by nil" % (i + 1)
                    elif k == 3 and "residue" in cmp_ and r.get("residue"):
                        r["residue"]["sp"] = 1
                        done = "residue sp of item %d set to 1" % (i + 1)
                elif r.get("kind") == "err" and k == 2:
                    r["err"] = "index" if r["err"] != "index" else "arity"
                    done = "error class of item %d changed" % (i + 1)
                if done:
                    break
            if done:
                break
        if done:
            ts["id"] = 9000000 + len(made)
            made.append((ts, done, v))
    if not made:
        return
    res = sess.judge_recorded([m[0] for m in made], maxsteps=maxsteps, ck=ck, part="binding self-test (corrupted records must be rejected)")
    rejected = 0
    for ts, what, v in made:
        st = res.get(ts["id"], ("lost", None))[0]
        if st == "diverge":
            rejected += 1
        else:
            raise vlib.Infra("binding self-test: a corrupted record (%s, session %s) was accepted by the specification" % (what, v.session["id"]))
    ck.part("binding self-test (corrupted records must be rejected)", corrupted=len(made), rejected=rejected)


def symbolic_float_selftest(ck, verdicts, maxsteps=60000, n=6):
    """Binding self-test of the symbolic floats: in accepted float-chain sessions, replace the recorded value of the chain computed in one
    piece (item 4) by the recorded value of its first step (item 2): CalcSem must reject the record at that item."""
    import copy
    made = []
    for v in verdicts:
        if len(made) >= n:
            break
        if v.status != "accept" or "float-chain" not in v.session.get("meta", {}) or not getattr(v, "tlc_in", None):
            continue
        ts = copy.deepcopy(v.tlc_in)
        if ts["rec"][3].get("val") == ts["rec"][1].get("val"):
            continue
        ts["rec"][3]["val"] = copy.deepcopy(ts["rec"][1]["val"])
        ts["id"] = 9100000 + len(made)
        made.append(ts)
    if not made:
        return
    res = sess.judge_recorded(made, maxsteps=maxsteps, ck=ck, part="binding self-test of the symbolic floats (a corrupted chain value must be rejected)")
    for ts in made:
        st, d = res.get(ts["id"], ("lost", None))
        if st != "diverge" or d.get("item") != 4:
            raise vlib.Infra("binding self-test of the symbolic floats: a corrupted chain value was not rejected at its statement (%s)" % st)
    ck.part("binding self-test of the symbolic floats (a corrupted chain value must be rejected)", corrupted=len(made), rejected=len(made))
