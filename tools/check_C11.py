"""C11 -- operators obey the documented value algebra.
TLC enumerates every operator application over the bounded value domain of ValuesMC.tla,
checks the documented laws as invariants of the specification, and prints each tuple with the
specified result; every tuple is replayed on the exported methods of types/value.  The operators are also
exercised the way programs reach them -- through the compiler, in negated / assigned / parameter positions over
special values (NaN, infinities, signed zero, nil) -- as sessions judged by CalcSem."""
import json, subprocess
import vlib


def replay_tuples(tuples):
    vh = vlib.build_harness()
    inp = "\n".join(json.dumps(t) for t in tuples) + "\n"
    p = subprocess.run([vh, "valreplay"], input=inp, capture_output=True, text=True, timeout=900)
    if p.returncode != 0:
        raise vlib.Infra("vh valreplay failed: " + p.stderr[-2000:])
    mism, summary = [], None
    for line in p.stdout.splitlines():
        o = json.loads(line)
        if o.get("summary"):
            summary = o
        else:
            mism.append(o)
    if summary is None:
        raise vlib.Infra("vh valreplay: no summary")
    return mism, summary


def run(tier, replay=None):
    ck = vlib.Check("C11", tier)
    ck.cov["exhaustive"] = True
    if replay:
        case = json.load(open(replay))["case"]
        if "mismatch" not in case:
            import semcheck
            return semcheck.replay_file(ck, replay)
        mism, summary = replay_tuples([case["mismatch"]])
        for m in mism:
            ck.violation("operator tuple disagrees with CalcValues: %s" % json.dumps(m)[:400], m)
        ck.cov["evaluations"] = 1
        return ck.finish()
    r = vlib.run_tlc("ValuesMC", "ValuesMC_%s.cfg" % tier, timeout=3000)
    if r.violation:
        raise vlib.Infra("a documented law fails on the specification itself (spec defect, not a verdict): " + r.violation)
    ck.add_tlc(r, "CalcValues laws + tuple generation")
    tuples = [json.loads(l[4:]) for l in r.lines if l.startswith("OBS ")]
    if len(tuples) * 2 != r.distinct:
        raise vlib.Infra("OBS lines (%d) do not match TLC's state count (%d)" % (len(tuples), r.distinct))
    mism, summary = replay_tuples(tuples)
    # binding self-test: a corrupted expectation must be reported by the replayer
    import copy
    bad = [copy.deepcopy(t) for t in tuples if t["r"].get("val", {}).get("k") == "int"][:5]
    for t in bad:
        t["r"]["val"]["v"] += 1
    if bad:
        bm, _ = replay_tuples(bad)
        if len(bm) != len(bad):
            raise vlib.Infra("binding self-test: %d corrupted tuples, %d reported" % (len(bad), len(bm)))
        ck.part("binding self-test", corrupted=len(bad), rejected=len(bm))
    ck.cov["evaluations"] = summary["tuples"]
    ck.cov["traces_validated_against_impl"] = summary["tuples"] - summary["unspec"]
    ck.cov["distinct_nontrivial"] = sum(1 for t in tuples if not (t["a"]["k"] == "nil" and t["b"]["k"] == "nil") and t["r"].get("err") != "unspec")
    ck.cov["rule"] = ("every operator x operand tuple of the bounded domain in ValuesMC.tla (tuples are distinct by construction); "
                      "non-trivial = specified (not Unspecified) and not both operands nil")
    ck.cov["unspecified"] = summary["unspec"]
    ck.cov["out_of_model"] = ["64-bit wrap-around of + - *", "MinInt / -1", "rounding of non-dyadic float results",
                             "int/float comparison above 2^53", "shift counts < 0 or > 14, logical shift of negatives"]
    for t in tuples[:: max(1, len(tuples) // 5)][:5]:
        ck.sample(t)
    # the same algebra as the compiler builds it: sessions through the real pipeline, judged by CalcSem
    import semcheck, props
    fams = props.c11_families(tier, vlib.seed())
    vs = semcheck.run_families(ck, fams, None)
    semcheck.binding_selftest(ck, vs)
    ck.cov["rule"] += "; session level: " + props.c11_rule
    for m in mism:
        t = m["mismatch"]
        ck.violation("%s(%s, %s, %s): specified %s, types/value gives %s" % (
            t["op"], json.dumps(t["a"]), json.dumps(t["b"]), json.dumps(t["c"]), json.dumps(t["r"]), json.dumps(m["real"])), m)
    ck.assumptions += ["dyadic floats n/2^e decode exactly to float64", "TLC's evaluation of CalcValues.tla is the oracle",
                       "laws are checked on the specification; the implementation is bound by tuple-by-tuple equality on the same domain"]
    return ck.finish()
