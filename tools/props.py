"""Per-property families of sessions (DESIGN.md section 5): each function returns a list of
(family name, sessions, cmp aspects[, mode]) aimed at that property's quantifier."""
import random, itertools
from astlib import *
import gens

W = lambda s: wr(St(s))          # write probe


class Ids:
    def __init__(self, start=1):
        self.n = start - 1

    def next(self):
        self.n += 1
        return self.n


def mk(ids, items, meta=None, stdin=None, **kw):
    s = {"id": ids.next(), "items": items, "stdin": stdin or [], "meta": meta or {}}
    s.update(kw)
    return s


# =============================================================== C02: generator algebra

IDF = assign("id", fn(["v"], N("v")))
DBL = assign("dbl", fn(["v"], bin_("*", N("v"), I(2))))
GEN_DEFS = {
    "cnt": assign("cnt", fn(["n"], block([assign("i", I(0)), wh(bin_("<", N("i"), N("n")), block([W("<"), y(N("i")), W(">"), assign("i", bin_("+", N("i"), I(1)))]))]))),
    "recg": assign("recg", fn(["n"], iff(bin_(">", N("n"), I(0)), block([call("recg", bin_("-", N("n"), I(1))), y(N("n"))])))),
    "mkg": assign("mkg", fn(["x"], fn([], block([y(N("x")), W("r"), y(bin_("+", N("x"), I(1)))])))),
    "hy": assign("hy", fn(["v"], y(N("v")))),
    "viah": assign("viah", fn(["n"], block([call("hy", N("n")), call("hy", bin_("+", N("n"), I(1)))]))),
    "kfive": assign("kfive", fn([], y(I(5)))),
    "useval": assign("useval", fn([], block([assign("v", call("kfive")), y(bin_("+", N("v"), I(100)))]))),
    "condg": assign("condg", fn(["n"], block([iff(bin_(">", N("n"), I(1)), y(I(7))), ife(bin_("==", N("n"), I(0)), y(I(8)), block([y(I(9)), y(N("n"))]))]))),
    "empty": assign("empty", fn([], I(0))),
}
GEN_DEFS["cgen"] = assign("cgen", call("mkg", I(10)))


def base_gens():
    """(call expression, names of the definitions it needs)"""
    return [
        (call("fromto", I(1), I(4)), []),
        (call("elems", lst([I(4), I(2), I(6)])), []),
        (call("indices", St("abc")), []),
        (call("cnt", I(3)), ["cnt"]),
        (call("recg", I(3)), ["recg"]),
        (call("cgen"), ["mkg", "cgen"]),
        (call("viah", I(20)), ["hy", "viah"]),
        (call("useval"), ["kfive", "useval"]),
        (call("condg", I(2)), ["condg"]),
        (call("empty"), ["empty"]),
        (call("fromto", I(3), I(3)), []),
    ]


class GenAlg:
    """compositions map/filter/zip/chain/nest of generators, each wrapped into a fresh top-level function"""

    def __init__(self):
        self.k = 0
        self.defs = []

    def fresh(self):
        self.k += 1
        n, out = self.k, ""
        while True:
            out = chr(97 + n % 26) + out
            n //= 26
            if n == 0:
                break
        return "cg" + out + "q"

    def wrap(self, body, needs):
        nm = self.fresh()
        self.defs.append((nm, assign(nm, fn([], body))))
        return call(nm), needs + [nm]

    def map_(self, g):
        return self.wrap(fr(["x"], [g[0]], y(call("dbl", N("x")))), g[1] + ["dbl"])

    def filter_(self, g):
        return self.wrap(fr(["x"], [g[0]], iff(bin_("==", bin_("%", N("x"), I(2)), I(0)), y(N("x")))), g[1])

    def zip_(self, g, h):
        return self.wrap(fr(["x", "yy"], [g[0], h[0]], y(bin_("+", bin_("*", N("x"), I(100)), N("yy")))), g[1] + h[1])

    def chain_(self, g, h):
        return self.wrap(block([fr(["x"], [g[0]], y(N("x"))), fr(["x"], [h[0]], y(N("x")))]), g[1] + h[1])

    def nest_(self, g, h):
        return self.wrap(fr(["x"], [g[0]], fr(["yy"], [h[0]], y(bin_("+", bin_("*", N("x"), I(100)), N("yy"))))), g[1] + h[1])

    def mapv_(self, g):
        # the value of the yield expression is used after the resume
        return self.wrap(fr(["x"], [g[0]], block([assign("t", call("hy", bin_("+", N("x"), I(1)))), wr(N("t"))])), g[1] + ["hy"])


def loop_bodies():
    """(name, body over loop variable q, needs)"""
    return [
        ("arith", assign("acc", bin_("+", N("acc"), lst([bin_("+", bin_("*", bin_("+", N("q"), I(1)), I(2)), I(3))]))), []),
        ("call", assign("acc", bin_("+", N("acc"), lst([call("id", N("q"))]))), ["id"]),
        ("write", block([wr(N("q")), W(",")]), []),
        ("plain", assign("acc", bin_("+", N("acc"), lst([N("q")]))), []),
        ("ret2", block([assign("acc", bin_("+", N("acc"), lst([N("q")]))), iff(bin_(">", un("#", N("acc")), I(1)), ret(N("acc")))]), []),
        ("inner", fr(["w"], [call("fromto", I(0), I(2))], assign("acc", bin_("+", N("acc"), lst([bin_("+", N("q"), N("w"))])))), []),
    ]


def c02_session(ids, gexpr, needs, defs, bname, body, bneeds, placement, meta):
    alldefs = {"id": IDF, "dbl": DBL}
    alldefs.update(GEN_DEFS)
    alldefs.update(dict(defs))
    order = []
    for n in needs + bneeds:
        if n not in order:
            order.append(n)
    # definitions must precede uses only at run time; keep dependency order of `needs`
    items = [alldefs[n] for n in order]
    loop = fr(["q"], [gexpr], body)
    if placement == "top":
        items += [assign("acc", lst([])), loop, N("acc"), N("q")]
    elif placement == "fn":
        items += [assign("run", fn([], block([assign("acc", lst([])), loop, N("acc")]))), call("run")]
    elif placement == "twice":
        items += [assign("acc", lst([])), loop, loop, N("acc")]
    elif placement == "rec":
        items += [assign("run", fn(["d"], ife(bin_(">", N("d"), I(0)), call("run", bin_("-", N("d"), I(1))), block([assign("acc", lst([])), loop, N("acc")])))), call("run", I(3))]
    elif placement == "tailfn":
        items += [assign("run", fn([], block([assign("acc", lst([])), loop]))), call("run")]
    return mk(ids, items, dict(meta, body=bname, placement=placement))


def c02_families(tier, seed, ids=None):
    ids = ids or Ids()
    rnd = random.Random(seed)
    ga = GenAlg()
    bases = base_gens()
    d1 = []
    for g in bases:
        d1.append(("map", ga.map_(g)))
        d1.append(("filter", ga.filter_(g)))
        d1.append(("mapv", ga.mapv_(g)))
    for g, h in itertools.product(bases, bases):
        d1.append(("zip", ga.zip_(g, h)))
        d1.append(("chain", ga.chain_(g, h)))
        d1.append(("nest", ga.nest_(g, h)))
    d2 = []
    pool1 = [x[1] for x in d1]
    for _ in range(400 if tier == "thorough" else 60):
        k = rnd.choice(["map", "filter", "zip", "chain", "nest", "mapv"])
        a, b = rnd.choice(pool1 + bases), rnd.choice(pool1 + bases)
        d2.append((k + "2", getattr(ga, k + "_")(a) if k in ("map", "filter", "mapv") else getattr(ga, k + "_")(a, b)))
    pool2 = [x[1] for x in d2]
    d3 = []
    for _ in range(200 if tier == "thorough" else 30):
        k = rnd.choice(["map", "filter", "zip", "chain", "nest"])
        a, b = rnd.choice(pool2), rnd.choice(pool1 + bases + pool2)
        d3.append((k + "3", getattr(ga, k + "_")(a) if k in ("map", "filter") else getattr(ga, k + "_")(a, b)))
    bodies = loop_bodies()
    placements = ["top", "fn", "twice", "rec", "tailfn"]
    out = []
    alld = ga.defs

    def needs_closure(needs):
        # transitive: a composed generator's defs are in ga.defs in creation order; include all referenced
        return needs

    def emit(name, pool, sample=None):
        ss = []
        combos = [(kind, g, b, p) for (kind, g) in pool for b in bodies for p in placements]
        if sample is not None and len(combos) > sample:
            combos = rnd.sample(combos, sample)
        for kind, g, b, p in combos:
            ss.append(c02_session(ids, g[0], g[1], alld, b[0], b[1], b[2], p, {"gen": kind, "g": pe(g[0])}))
        out.append((name, ss, ("value",)))

    emit("base", [("base", b) for b in bases], None if tier == "thorough" else 150)
    emit("depth1", d1, 6000 if tier == "thorough" else 350)
    emit("depth2", d2, 3000 if tier == "thorough" else 120)
    emit("depth3", d3, 1500 if tier == "thorough" else 60)
    # naked yield and multi-iterator lock-step with unequal lengths
    special = []
    for a, b, c in itertools.product([1, 2, 4], [0, 2, 3], [1, 3]):
        special.append(mk(ids, [GEN_DEFS["cnt"], assign("acc", lst([])),
                                fr(["p", "q", "r"], [call("cnt", I(a)), call("fromto", I(0), I(b)), call("cnt", I(c))],
                                   assign("acc", bin_("+", N("acc"), lst([N("p"), N("q"), N("r")])))), N("acc")], {"zip3": [a, b, c]}))
    special.append(mk(ids, [y(I(3)), GEN_DEFS["hy"], assign("f", fn([], block([assign("t", call("hy", I(4))), bin_("+", N("t"), I(1))]))), call("f")], {"naked": True}))
    out.append(("lockstep+naked", special, ("value",)))
    return out


# =============================================================== C03: purity under placements and histories

DEEP = assign("deep", fn(["n"], ife(bin_("==", N("n"), I(0)), I(0), bin_("+", I(1), call("deep", bin_("-", N("n"), I(1)))))))


def wide_fn(name, n, tail):
    vs = ["w" + "".join(chr(97 + int(c)) for c in str(i)) for i in range(n)]
    return assign(name, fn(["p"], block([assign(v, bin_("+", N("p"), I(i % 7))) for i, v in enumerate(vs)] + tail(vs)))), vs


def pure_family():
    """(name, definitions, call expression)"""
    fam = []
    fam.append(("sumsq", [assign("sumsq", fn(["n"], block([assign("acc", I(0)), fr(["i"], [call("fromto", I(0), N("n"))], assign("acc", bin_("+", N("acc"), bin_("*", N("i"), N("i"))))), N("acc")])))], call("sumsq", I(4))))
    fam.append(("fact", [assign("fact", fn(["n"], ife(bin_("<", N("n"), I(2)), I(1), bin_("*", N("n"), call("fact", bin_("-", N("n"), I(1)))))))], call("fact", I(5))))
    fam.append(("mkadd", [assign("mkadd", fn(["a"], fn(["b"], bin_("+", N("a"), N("b"))))), assign("useadd", fn(["n"], block([assign("h", call("mkadd", N("n"))), call("h", I(3))])))], call("useadd", I(4))))
    fam.append(("capupd", [DEEP, assign("capupd", fn(["d"], block([assign("x", I(0)), assign("g", fn([], N("x"))), call("deep", N("d")), assign("x", bin_("+", N("x"), I(1))), call("g")])))], call("capupd", I(3))))
    fam.append(("capupd200", [DEEP, assign("capupdb", fn(["d"], block([assign("x", I(0)), assign("g", fn([], N("x"))), call("deep", N("d")), assign("x", bin_("+", N("x"), I(1))), call("g")])))], call("capupdb", I(200))))
    fam.append(("genloop", [assign("evens", fn(["n"], fr(["i"], [call("fromto", I(0), N("n"))], iff(bin_("==", bin_("%", N("i"), I(2)), I(0)), y(N("i")))))),
                            assign("sumev", fn(["n"], block([assign("s", I(0)), fr(["e"], [call("evens", N("n"))], assign("s", bin_("+", N("s"), N("e")))), N("s")])))], call("sumev", I(7))))
    fam.append(("strs", [assign("rep", fn(["s", "n"], block([assign("o", St("")), fr(["i"], [call("fromto", I(0), N("n"))], assign("o", bin_("+", N("o"), N("s")))), N("o")])))], call("rep", St("ab"), I(3))))
    fam.append(("retclos", [assign("mkc", fn(["a"], block([assign("z", bin_("*", N("a"), I(2))), fn([], bin_("+", N("z"), N("a")))]))), assign("usec", fn(["n"], block([assign("c", call("mkc", N("n"))), call("c")])))], call("usec", I(5))))
    for n in (5, 130, 200):
        d, vs = wide_fn("wide%s" % "abc"[(5, 130, 200).index(n)], n, lambda vs: [assign("s", I(0)), fr(["i"], [call("fromto", I(0), N(vs[-1]))], assign("s", bin_("+", N("s"), I(1)))), bin_("+", N("s"), N(vs[0]))])
        fam.append(("wide%d" % n, [d], call(d["tgt"]["n"], I(2))))
    return fam


def placements(c):
    """(name, extra defs, item computing the same call c in a different dynamic context)"""
    return [
        ("top", [], c),
        ("array-twice", [], lst([c, c])),
        ("for-body", [], fr(["i"], [call("fromto", I(0), I(2))], c)),
        ("in-generator", [assign("gg", fn([], y(c)))], fr(["i"], [call("gg")], N("i"))),
        ("argument", [IDF], call("id", c)),
        ("depth5", [assign("dd", fn(["n"], ife(bin_("==", N("n"), I(0)), c, call("dd", bin_("-", N("n"), I(1))))))], call("dd", I(5))),
        ("depth200", [assign("de", fn(["n"], ife(bin_("==", N("n"), I(0)), c, call("de", bin_("-", N("n"), I(1))))))], call("de", I(200))),
        ("after-loop-same-stmt", [], block([fr(["q"], [call("fromto", I(0), I(2))], N("q")), c])),
        ("operand", [], bin_("+", I(0), c) if True else c),
    ]


def histories():
    return [
        ("none", []),
        ("small-loops", [fr(["h"], [call("fromto", I(0), I(3))], N("h")), fr(["h"], [call("elems", lst([I(1), I(2)]))], N("h"))]),
        ("deep-recursion", [DEEP, call("deep", I(300))]),
        ("runtime-error", [bin_("/", I(1), I(0))]),
        ("error-in-generator", [assign("bad", fn([], block([y(I(1)), bin_("/", I(1), I(0))]))), fr(["h"], [call("bad")], N("h"))]),
        ("many-statements", [assign("hv", bin_("+", I(k), I(1))) for k in range(40)]),
    ]


def c03_families(tier, seed, ids=None):
    ids = ids or Ids()
    fam = pure_family()
    out = []
    ss = []
    for (fname, defs, c), (hname, hist) in itertools.product(fam, histories()):
        if tier == "quick" and (hash((fname, hname, seed)) % 3 != 0) and hname not in ("none",):
            continue
        items = list(defs) + list(hist)
        seen_defs = set()
        for pname, pdefs, pitem in placements(c):
            for d in pdefs:
                if d["tgt"]["n"] not in seen_defs:
                    seen_defs.add(d["tgt"]["n"])
                    items.append(d)
            items.append(pitem)
        items.append(c)
        ss.append(mk(ids, items, {"fn": fname, "history": hname}))
    out.append(("pure-family x histories x placements", ss, ("value",)))
    # random pure functions called from several placements
    rs = []
    nrand = 40 if tier == "quick" else 1500
    for i in range(nrand):
        g = gens.G(seed * 7919 + i)
        gl = {}
        ctx = {"vars": {"p": "I"}, "infn": True, "isgen": False, "calls": False}
        body = g.stmts(ctx, 2, g.r.randint(1, 3))
        body = [b for b in body if not any(n["t"] == "call" and n["name"]["n"] in ("write", "read") for n in walk(b))]
        body.append(g.eI({"vars": {"p": "I"}, "infn": True, "isgen": False, "calls": False}, 2))
        c = call("pf", I(g.r.randint(0, 4)))
        items = [assign("pf", fn(["p"], block(body)))]
        seen_defs = set()
        for pname, pdefs, pitem in placements(c):
            for d in pdefs:
                if d["tgt"]["n"] not in seen_defs:
                    seen_defs.add(d["tgt"]["n"])
                    items.append(d)
            items.append(pitem)
        rs.append(mk(ids, items, {"fn": "random%d" % i}))
    out.append(("random pure functions x placements", rs, ("value",)))
    return out


def c02_nontrivial(v):
    # a generator resumed at least twice with a body in between: approximated from the session: a for loop over a
    # generator that yields >= 2 values, measured by the specification needing > 60 steps for the session
    return v.accept.get("steps", 0) > 60


c02_rule = ("generator algebra: base generators (builtins, while/yield, recursive, closure-capturing, helper-that-yields, value-of-yield) composed by "
            "map/filter/zip/chain/nest/value-using-map to depth 3, x loop bodies (arith, call, write, plain, return at 2nd iteration, inner loop) x placements "
            "(top level, in a function, twice in sequence, under recursion depth 3, as function tail); distinct by AST digest; non-trivial = the specification "
            "takes more than 60 steps (several resumes with a body between them)")


def c03_nontrivial(v):
    return len(v.session["items"]) >= 5


c03_rule = ("each session defines one side-effect-free function, runs a history (nothing / loops / deep recursion / runtime error / error inside a generator / "
            "40 statements), then calls it with the same argument from 9 placements (top, twice in an array, for body, inside a generator, argument, call depth 5 and 200, "
            "after a loop in the same statement, operand) and once more at the end; every call must return the specified value, hence equal values; "
            "non-trivial = at least 3 placements present")
