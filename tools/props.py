"""Per-property families of sessions (DESIGN.md section 5): each function returns a list of
(family name, sessions, cmp aspects[, mode]) aimed at that property's quantifier."""
import random, itertools
from astlib import *
import gens

W = lambda s: wr(St(s))          # write probe


class Ids:
    def __init__(self, start=1):
        self.n = start - 1

    def next(self):
        self.n += 1
        return self.n


def mk(ids, items, meta=None, stdin=None, **kw):
    s = {"id": ids.next(), "items": items, "stdin": stdin or [], "meta": meta or {}}
    s.update(kw)
    return s


# =============================================================== C02: generator algebra

IDF = assign("id", fn(["v"], N("v")))
DBL = assign("dbl", fn(["v"], bin_("*", N("v"), I(2))))
GEN_DEFS = {
    "cnt": assign("cnt", fn(["n"], block([assign("i", I(0)), wh(bin_("<", N("i"), N("n")), block([W("<"), y(N("i")), W(">"), assign("i", bin_("+", N("i"), I(1)))]))]))),
    "recg": assign("recg", fn(["n"], iff(bin_(">", N("n"), I(0)), block([call("recg", bin_("-", N("n"), I(1))), y(N("n"))])))),
    "mkg": assign("mkg", fn(["x"], fn([], block([y(N("x")), W("r"), y(bin_("+", N("x"), I(1)))])))),
    "hy": assign("hy", fn(["v"], y(N("v")))),
    "viah": assign("viah", fn(["n"], block([call("hy", N("n")), call("hy", bin_("+", N("n"), I(1)))]))),
    "kfive": assign("kfive", fn([], y(I(5)))),
    "useval": assign("useval", fn([], block([assign("v", call("kfive")), y(bin_("+", N("v"), I(100)))]))),
    "condg": assign("condg", fn(["n"], block([iff(bin_(">", N("n"), I(1)), y(I(7))), ife(bin_("==", N("n"), I(0)), y(I(8)), block([y(I(9)), y(N("n"))]))]))),
    "empty": assign("empty", fn([], I(0))),
}
GEN_DEFS["cgen"] = assign("cgen", call("mkg", I(10)))


def base_gens():
    """(call expression, names of the definitions it needs)"""
    return [
        (call("fromto", I(1), I(4)), []),
        (call("elems", lst([I(4), I(2), I(6)])), []),
        (call("indices", St("abc")), []),
        (call("cnt", I(3)), ["cnt"]),
        (call("recg", I(3)), ["recg"]),
        (call("cgen"), ["mkg", "cgen"]),
        (call("viah", I(20)), ["hy", "viah"]),
        (call("useval"), ["kfive", "useval"]),
        (call("condg", I(2)), ["condg"]),
        (call("empty"), ["empty"]),
        (call("fromto", I(3), I(3)), []),
    ]


class GenAlg:
    """compositions map/filter/zip/chain/nest of generators, each wrapped into a fresh top-level function"""

    def __init__(self):
        self.k = 0
        self.defs = []

    def fresh(self):
        self.k += 1
        n, out = self.k, ""
        while True:
            out = chr(97 + n % 26) + out
            n //= 26
            if n == 0:
                break
        return "cg" + out + "q"

    def wrap(self, body, needs):
        nm = self.fresh()
        self.defs.append((nm, assign(nm, fn([], body))))
        return call(nm), needs + [nm]

    def map_(self, g):
        return self.wrap(fr(["x"], [g[0]], y(call("dbl", N("x")))), g[1] + ["dbl"])

    def filter_(self, g):
        return self.wrap(fr(["x"], [g[0]], iff(bin_("==", bin_("%", N("x"), I(2)), I(0)), y(N("x")))), g[1])

    def zip_(self, g, h):
        return self.wrap(fr(["x", "yy"], [g[0], h[0]], y(bin_("+", bin_("*", N("x"), I(100)), N("yy")))), g[1] + h[1])

    def chain_(self, g, h):
        return self.wrap(block([fr(["x"], [g[0]], y(N("x"))), fr(["x"], [h[0]], y(N("x")))]), g[1] + h[1])

    def nest_(self, g, h):
        return self.wrap(fr(["x"], [g[0]], fr(["yy"], [h[0]], y(bin_("+", bin_("*", N("x"), I(100)), N("yy"))))), g[1] + h[1])

    def mapv_(self, g):
        # the value of the yield expression is used after the resume
        return self.wrap(fr(["x"], [g[0]], block([assign("t", call("hy", bin_("+", N("x"), I(1)))), wr(N("t"))])), g[1] + ["hy"])


def loop_bodies():
    """(name, body over loop variable q, needs)"""
    return [
        ("arith", assign("acc", bin_("+", N("acc"), lst([bin_("+", bin_("*", bin_("+", N("q"), I(1)), I(2)), I(3))]))), []),
        ("call", assign("acc", bin_("+", N("acc"), lst([call("id", N("q"))]))), ["id"]),
        ("write", block([wr(N("q")), W(",")]), []),
        ("plain", assign("acc", bin_("+", N("acc"), lst([N("q")]))), []),
        ("ret2", block([assign("acc", bin_("+", N("acc"), lst([N("q")]))), iff(bin_(">", un("#", N("acc")), I(1)), ret(N("acc")))]), []),
        ("inner", fr(["w"], [call("fromto", I(0), I(2))], assign("acc", bin_("+", N("acc"), lst([bin_("+", N("q"), N("w"))])))), []),
    ]


def c02_session(ids, gexpr, needs, defs, bname, body, bneeds, placement, meta):
    alldefs = {"id": IDF, "dbl": DBL}
    alldefs.update(GEN_DEFS)
    alldefs.update(dict(defs))
    order = []
    for n in needs + bneeds:
        if n not in order:
            order.append(n)
    # definitions must precede uses only at run time; keep dependency order of `needs`
    items = [alldefs[n] for n in order]
    loop = fr(["q"], [gexpr], body)
    if placement == "top":
        items += [assign("acc", lst([])), loop, N("acc"), N("q")]
    elif placement == "fn":
        items += [assign("run", fn([], block([assign("acc", lst([])), loop, N("acc")]))), call("run")]
    elif placement == "twice":
        items += [assign("acc", lst([])), loop, loop, N("acc")]
    elif placement == "rec":
        items += [assign("run", fn(["d"], ife(bin_(">", N("d"), I(0)), call("run", bin_("-", N("d"), I(1))), block([assign("acc", lst([])), loop, N("acc")])))), call("run", I(3))]
    elif placement == "tailfn":
        items += [assign("run", fn([], block([assign("acc", lst([])), loop]))), call("run")]
    return mk(ids, items, dict(meta, body=bname, placement=placement))


def c02_families(tier, seed, ids=None):
    ids = ids or Ids()
    rnd = random.Random(seed)
    ga = GenAlg()
    bases = base_gens()
    d1 = []
    for g in bases:
        d1.append(("map", ga.map_(g)))
        d1.append(("filter", ga.filter_(g)))
        d1.append(("mapv", ga.mapv_(g)))
    for g, h in itertools.product(bases, bases):
        d1.append(("zip", ga.zip_(g, h)))
        d1.append(("chain", ga.chain_(g, h)))
        d1.append(("nest", ga.nest_(g, h)))
    d2 = []
    pool1 = [x[1] for x in d1]
    for _ in range(400 if tier == "thorough" else 60):
        k = rnd.choice(["map", "filter", "zip", "chain", "nest", "mapv"])
        a, b = rnd.choice(pool1 + bases), rnd.choice(pool1 + bases)
        d2.append((k + "2", getattr(ga, k + "_")(a) if k in ("map", "filter", "mapv") else getattr(ga, k + "_")(a, b)))
    pool2 = [x[1] for x in d2]
    d3 = []
    for _ in range(200 if tier == "thorough" else 30):
        k = rnd.choice(["map", "filter", "zip", "chain", "nest"])
        a, b = rnd.choice(pool2), rnd.choice(pool1 + bases + pool2)
        d3.append((k + "3", getattr(ga, k + "_")(a) if k in ("map", "filter") else getattr(ga, k + "_")(a, b)))
    bodies = loop_bodies()
    placements = ["top", "fn", "twice", "rec", "tailfn"]
    out = []
    alld = ga.defs

    def needs_closure(needs):
        # transitive: a composed generator's defs are in ga.defs in creation order; include all referenced
        return needs

    def emit(name, pool, sample=None):
        ss = []
        combos = [(kind, g, b, p) for (kind, g) in pool for b in bodies for p in placements]
        if sample is not None and len(combos) > sample:
            combos = rnd.sample(combos, sample)
        for kind, g, b, p in combos:
            ss.append(c02_session(ids, g[0], g[1], alld, b[0], b[1], b[2], p, {"gen": kind, "g": pe(g[0])}))
        out.append((name, ss, ("value",)))

    emit("base", [("base", b) for b in bases], None if tier == "thorough" else 150)
    emit("depth1", d1, 6000 if tier == "thorough" else 350)
    emit("depth2", d2, 3000 if tier == "thorough" else 120)
    emit("depth3", d3, 1500 if tier == "thorough" else 60)
    # naked yield and multi-iterator lock-step with unequal lengths
    special = []
    for a, b, c in itertools.product([1, 2, 4], [0, 2, 3], [1, 3]):
        special.append(mk(ids, [GEN_DEFS["cnt"], assign("acc", lst([])),
                                fr(["p", "q", "r"], [call("cnt", I(a)), call("fromto", I(0), I(b)), call("cnt", I(c))],
                                   assign("acc", bin_("+", N("acc"), lst([N("p"), N("q"), N("r")])))), N("acc")], {"zip3": [a, b, c]}))
    special.append(mk(ids, [y(I(3)), GEN_DEFS["hy"], assign("f", fn([], block([assign("t", call("hy", I(4))), bin_("+", N("t"), I(1))]))), call("f")], {"naked": True}))
    out.append(("lockstep+naked", special, ("value",)))
    return out


# =============================================================== C03: purity under placements and histories

DEEP = assign("deep", fn(["n"], ife(bin_("==", N("n"), I(0)), I(0), bin_("+", I(1), call("deep", bin_("-", N("n"), I(1)))))))


def wide_fn(name, n, tail):
    vs = ["w" + "".join(chr(97 + int(c)) for c in str(i)) for i in range(n)]
    return assign(name, fn(["p"], block([assign(v, bin_("+", N("p"), I(i % 7))) for i, v in enumerate(vs)] + tail(vs)))), vs


def pure_family():
    """(name, definitions, call expression)"""
    fam = []
    fam.append(("sumsq", [assign("sumsq", fn(["n"], block([assign("acc", I(0)), fr(["i"], [call("fromto", I(0), N("n"))], assign("acc", bin_("+", N("acc"), bin_("*", N("i"), N("i"))))), N("acc")])))], call("sumsq", I(4))))
    fam.append(("fact", [assign("fact", fn(["n"], ife(bin_("<", N("n"), I(2)), I(1), bin_("*", N("n"), call("fact", bin_("-", N("n"), I(1)))))))], call("fact", I(5))))
    fam.append(("mkadd", [assign("mkadd", fn(["a"], fn(["b"], bin_("+", N("a"), N("b"))))), assign("useadd", fn(["n"], block([assign("h", call("mkadd", N("n"))), call("h", I(3))])))], call("useadd", I(4))))
    fam.append(("capupd", [DEEP, assign("capupd", fn(["d"], block([assign("x", I(0)), assign("g", fn([], N("x"))), call("deep", N("d")), assign("x", bin_("+", N("x"), I(1))), call("g")])))], call("capupd", I(3))))
    fam.append(("capupd200", [DEEP, assign("capupdb", fn(["d"], block([assign("x", I(0)), assign("g", fn([], N("x"))), call("deep", N("d")), assign("x", bin_("+", N("x"), I(1))), call("g")])))], call("capupdb", I(200))))
    fam.append(("genloop", [assign("evens", fn(["n"], fr(["i"], [call("fromto", I(0), N("n"))], iff(bin_("==", bin_("%", N("i"), I(2)), I(0)), y(N("i")))))),
                            assign("sumev", fn(["n"], block([assign("s", I(0)), fr(["e"], [call("evens", N("n"))], assign("s", bin_("+", N("s"), N("e")))), N("s")])))], call("sumev", I(7))))
    fam.append(("strs", [assign("rep", fn(["s", "n"], block([assign("o", St("")), fr(["i"], [call("fromto", I(0), N("n"))], assign("o", bin_("+", N("o"), N("s")))), N("o")])))], call("rep", St("ab"), I(3))))
    fam.append(("retclos", [assign("mkc", fn(["a"], block([assign("z", bin_("*", N("a"), I(2))), fn([], bin_("+", N("z"), N("a")))]))), assign("usec", fn(["n"], block([assign("c", call("mkc", N("n"))), call("c")])))], call("usec", I(5))))
    for n in (5, 130, 200):
        d, vs = wide_fn("wide%s" % "abc"[(5, 130, 200).index(n)], n, lambda vs: [assign("s", I(0)), fr(["i"], [call("fromto", I(0), N(vs[-1]))], assign("s", bin_("+", N("s"), I(1)))), bin_("+", N("s"), N(vs[0]))])
        fam.append(("wide%d" % n, [d], call(d["tgt"]["n"], I(2))))
    return fam


def placements(c):
    """(name, extra defs, item computing the same call c in a different dynamic context)"""
    return [
        ("top", [], c),
        ("array-twice", [], lst([c, c])),
        ("for-body", [], fr(["i"], [call("fromto", I(0), I(2))], c)),
        ("in-generator", [assign("gg", fn([], y(c)))], fr(["i"], [call("gg")], N("i"))),
        ("argument", [IDF], call("id", c)),
        ("depth5", [assign("dd", fn(["n"], ife(bin_("==", N("n"), I(0)), c, call("dd", bin_("-", N("n"), I(1))))))], call("dd", I(5))),
        ("depth200", [assign("de", fn(["n"], ife(bin_("==", N("n"), I(0)), c, call("de", bin_("-", N("n"), I(1))))))], call("de", I(200))),
        ("after-loop-same-stmt", [], block([fr(["q"], [call("fromto", I(0), I(2))], N("q")), c])),
        ("operand", [], bin_("+", I(0), c) if True else c),
    ]


def histories():
    return [
        ("none", []),
        ("small-loops", [fr(["h"], [call("fromto", I(0), I(3))], N("h")), fr(["h"], [call("elems", lst([I(1), I(2)]))], N("h"))]),
        ("deep-recursion", [DEEP, call("deep", I(300))]),
        ("runtime-error", [bin_("/", I(1), I(0))]),
        ("error-in-generator", [assign("bad", fn([], block([y(I(1)), bin_("/", I(1), I(0))]))), fr(["h"], [call("bad")], N("h"))]),
        ("many-statements", [assign("hv", bin_("+", I(k), I(1))) for k in range(40)]),
    ]


def c03_families(tier, seed, ids=None):
    ids = ids or Ids()
    fam = pure_family()
    out = []
    ss = []
    for (fname, defs, c), (hname, hist) in itertools.product(fam, histories()):
        if tier == "quick" and (hash((fname, hname, seed)) % 3 != 0) and hname not in ("none",):
            continue
        items = list(defs) + list(hist)
        seen_defs = set()
        for pname, pdefs, pitem in placements(c):
            for d in pdefs:
                if d["tgt"]["n"] not in seen_defs:
                    seen_defs.add(d["tgt"]["n"])
                    items.append(d)
            items.append(pitem)
        items.append(c)
        ss.append(mk(ids, items, {"fn": fname, "history": hname}))
    out.append(("pure-family x histories x placements", ss, ("value",)))
    # random pure functions called from several placements
    rs = []
    nrand = 40 if tier == "quick" else 1500
    for i in range(nrand):
        g = gens.G(seed * 7919 + i)
        gl = {}
        ctx = {"vars": {"p": "I"}, "infn": True, "isgen": False, "calls": False}
        body = g.stmts(ctx, 2, g.r.randint(1, 3))
        body = [b for b in body if not any(n["t"] == "call" and n["name"]["n"] in ("write", "read") for n in walk(b))]
        body.append(g.eI({"vars": {"p": "I"}, "infn": True, "isgen": False, "calls": False}, 2))
        c = call("pf", I(g.r.randint(0, 4)))
        items = [assign("pf", fn(["p"], block(body)))]
        seen_defs = set()
        for pname, pdefs, pitem in placements(c):
            for d in pdefs:
                if d["tgt"]["n"] not in seen_defs:
                    seen_defs.add(d["tgt"]["n"])
                    items.append(d)
            items.append(pitem)
        rs.append(mk(ids, items, {"fn": "random%d" % i}))
    out.append(("random pure functions x placements", rs, ("value",)))
    return out


def c02_nontrivial(v):
    # a generator resumed at least twice with a body in between: approximated from the session: a for loop over a
    # generator that yields >= 2 values, measured by the specification needing > 60 steps for the session
    return v.accept.get("steps", 0) > 60


c02_rule = ("generator algebra: base generators (builtins, while/yield, recursive, closure-capturing, helper-that-yields, value-of-yield) composed by "
            "map/filter/zip/chain/nest/value-using-map to depth 3, x loop bodies (arith, call, write, plain, return at 2nd iteration, inner loop) x placements "
            "(top level, in a function, twice in sequence, under recursion depth 3, as function tail); distinct by AST digest; non-trivial = the specification "
            "takes more than 60 steps (several resumes with a body between them)")


def c03_nontrivial(v):
    return len(v.session["items"]) >= 5


c03_rule = ("each session defines one side-effect-free function, runs a history (nothing / loops / deep recursion / runtime error / error inside a generator / "
            "40 statements), then calls it with the same argument from 9 placements (top, twice in an array, for body, inside a generator, argument, call depth 5 and 200, "
            "after a loop in the same statement, operand) and once more at the end; every call must return the specified value, hence equal values; "
            "non-trivial = at least 3 placements present")


# =============================================================== C04: lexical scoping and isolation

def pad_locals(n):
    return [assign("pd" + "".join(chr(97 + int(c)) for c in str(i)), I(i % 9)) for i in range(n)]


def c04_access(A, X):
    if A == "read":
        return [bin_("+", N(X), I(1))]
    if A == "write":
        return [assign(X, I(50))]
    if A == "rw":
        return [assign("tt", N(X)), assign(X, bin_("+", N("tt"), I(1)))]
    return [assign(X, I(60)), bin_("+", N(X), I(1))]


def c04_session(ids, K, A, V, flow, width):
    PROBE = lambda tag, names: wr(bin_("+", St(tag + "="), call("toa", lst([N(n) for n in names]))))
    items = [assign("gone", I(100)), assign("gtwo", lst([I(1), I(2)])), assign("v", I(5)),
             DEEP, assign("apply", fn(["fnv"], call("fnv")))]
    params = ["p"]
    body = pad_locals(width - 1)
    if K == "param":
        X = "p"
    elif K == "local":
        X = "x"
        body.append(assign("x", I(7)))
    elif K == "forvar":
        X = "x"
        body.append(fr(["x"], [call("fromto", I(7), I(8))], I(0)))
    else:
        X = "v"                       # shadows the global v
        body.append(assign("v", I(7)))
    acc = c04_access(A, X)
    if V == "direct":
        body += acc
    elif V == "closure1":
        body += [assign("h", fn([], block(acc))), wr(call("toa", call("h")))]
    elif V == "closure2":
        # two levels up is not visible: the innermost function sees the global (or nil)
        body += [assign("h", fn([], block([assign("k", fn([], block(c04_access("read", X)))), call("k")]))),
                 wr(call("toa", lst([call("h")]))) if K == "shadow" else call("h")]
    else:   # recursion: every activation has its own X
        body += [iff(bin_(">", N("p"), I(0)), wr(call("toa", call("ff", bin_("-", N("p"), I(1))))))] + acc
    body.append(PROBE("in", [X, "gone", "gtwo"]))
    g = fn([], N(X))
    if flow == "none":
        body.append(N(X))
        use = [call("ff", I(2))]
    elif flow == "down":
        body.append(call("apply", g))
        use = [call("ff", I(2))]
    elif flow == "up":
        body += [assign("g", g), assign(X, bin_("+", N(X), I(1000))), N("g")]
        use = [assign("kk", call("ff", I(2))), call("deep", I(40)), call("kk")]
    elif flow == "array":
        body += [assign("g", g), assign(X, bin_("+", N(X), I(1000))), lst([N("g")])]
        use = [assign("ka", call("ff", I(2))), call("deep", I(40)), assign("kk", ix1(N("ka"), I(0))), call("kk")]
    elif flow == "nested":
        body += [assign("g", g), lst([lst([N("g"), I(1)])])]
        use = [assign("ka", call("ff", I(2))), call("deep", I(40)), assign("kk", ix1(ix1(N("ka"), I(0)), I(0))), call("kk")]
    else:  # stored
        body += [g]
        use = [assign("kk", call("ff", I(2))), call("deep", I(60)), fr(["z"], [call("fromto", I(0), I(3))], N("z")), call("kk"), call("kk")]
    items.append(assign("ff", fn(params, block(body))))
    # caller with its own variables; probes before and after the call
    caller = fn([], block([assign("a", I(1)), assign("b", lst([I(3)])), PROBE("before", ["a", "b", "gone", "gtwo", "v"]),
                           assign("r", use[0]) if use[0]["t"] != "assign" else use[0],
                           PROBE("after", ["a", "b", "gone", "gtwo", "v"]), N("a")]))
    items += [assign("cc", caller), call("cc")]
    items += use
    items += [lst([N("gone"), N("gtwo"), N("v")])]
    return mk(ids, items, {"K": K, "A": A, "V": V, "flow": flow, "width": width})


def c04_families(tier, seed, ids=None):
    ids = ids or Ids()
    rnd = random.Random(seed)
    combos = list(itertools.product(["param", "local", "forvar", "shadow"], ["read", "write", "rw", "wr"],
                                    ["direct", "closure1", "closure2", "recursion"], ["none", "down", "up", "array", "nested", "stored"], [1, 3, 130]))
    if tier == "quick":
        combos = rnd.sample(combos, 220)
    ss = [c04_session(ids, *c) for c in combos]
    out = [("scoping shapes", ss, ("value",))]
    rs = gens.random_sessions(60 if tier == "quick" else 3000, seed, "c04", first_id=500000)
    out.append(("random nestings", rs, ("value",)))
    return out


def c04_nontrivial(v):
    return True


c04_rule = ("scoping shapes: variable kind {param, local, for-variable, shadowed global} x access {read, write, read-then-write, write-then-read} x "
            "{direct, one closure level, two levels, recursion} x function-value flow {none, passed down, returned up, returned in an array, in a nested array, "
            "stored then called after unrelated deep calls} x locals per function {1, 3, 130}, with write probes of caller variables and globals before and after "
            "each call; plus random closure-heavy sessions; every session is distinct by construction and non-trivial (a call happens while caller locals and globals are live)")


# =============================================================== C05: no accepted program crashes the interpreter

TYPED_ATOMS = {"I0": I(0), "I3": I(3), "IN": I(-2), "F": Fl(3, 1), "B": Bo(True), "S": St("ab"), "A": lst([I(1), I(2)]), "NIL": N("nn"), "FN": N("id")}
ALL_BINOPS = ["+", "-", "*", "/", "%", "<", ">", "<=", ">=", "==", "!=", "&", "|", "&&", "||", "<<", ">>"]


def sourced(kind, atom, name):
    """returns (prelude items, expression, wrapper) placing atom behind an operand source"""
    if kind == "const":
        return [], atom
    if kind == "global":
        return [assign(name, atom)] if atom != N("nn") else [], (N(name) if atom != N("nn") else N("nn"))
    if kind == "call":
        return [], call("id", atom)
    return [], atom


def c05_families(tier, seed, ids=None):
    ids = ids or Ids()
    rnd = random.Random(seed)
    out = []
    ss = []
    names = list(TYPED_ATOMS)
    combos = []
    for op in ALL_BINOPS:
        for a in names:
            for b in names:
                combos.append((op, a, b))
    srcs = [("const", "const"), ("global", "const"), ("const", "global"), ("call", "call"), ("global", "call")]
    for (op, a, b) in combos:
        for (sa, sb) in (srcs if tier == "thorough" else [srcs[hash((op, a, b, seed)) % len(srcs)]]):
            pa, ea = sourced(sa, TYPED_ATOMS[a], "ga")
            pb_, eb = sourced(sb, TYPED_ATOMS[b], "gb")
            e = bin_(op, ea, eb)
            items = [IDF] + pa + pb_ + [e, assign("lf", fn([], block([assign("la", ea), assign("lb", eb) if TYPED_ATOMS[b] != N("nn") else assign("lb", I(1)), bin_(op, N("la"), N("lb") if TYPED_ATOMS[b] != N("nn") else eb)]))), call("lf"),
                                        assign("cf", fn([], block([assign("la", ea), assign("h", fn([], bin_(op, N("la"), eb))), call("h")]))), call("cf"), I(1)]
            ss.append(mk(ids, items, {"op": op, "a": a, "b": b, "src": [sa, sb]}))
    out.append(("binary operator x type pair x operand source", ss, ("nocrash",)))
    us = []
    for op in UNOPS:
        for a in names:
            x = TYPED_ATOMS[a]
            us.append(mk(ids, [IDF, un(op, x), un(op, call("id", x)), bin_("+", un(op, x), I(1)) if True else x, I(1)], {"un": op, "a": a}))
    for a in names:
        for b in names:
            x, z = TYPED_ATOMS[a], TYPED_ATOMS[b]
            us.append(mk(ids, [IDF, ix1(x, z), ix2(x, z, I(1)), ix2(x, I(0), z), lst([x, z]), iff(x, z), wh(x, ret(z)), call("id", x, z) if False else call("id", x),
                               assign("cl", x) if a != "NIL" else I(0), call("cl") if a != "NIL" else I(0), call("cl", z) if a != "NIL" else I(0), y(x), ret(z), I(1)], {"positions": [a, b]}))
    out.append(("unary, index, slice, element, condition, call-target, arity positions", us, ("nocrash",)))
    ex = []
    extreme = [bin_("<<", I(1), I(64)), bin_("<<", I(1), I(-1)), bin_(">>", I(1), I(100)), bin_(">>", I(-1), I(1)), bin_("<<", I(-1), I(63)),
               bin_("/", Fl(1, 0), Fl(0, 0)), bin_("/", Fl(0, 0), Fl(0, 0)), bin_("%", I(5), I(0)), bin_("/", I(5), I(0)),
               {"t": "bigint", "txt": "9223372036854775807"}, bin_("+", {"t": "bigint", "txt": "9223372036854775807"}, I(1)),
               bin_("/", bin_("-", un("-", {"t": "bigint", "txt": "9223372036854775807"}), I(1)), I(-1)),
               bin_("%", bin_("-", un("-", {"t": "bigint", "txt": "9223372036854775807"}), I(1)), I(-1)),
               bin_("*", {"t": "bigint", "txt": "4611686018427387904"}, I(4)),
               ix1(St("ab"), {"t": "bigint", "txt": "9223372036854775807"}), ix2(lst([I(1)]), I(-1), {"t": "bigint", "txt": "9223372036854775807"}),
               call("toa", bin_("/", Fl(1, 0), Fl(0, 0))), call("aton", St("1e999")), call("aton", St("9223372036854775808")), call("aton", St("-")),
               call("fromto", I(0), Fl(5, 1)), call("elems", I(3)), call("indices", N("nn")), call("write"), call("toa", I(1), I(2)), call("read", I(1))]
    for e in extreme:
        ex.append(mk(ids, [e, I(1)], {"extreme": True}))
    out.append(("extreme literals, shift counts, float specials, builtin misuse", ex, ("nocrash",)))
    # every statement form as last statement of a function / loop body / while ending in return
    forms = [I(1), assign("t", I(2)), iff(Bo(True), I(3)), iff(Bo(False), I(3)), ife(Bo(True), I(4), I(5)), wh(Bo(False), I(6)),
             wh(Bo(True), ret(I(7))), fr(["w"], [call("fromto", I(0), I(2))], N("w")), fr(["w"], [call("fromto", I(0), I(2))], ret(N("w"))),
             block([I(8), I(9)]), y(I(10)), ret(I(11)), fn([], I(12)), call("id", I(13)), lst([I(1), bin_("+", N("gx"), I(1))]),
             iff(bin_(">", N("gx"), I(0)), iff(bin_(">", N("gx"), I(5)), ret(I(1)))), ife(bin_(">", N("gx"), I(0)), iff(bin_(">", N("gx"), I(5)), ret(I(1))), I(2))]
    sf = []
    for f in forms:
        sf.append(mk(ids, [IDF, assign("gx", I(1)), assign("g", fn([], f)), call("g"),
                           assign("gb", fn([], block([I(0), f]))), call("gb"),
                           assign("gc", fn(["c"], block([assign("k", I(0)), wh(bin_("<", N("k"), I(2)), block([assign("k", bin_("+", N("k"), I(1))), f]))]))), call("gc", I(1)),
                           assign("gd", fn([], fr(["q"], [call("fromto", I(0), I(2))], f))), call("gd"),
                           assign("ge", fn(["c"], ife(N("c"), f, f))), call("ge", Bo(True)), call("ge", Bo(False)),
                           assign("gf", fn(["c"], iff(N("c"), f))), call("gf", Bo(True)), call("gf", Bo(False)),
                           f, block([f, I(0)]), I(1)], {"form": ps(f)[:40]}))
    out.append(("statement forms in tail / body / branch positions", sf, ("nocrash",)))
    nr = 300 if tier == "quick" else 12000
    out.append(("random ill-typed sessions", gens.random_sessions(nr, seed, "c05", p_ill=0.25, first_id=600000), ("nocrash",)))
    return out


def c05_nontrivial(v):
    return any(n["t"] in ("bin", "un", "ix1", "ix2", "call") for it in v.session["items"] if not it.get("perr") for n in walk(it))


c05_rule = ("adversarial enumeration: 17 binary operators x 9x9 operand type pairs (incl. nil and function) x operand sources (constant, global, local, captured, call result); "
            "unary/index/slice/array-element/condition/call-target/arity positions over all type pairs; extreme literals, shift counts, float specials, builtin misuse; "
            "17 statement forms as tail of function / block / while body / for body / branches / top level; seeded random sessions with 25% type confusion. "
            "non-trivial = contains an operator, index or call; verdict = the real run ends in a value or a documented runtime error (no panic, no hang, no abort)")
