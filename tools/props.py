"""Per-property families of sessions (DESIGN.md section 5): each function returns a list of
(family name, sessions, cmp aspects[, mode]) aimed at that property's quantifier."""
import random, itertools
from astlib import *
import gens

W = lambda s: wr(St(s))          # write probe


def shash(x):
    """stable hash (Python's hash() of strings changes from process to process)"""
    import zlib
    return zlib.crc32(repr(x).encode())


class Ids:
    def __init__(self, start=1):
        self.n = start - 1

    def next(self):
        self.n += 1
        return self.n


def mk(ids, items, meta=None, stdin=None, **kw):
    s = {"id": ids.next(), "items": items, "stdin": stdin or [], "meta": meta or {}}
    s.update(kw)
    return s


# =============================================================== C02: generator algebra

IDF = assign("id", fn(["v"], N("v")))
DBL = assign("dbl", fn(["v"], bin_("*", N("v"), I(2))))
GEN_DEFS = {
    "cnt": assign("cnt", fn(["n"], block([assign("i", I(0)), wh(bin_("<", N("i"), N("n")), block([W("<"), y(N("i")), W(">"), assign("i", bin_("+", N("i"), I(1)))]))]))),
    "recg": assign("recg", fn(["n"], iff(bin_(">", N("n"), I(0)), block([call("recg", bin_("-", N("n"), I(1))), y(N("n"))])))),
    "mkg": assign("mkg", fn(["x"], fn([], block([y(N("x")), W("r"), y(bin_("+", N("x"), I(1)))])))),
    "hy": assign("hy", fn(["v"], y(N("v")))),
    "viah": assign("viah", fn(["n"], block([call("hy", N("n")), call("hy", bin_("+", N("n"), I(1)))]))),
    "kfive": assign("kfive", fn([], y(I(5)))),
    "useval": assign("useval", fn([], block([assign("v", call("kfive")), y(bin_("+", N("v"), I(100)))]))),
    "condg": assign("condg", fn(["n"], block([iff(bin_(">", N("n"), I(1)), y(I(7))), ife(bin_("==", N("n"), I(0)), y(I(8)), block([y(I(9)), y(N("n"))]))]))),
    "empty": assign("empty", fn([], I(0))),
}
GEN_DEFS["cgen"] = assign("cgen", call("mkg", I(10)))


def base_gens():
    """(call expression, names of the definitions it needs)"""
    return [
        (call("fromto", I(1), I(4)), []),
        (call("elems", lst([I(4), I(2), I(6)])), []),
        (call("indices", St("abc")), []),
        (call("cnt", I(3)), ["cnt"]),
        (call("recg", I(3)), ["recg"]),
        (call("cgen"), ["mkg", "cgen"]),
        (call("viah", I(20)), ["hy", "viah"]),
        (call("useval"), ["kfive", "useval"]),
        (call("condg", I(2)), ["condg"]),
        (call("empty"), ["empty"]),
        (call("fromto", I(3), I(3)), []),
    ]


class GenAlg:
    """compositions map/filter/zip/chain/nest of generators, each wrapped into a fresh top-level function"""

    def __init__(self):
        self.k = 0
        self.defs = []

    def fresh(self):
        self.k += 1
        n, out = self.k, ""
        while True:
            out = chr(97 + n % 26) + out
            n //= 26
            if n == 0:
                break
        return "cg" + out + "q"

    def wrap(self, body, needs):
        nm = self.fresh()
        self.defs.append((nm, assign(nm, fn([], body))))
        return call(nm), needs + [nm]

    def map_(self, g):
        return self.wrap(fr(["x"], [g[0]], y(call("dbl", N("x")))), g[1] + ["dbl"])

    def filter_(self, g):
        return self.wrap(fr(["x"], [g[0]], iff(bin_("==", bin_("%", N("x"), I(2)), I(0)), y(N("x")))), g[1])

    def zip_(self, g, h):
        return self.wrap(fr(["x", "yy"], [g[0], h[0]], y(bin_("+", bin_("*", N("x"), I(100)), N("yy")))), g[1] + h[1])

    def chain_(self, g, h):
        return self.wrap(block([fr(["x"], [g[0]], y(N("x"))), fr(["x"], [h[0]], y(N("x")))]), g[1] + h[1])

    def nest_(self, g, h):
        return self.wrap(fr(["x"], [g[0]], fr(["yy"], [h[0]], y(bin_("+", bin_("*", N("x"), I(100)), N("yy"))))), g[1] + h[1])

    def mapv_(self, g):
        # the value of the yield expression is used after the resume
        return self.wrap(fr(["x"], [g[0]], block([assign("t", call("hy", bin_("+", N("x"), I(1)))), wr(N("t"))])), g[1] + ["hy"])


def loop_bodies():
    """(name, body over loop variable q, needs)"""
    return [
        ("arith", assign("acc", bin_("+", N("acc"), lst([bin_("+", bin_("*", bin_("+", N("q"), I(1)), I(2)), I(3))]))), []),
        ("call", assign("acc", bin_("+", N("acc"), lst([call("id", N("q"))]))), ["id"]),
        ("write", block([wr(N("q")), W(",")]), []),
        ("plain", assign("acc", bin_("+", N("acc"), lst([N("q")]))), []),
        ("ret2", block([assign("acc", bin_("+", N("acc"), lst([N("q")]))), iff(bin_(">", un("#", N("acc")), I(1)), ret(N("acc")))]), []),
        ("inner", fr(["w"], [call("fromto", I(0), I(2))], assign("acc", bin_("+", N("acc"), lst([bin_("+", N("q"), N("w"))])))), []),
    ]


def c02_session(ids, gexpr, needs, defs, bname, body, bneeds, placement, meta):
    alldefs = {"id": IDF, "dbl": DBL}
    alldefs.update(GEN_DEFS)
    alldefs.update(dict(defs))
    order = []
    for n in needs + bneeds:
        if n not in order:
            order.append(n)
    # definitions must precede uses only at run time; keep dependency order of `needs`
    items = [alldefs[n] for n in order]
    loop = fr(["q"], [gexpr], body)
    if placement == "top":
        items += [assign("acc", lst([])), loop, N("acc"), N("q")]
    elif placement == "fn":
        items += [assign("run", fn([], block([assign("acc", lst([])), loop, N("acc")]))), call("run")]
    elif placement == "twice":
        items += [assign("acc", lst([])), loop, loop, N("acc")]
    elif placement == "rec":
        items += [assign("run", fn(["d"], ife(bin_(">", N("d"), I(0)), call("run", bin_("-", N("d"), I(1))), block([assign("acc", lst([])), loop, N("acc")])))), call("run", I(3))]
    elif placement == "tailfn":
        items += [assign("run", fn([], block([assign("acc", lst([])), loop]))), call("run")]
    return mk(ids, items, dict(meta, body=bname, placement=placement))


def c02_families(tier, seed, ids=None):
    ids = ids or Ids()
    rnd = random.Random(seed)
    ga = GenAlg()
    bases = base_gens()
    d1 = []
    for g in bases:
        d1.append(("map", ga.map_(g)))
        d1.append(("filter", ga.filter_(g)))
        d1.append(("mapv", ga.mapv_(g)))
    for g, h in itertools.product(bases, bases):
        d1.append(("zip", ga.zip_(g, h)))
        d1.append(("chain", ga.chain_(g, h)))
        d1.append(("nest", ga.nest_(g, h)))
    d2 = []
    pool1 = [x[1] for x in d1]
    for _ in range(400 if tier == "thorough" else 60):
        k = rnd.choice(["map", "filter", "zip", "chain", "nest", "mapv"])
        a, b = rnd.choice(pool1 + bases), rnd.choice(pool1 + bases)
        d2.append((k + "2", getattr(ga, k + "_")(a) if k in ("map", "filter", "mapv") else getattr(ga, k + "_")(a, b)))
    pool2 = [x[1] for x in d2]
    d3 = []
    for _ in range(200 if tier == "thorough" else 30):
        k = rnd.choice(["map", "filter", "zip", "chain", "nest"])
        a, b = rnd.choice(pool2), rnd.choice(pool1 + bases + pool2)
        d3.append((k + "3", getattr(ga, k + "_")(a) if k in ("map", "filter") else getattr(ga, k + "_")(a, b)))
    bodies = loop_bodies()
    placements = ["top", "fn", "twice", "rec", "tailfn"]
    out = []
    alld = ga.defs

    def needs_closure(needs):
        # transitive: a composed generator's defs are in ga.defs in creation order; include all referenced
        return needs

    def emit(name, pool, sample=None):
        ss = []
        combos = [(kind, g, b, p) for (kind, g) in pool for b in bodies for p in placements]
        if sample is not None and len(combos) > sample:
            combos = rnd.sample(combos, sample)
        for kind, g, b, p in combos:
            ss.append(c02_session(ids, g[0], g[1], alld, b[0], b[1], b[2], p, {"gen": kind, "g": pe(g[0])}))
        out.append((name, ss, ("value",)))

    emit("base", [("base", b) for b in bases], None if tier == "thorough" else 150)
    emit("depth1", d1, 6000 if tier == "thorough" else 350)
    emit("depth2", d2, 3000 if tier == "thorough" else 120)
    emit("depth3", d3, 1500 if tier == "thorough" else 60)
    # naked yield and multi-iterator lock-step with unequal lengths
    special = []
    for a, b, c in itertools.product([1, 2, 4], [0, 2, 3], [1, 3]):
        special.append(mk(ids, [GEN_DEFS["cnt"], assign("acc", lst([])),
                                fr(["p", "q", "r"], [call("cnt", I(a)), call("fromto", I(0), I(b)), call("cnt", I(c))],
                                   assign("acc", bin_("+", N("acc"), lst([N("p"), N("q"), N("r")])))), N("acc")], {"zip3": [a, b, c]}))
    special.append(mk(ids, [y(I(3)), GEN_DEFS["hy"], assign("f", fn([], block([assign("t", call("hy", I(4))), bin_("+", N("t"), I(1))]))), call("f")], {"naked": True}))
    # early return out of a multi-iterator loop, then further loops (some with an empty first iterator) in the same statement
    cnt3 = assign("cntt", fn([], block([y(I(1)), y(I(2)), y(I(3))])))
    none = assign("none", fn([], I(0)))
    for k_it in (2, 3):
        vs_ = ["a", "b", "c"][:k_it]
        for ret_at in (1, 2):
            head = assign("head", fn(["ia", "ib", "ic"][:k_it], block([fr(vs_, [call(x) for x in ["ia", "ib", "ic"][:k_it]], iff(bin_("==", N("a"), I(ret_at)), ret(lst([N(v) for v in vs_])))), St("none")])))
            for empty_pos in range(k_it + 1):
                its = ["cntt"] * k_it
                its2 = list(its)
                if empty_pos < k_it:
                    its2[empty_pos] = "none"
                main = assign("main", fn([], block([assign("acc", lst([call("head", *[N(x) for x in its])])),
                                                    fr(["x"], [call("cntt")], block([assign("h", call("head", *[N(x) for x in its2])), assign("acc", bin_("+", N("acc"), lst([N("x"), N("h")]))),
                                                                                     fr(["yy"], [call("cntt")], assign("acc", bin_("+", N("acc"), lst([N("yy")]))))])),
                                                    N("acc")])))
                special.append(mk(ids, [cnt3, none, head, main, call("main"), call("main")], {"early_return_then_loops": [k_it, ret_at, empty_pos]}))
    out.append(("lockstep+naked", special, ("value",)))
    # loops written directly inside the bodies of loops: k1 outer iterators x k2 inner iterators (x an innermost loop), the inner loop first / last /
    # only under a condition in the outer body; at top level, in a function, in a generator consumed by another loop
    nm = []
    plain = [lambda lo: call("cnt", I(lo + 3)), lambda lo: call("fromto", I(lo), I(lo + 3)), lambda lo: call("elems", lst([I(lo + 7), I(lo + 8), I(lo + 9), I(lo + 10)]))]
    # generators that open a loop of their own before their first yield (map / chain / filter over another generator)
    composed = [lambda lo: call("mapg", I(lo)), lambda lo: call("chg", I(lo)), lambda lo: call("fltg", I(lo))]
    cdefs = [assign("mapg", fn(["lo"], fr(["x"], [call("fromto", N("lo"), bin_("+", N("lo"), I(3)))], y(bin_("*", N("x"), I(2)))))),
             assign("chg", fn(["lo"], block([fr(["x"], [call("fromto", N("lo"), bin_("+", N("lo"), I(1)))], y(N("x"))), fr(["x"], [call("cnt", I(2))], y(bin_("+", N("x"), I(50))))]))),
             assign("fltg", fn(["lo"], fr(["x"], [call("fromto", N("lo"), bin_("+", N("lo"), I(6)))], iff(bin_("==", bin_("%", N("x"), I(2)), I(0)), y(N("x"))))))]
    for k1, k2, k3, pos, where, kind in itertools.product((1, 2, 3), (1, 2), (0, 1), ("first", "last", "cond"), ("top", "fn", "gen", "topblock"), ("plain", "composed")):
        if tier == "quick" and shash((k1, k2, k3, pos, where, kind, seed)) % 4 != 0 and not (k1 >= 2 and k3 == 0 and pos == "last") and not (kind == "composed" and where in ("top", "topblock") and k3 == 0 and pos != "cond"):
            continue
        srcs = plain if kind == "plain" else composed
        ov = ["oa", "ob", "oc"][:k1]
        iv = ["ia", "ib"][:k2]
        rec = assign("acc", bin_("+", N("acc"), lst([lst([N(v) for v in ov + iv] + ([N("z")] if k3 else []))]))) if where != "gen" else y(lst([N(v) for v in ov + iv] + ([N("z")] if k3 else [])))
        innermost = fr(["z"], [call("fromto", I(0), I(2))], rec) if k3 else rec
        inner = fr(iv, [srcs[(j + 1) % 3](j) for j in range(k2)], innermost)
        mark = assign("acc", bin_("+", N("acc"), lst([N(ov[0])]))) if where != "gen" else y(N(ov[0]))
        body = {"first": block([inner, mark]), "last": block([mark, inner]), "cond": block([mark, iff(bin_("==", bin_("%", N(ov[0]), I(2)), I(1)), inner)])}[pos]
        outer = fr(ov, [srcs[j % 3](j) for j in range(k1)], body)
        if where == "top":
            items = [GEN_DEFS["cnt"]] + cdefs + [assign("acc", lst([])), outer, N("acc"), assign("acc", lst([])), outer, N("acc")]
        elif where == "topblock":
            # one top-level statement that runs the nest, then further loops over the same kinds of generator, one after the other
            items = [GEN_DEFS["cnt"]] + cdefs + [assign("acc", lst([])), block([outer, fr(["e"], [srcs[0](1)], assign("acc", bin_("+", N("acc"), lst([N("e")])))),
                                                                               fr(["e", "g"], [srcs[1](2), srcs[2](3)], assign("acc", bin_("+", N("acc"), lst([N("e"), N("g")])))), N("acc")]), N("acc")]
        elif where == "fn":
            items = [GEN_DEFS["cnt"]] + cdefs + [assign("run", fn([], block([assign("acc", lst([])), outer, N("acc")]))), call("run"), call("run")]
        else:
            items = [GEN_DEFS["cnt"]] + cdefs + [assign("gen", fn([], outer)), assign("acc", lst([])), fr(["e"], [call("gen")], assign("acc", bin_("+", N("acc"), lst([N("e")])))), N("acc"),
                     assign("col", fn([], block([assign("a", lst([])), fr(["e", "n"], [call("gen"), call("fromto", I(0), I(9))], assign("a", bin_("+", N("a"), lst([N("e"), N("n")])))), N("a")]))), call("col")]
        nm.append(mk(ids, items, {"nest": [k1, k2, k3, pos, where, kind]}))
    out.append(("loops nested directly in loop bodies: iterator counts x position x placement", nm, ("value",)))
    # laziness seen from the generator's side: a generator that re-reads a global (with nothing but locals in between) sees what the loop
    # body assigned to it before the generator was resumed -- a moved bound, a work list the body appends to, through composed generators,
    # in lock-step loops, and again after the loop ended (recycled contexts)
    lz = []
    upto = assign("upto", fn([], block([assign("i", I(0)), wh(bin_("<", N("i"), N("limit")), block([y(N("i")), assign("i", bin_("+", N("i"), I(1)))]))])))
    dbl = assign("dblg", fn([], fr(["v"], [call("upto")], y(bin_("*", N("v"), I(2))))))
    work = assign("work", fn([], block([assign("k", I(0)), wh(bin_("<", N("k"), un("#", N("queue"))), block([y(ix1(N("queue"), N("k"))), assign("k", bin_("+", N("k"), I(1)))]))])))
    span = assign("spang", fn(["lo"], block([assign("j", N("lo")), wh(bin_("<", bin_("-", N("j"), N("lo")), N("limit")), block([y(N("j")), assign("j", bin_("+", N("j"), I(1)))]))])))
    steady = assign("steady", fn([], block([assign("i", I(0)), wh(bin_("<", N("i"), I(4)), block([y(bin_("+", N("bias"), N("i"))), assign("i", bin_("+", N("i"), I(1)))]))])))
    rec_ = lambda e: assign("acc", bin_("+", N("acc"), lst([e])))
    cases = {
        "moved bound": [upto, assign("limit", I(3)), assign("acc", lst([])), fr(["v"], [call("upto")], block([rec_(N("v")), iff(bin_("==", N("v"), I(1)), assign("limit", I(6)))])), N("acc"), N("limit")],
        "bound lowered": [upto, assign("limit", I(9)), assign("acc", lst([])), fr(["v"], [call("upto")], block([rec_(N("v")), iff(bin_("==", N("v"), I(2)), assign("limit", I(0)))])), N("acc")],
        "composed generator": [upto, dbl, assign("limit", I(3)), assign("acc", lst([])), fr(["v"], [call("dblg")], block([rec_(N("v")), iff(bin_("==", N("v"), I(2)), assign("limit", I(5)))])), N("acc")],
        "work list": [work, assign("queue", lst([I(1)])), assign("acc", lst([])), fr(["v"], [call("work")], block([rec_(N("v")), iff(bin_("<", N("v"), I(6)), assign("queue", bin_("+", N("queue"), lst([bin_("*", N("v"), I(2)), bin_("+", bin_("*", N("v"), I(2)), I(1))]))))])), N("acc"), N("queue")],
        "lock-step": [span, assign("limit", I(2)), assign("acc", lst([])), fr(["p", "q"], [call("spang", I(0)), call("spang", I(10))], block([rec_(lst([N("p"), N("q")])), iff(bin_("==", N("p"), I(1)), assign("limit", I(4)))])), N("acc")],
        "value read on every resumption": [steady, assign("bias", I(0)), assign("acc", lst([])), fr(["v"], [call("steady")], block([rec_(N("v")), assign("bias", bin_("+", N("bias"), I(10)))])), N("acc")],
        "again after the loop ended": [upto, assign("limit", I(2)), assign("acc", lst([])), fr(["v"], [call("upto")], rec_(N("v"))), assign("limit", I(4)), fr(["v"], [call("upto")], block([rec_(N("v")), iff(bin_("==", N("v"), I(0)), assign("limit", I(5)))])), N("acc"),
                                       assign("limit", I(1)), fr(["v", "w"], [call("upto"), call("upto")], block([rec_(N("v")), assign("limit", I(3))])), N("acc")],
    }
    for cname, items in cases.items():
        lz.append(mk(ids, items, {"lazy-global": cname, "where": "top"}))
        # the same statements inside one top-level block (one statement, one compilation)
        defs = [it for it in items if it["t"] == "assign" and it["e"]["t"] == "fn"]
        rest = [it for it in items if not (it["t"] == "assign" and it["e"]["t"] == "fn")]
        lz.append(mk(ids, defs + [block(rest)], {"lazy-global": cname, "where": "block"}))
    out.append(("generators that re-read a global the loop body assigns", lz, ("value",)))
    # loops whose whole body is `yield <one of the loop's variables>`: re-yielding generators (take the first n, pair up, pass through), with one
    # to three iterators, yielding the first, second or last variable; the traced source shows how far each iterator was driven
    ry = []
    six = assign("six", fn([], block([assign("i", I(0)), wh(bin_("<", N("i"), I(6)), block([W("<"), y(N("i")), assign("i", bin_("+", N("i"), I(1)))]))])))
    shapes = {
        "pass through": fn(["g"], fr(["e"], [call("g")], y(N("e")))),
        "take n, yield first": fn(["n", "g"], fr(["e", "k"], [call("g"), call("fromto", I(0), N("n"))], y(N("e")))),
        "take n, yield second": fn(["n", "g"], fr(["k", "e"], [call("fromto", I(0), N("n")), call("g")], y(N("e")))),
        "counter first, yield counter": fn(["n", "g"], fr(["k", "e"], [call("fromto", I(0), N("n")), call("g")], y(N("k")))),
        "three iterators, yield first": fn(["n", "g"], fr(["e", "k", "z"], [call("g"), call("fromto", I(0), N("n")), call("elems", St("abcd"))], y(N("e")))),
        "three iterators, yield last": fn(["n", "g"], fr(["k", "z", "e"], [call("fromto", I(0), N("n")), call("elems", St("abcd")), call("g")], y(N("e")))),
        "yield first inside a block": fn(["n", "g"], fr(["e", "k"], [call("g"), call("fromto", I(0), N("n"))], block([y(N("e"))]))),
    }
    for sname, f in shapes.items():
        for n in (0, 2, 3, 9):
            use = call("tk", N("six")) if sname == "pass through" else call("tk", I(n), N("six"))
            items = [six, assign("tk", f), assign("acc", lst([])), fr(["v"], [use], assign("acc", bin_("+", N("acc"), lst([N("v")])))), N("acc"),
                     assign("acc", lst([])), fr(["v", "c"], [use, call("elems", St("xy"))], assign("acc", bin_("+", N("acc"), lst([N("v"), N("c")])))), N("acc"),
                     assign("col", fn([], block([assign("a", lst([])), fr(["v"], [use], assign("a", bin_("+", N("a"), lst([N("v")])))), N("a")]))), call("col"), call("col")]
            ry.append(mk(ids, items, {"reyield": sname, "n": n}))
            if sname == "pass through":
                break
    out.append(("loops whose whole body is a yield of a loop variable", ry, ("value",)))
    # what a loop binds when its iterator expressions mention a name that is also one of its own variables (the expression sees the
    # enclosing variable): the family is shared with C04
    shared = [f for f in c04_families(tier, seed, Ids(8000000)) if f[0].startswith("a statement introduces a name")]
    out.append(("iterator expressions that mention the loop's own variable names", shared[0][1], ("value",)))
    return out


# =============================================================== C03: purity under placements and histories

DEEP = assign("deep", fn(["n"], ife(bin_("==", N("n"), I(0)), I(0), bin_("+", I(1), call("deep", bin_("-", N("n"), I(1)))))))


def wide_fn(name, n, tail):
    vs = ["w" + "".join(chr(97 + int(c)) for c in str(i)) for i in range(n)]
    return assign(name, fn(["p"], block([assign(v, bin_("+", N("p"), I(i % 7))) for i, v in enumerate(vs)] + tail(vs)))), vs


def pure_family():
    """(name, definitions, call expression)"""
    fam = []
    fam.append(("sumsq", [assign("sumsq", fn(["n"], block([assign("acc", I(0)), fr(["i"], [call("fromto", I(0), N("n"))], assign("acc", bin_("+", N("acc"), bin_("*", N("i"), N("i"))))), N("acc")])))], call("sumsq", I(4))))
    fam.append(("fact", [assign("fact", fn(["n"], ife(bin_("<", N("n"), I(2)), I(1), bin_("*", N("n"), call("fact", bin_("-", N("n"), I(1)))))))], call("fact", I(5))))
    fam.append(("mkadd", [assign("mkadd", fn(["a"], fn(["b"], bin_("+", N("a"), N("b"))))), assign("useadd", fn(["n"], block([assign("h", call("mkadd", N("n"))), call("h", I(3))])))], call("useadd", I(4))))
    fam.append(("capupd", [DEEP, assign("capupd", fn(["d"], block([assign("x", I(0)), assign("g", fn([], N("x"))), call("deep", N("d")), assign("x", bin_("+", N("x"), I(1))), call("g")])))], call("capupd", I(3))))
    fam.append(("capupd200", [DEEP, assign("capupdb", fn(["d"], block([assign("x", I(0)), assign("g", fn([], N("x"))), call("deep", N("d")), assign("x", bin_("+", N("x"), I(1))), call("g")])))], call("capupdb", I(200))))
    fam.append(("genloop", [assign("evens", fn(["n"], fr(["i"], [call("fromto", I(0), N("n"))], iff(bin_("==", bin_("%", N("i"), I(2)), I(0)), y(N("i")))))),
                            assign("sumev", fn(["n"], block([assign("s", I(0)), fr(["e"], [call("evens", N("n"))], assign("s", bin_("+", N("s"), N("e")))), N("s")])))], call("sumev", I(7))))
    fam.append(("strs", [assign("rep", fn(["s", "n"], block([assign("o", St("")), fr(["i"], [call("fromto", I(0), N("n"))], assign("o", bin_("+", N("o"), N("s")))), N("o")])))], call("rep", St("ab"), I(3))))
    fam.append(("retclos", [assign("mkc", fn(["a"], block([assign("z", bin_("*", N("a"), I(2))), fn([], bin_("+", N("z"), N("a")))]))), assign("usec", fn(["n"], block([assign("c", call("mkc", N("n"))), call("c")])))], call("usec", I(5))))
    mkgen = assign("mkgen", fn(["lo", "hi"], fn([], block([assign("i", N("lo")), wh(bin_("<", N("i"), N("hi")), block([y(N("i")), assign("i", bin_("+", N("i"), I(1)))]))]))))
    mkscale = assign("mkscale", fn(["a", "b"], fn(["x"], bin_("+", bin_("*", N("x"), N("a")), N("b")))))
    fam.append(("closgen", [mkgen, mkscale, assign("gen", call("mkgen", I(0), I(6))), assign("scale", call("mkscale", I(2), I(3))),
                            assign("total", fn([], block([assign("s", I(0)), fr(["v"], [call("gen")], assign("s", bin_("+", N("s"), call("scale", N("v"))))), N("s")])))], call("total")))
    fam.append(("closgen-args", [mkgen, mkscale, assign("sumg", fn(["g", "f"], block([assign("s", I(0)), fr(["e"], [call("g")], assign("s", bin_("+", N("s"), call("f", N("e"))))), N("s")]))),
                                 assign("sumtwo", fn(["n"], bin_("+", call("sumg", call("mkgen", I(0), N("n")), call("mkscale", I(1), I(100))), call("sumg", call("mkgen", I(1), N("n")), call("mkscale", I(3), I(0))))))],
                call("sumtwo", I(3))))
    # the value of a yield expression is its operand, wherever the caller runs (a helper makes yield usable in an expression)
    echo = assign("echo", fn(["x"], y(N("x"))))
    fam.append(("yieldval", [echo, assign("yacc", fn(["n"], block([assign("s", I(0)), fr(["i"], [call("fromto", I(0), N("n"))], assign("s", bin_("+", N("s"), call("echo", bin_("+", N("i"), I(10)))))), N("s")])))], call("yacc", I(4))))
    fam.append(("yieldval-doubling", [echo, assign("ydbl", fn(["n"], block([assign("v", I(1)), assign("k", I(0)), wh(bin_("<", N("k"), N("n")), block([assign("v", bin_("*", call("echo", N("v")), I(2))), assign("k", bin_("+", N("k"), I(1)))])), N("v")])))], call("ydbl", I(5))))
    ygen = assign("ygen", fn([], block([assign("k", I(10)), y(fn(["x"], bin_("+", N("x"), N("k")))), assign("k", I(99))])))
    yfirst = assign("yfirst", fn([], fr(["h"], [call("ygen")], ret(N("h")))))
    yprobe = assign("yprobe", fn(["n"], block([assign("add", call("yfirst")), assign("a", call("add", I(1))), fr(["i"], [call("fromto", I(0), N("n"))], assign("s", N("i"))),
                                               fr(["i", "j"], [call("fromto", I(0), N("n")), call("fromto", I(5), I(9))], assign("s", bin_("+", N("i"), N("j")))), lst([N("a"), call("add", I(1))])])))
    for n in (0, 3):
        fam.append(("yielded-closure-%d" % n, [ygen, yfirst, yprobe], call("yprobe", I(n))))
    # a closure defined inside a loop body of a generator, collected by the consumer, called after the generator is exhausted
    cgen = assign("cgen", fn(["m"], fr(["i"], [call("fromto", I(0), N("m"))], block([assign("c", bin_("*", N("i"), I(10))), y(fn([], bin_("+", N("c"), N("m"))))]))))
    ccol = assign("ccol", fn(["m"], block([assign("fs", lst([])), fr(["f"], [call("cgen", N("m"))], assign("fs", bin_("+", N("fs"), lst([call("f")])))), N("fs")])))
    fam.append(("closures-yielded-in-loop", [cgen, ccol], call("ccol", I(3))))
    probe = assign("probe", fn([], block([iff(bin_(">", N("gzero"), I(0)), block([assign("pa", I(1)), assign("pb", I(2)), assign("pc", I(3))])), bin_("+", bin_("+", call("toa", N("pa")), call("toa", N("pb"))), call("toa", N("pc")))])))
    dq = assign("deepq", fn(["n"], ife(bin_("==", N("n"), I(0)), call("probe"), call("deepq", bin_("-", N("n"), I(1))))))
    # functions that return an extension of their argument: two calls with the same base, the first result read after the second call
    mkarr = assign("mkarr", fn(["n"], block([assign("r", lst([])), fr(["i"], [call("fromto", I(0), N("n"))], assign("r", bin_("+", N("r"), lst([N("i")])))), N("r")])))
    ext = assign("ext", fn(["b", "v"], bin_("+", N("b"), lst([N("v")]))))
    exts = assign("exts", fn(["b", "v"], bin_("+", N("b"), call("toa", N("v")))))
    probe2 = assign("probetwice", fn(["b"], block([assign("ra", call("ext", N("b"), I(7))), assign("rb", call("ext", N("b"), I(8))), lst([N("ra"), N("rb"), call("ext", N("b"), I(7)), N("b")])])))
    for n in (0, 3, 4, 5, 9):
        fam.append(("extend-twice-%d" % n, [mkarr, ext, probe2], call("probetwice", call("mkarr", I(n)))))
    fam.append(("extend-twice-literal", [mkarr, ext, probe2], call("probetwice", lst([N("gzero"), bin_("+", N("gzero"), I(1)), I(2)]))))
    fam.append(("extend-twice-string", [exts, assign("probes", fn(["b"], block([assign("ra", call("exts", N("b"), I(7))), assign("rb", call("exts", N("b"), I(8))), lst([N("ra"), N("rb"), N("b")])])))],
                call("probes", bin_("+", bin_("+", St("ab"), St("cd")), St("ef")))))
    # functions with parameters whose locals are assigned only on some paths: a call on the other path reads nil whatever an earlier call left
    flast = assign("flast", fn(["ary", "pred"], block([fr(["e"], [call("elems", N("ary"))], iff(call("pred", N("e")), assign("found", N("e")))), N("found")])))
    big = fn(["x"], bin_(">", N("x"), I(2)))
    A = call("toa", call("flast", lst([I(1), I(2)]), big))
    B = call("toa", call("flast", lst([I(1), I(3)]), big))
    fam.append(("unassigned-locals-params", [flast], bin_("+", bin_("+", A, B), A)))
    fthree = assign("fthree", fn(["p", "q", "r"], block([iff(bin_(">", N("p"), I(0)), block([assign("la", N("p")), assign("lb", N("q")), assign("lc", N("r"))])), bin_("+", bin_("+", call("toa", N("la")), call("toa", N("lb"))), call("toa", N("lc")))])))
    fam.append(("unassigned-locals-3params", [fthree], bin_("+", bin_("+", call("fthree", I(0), I(8), I(9)), call("fthree", I(7), I(8), I(9))), call("fthree", I(0), I(5), I(6)))))
    # a computation that follows a control-flow join: the statement before it may or may not have run (if without else, loops with zero
    # iterations, one branch of an if/else), and ended in an assignment to the variable the computation starts with
    upd = [("2op", assign("x", bin_("-", bin_("*", N("lo"), I(2)), N("x")))), ("3op", assign("x", bin_("+", bin_("-", bin_("*", N("lo"), I(2)), N("x")), I(0)))), ("1op", assign("x", bin_("+", N("x"), N("lo"))))]
    tails = [("scaled", bin_("+", bin_("*", bin_("-", N("x"), N("lo")), I(3)), I(1))), ("chain", bin_("-", bin_("-", N("x"), N("lo")), I(1))), ("plain", bin_("*", N("x"), I(2)))]
    for (un_, u), (tn, t) in itertools.product(upd, tails):
        joins = {"if": iff(bin_("<", N("x"), N("lo")), u), "if-block": iff(bin_("<", N("x"), N("lo")), block([assign("z", I(1)), u])),
                 "ifelse": ife(bin_("<", N("x"), N("lo")), u, assign("z", I(0))), "ifelse-swapped": ife(bin_(">=", N("x"), N("lo")), assign("z", I(0)), u),
                 "while": wh(bin_("<", N("x"), N("lo")), u), "for": fr(["i"], [call("fromto", N("x"), N("lo"))], u)}
        for jn, j in joins.items():
            if (un_, tn) != ("2op", "scaled") and jn not in ("if", "while"):
                continue
            nm = "jn" + "".join(w[0] for w in (un_ + "-" + tn + "-" + jn).replace("-", " ").split()) + str(len(fam))
            nm = "".join(ch if ch.isalpha() else "abcdefghij"[int(ch)] for ch in nm)
            d = assign(nm, fn(["x", "lo"], block([j, t])))
            fam.append(("join-%s-%s-%s" % (jn, un_, tn), [d], lst([call(nm, I(5), I(2)), call(nm, I(1), I(2)), call(nm, I(5), I(2))])))
    for n in (59, 61, 62, 63):
        fam.append(("unassigned-locals-%d" % n, [assign("gzero", I(0)), probe, dq], call("deepq", I(n))))
    for n in (5, 130, 200):
        d, vs = wide_fn("wide%s" % "abc"[(5, 130, 200).index(n)], n, lambda vs: [assign("s", I(0)), fr(["i"], [call("fromto", I(0), N(vs[-1]))], assign("s", bin_("+", N("s"), I(1)))), bin_("+", N("s"), N(vs[0]))])
        fam.append(("wide%d" % n, [d], call(d["tgt"]["n"], I(2))))
    return fam


def placements(c):
    """(name, extra defs, item computing the same call c in a different dynamic context)"""
    return [
        ("top", [], c),
        ("array-twice", [], lst([c, c])),
        ("for-body", [], fr(["i"], [call("fromto", I(0), I(2))], c)),
        ("in-generator", [assign("gg", fn([], y(c)))], fr(["i"], [call("gg")], N("i"))),
        # the same, consumed by loop bodies that compute between two resumptions (nested arithmetic, a nested loop, a call)
        ("in-generator-arith-consumer", [assign("gg", fn([], y(c)))],
         block([assign("tq", I(0)), fr(["r"], [call("gg")], assign("tq", bin_("+", bin_("+", bin_("*", N("tq"), I(0)), N("r")), I(1)))), N("tq")])),
        ("in-generator-loop-consumer", [assign("gg", fn([], y(c)))],
         block([assign("tq", I(0)), fr(["r"], [call("gg")], fr(["w"], [call("fromto", I(0), I(2))], assign("tq", bin_("+", bin_("*", N("tq"), I(0)), bin_("+", N("r"), N("w")))))), N("tq")])),
        ("in-generator-in-function-consumer", [assign("gg", fn([], y(c))), assign("ggc", fn(["k"], block([assign("tq", N("k")), fr(["r"], [call("gg")], assign("tq", bin_("+", bin_("*", N("tq"), I(0)), bin_("*", N("r"), I(2))))), N("tq")])))],
         call("ggc", I(0))),
        ("argument", [IDF], call("id", c)),
        ("depth5", [assign("dd", fn(["n"], ife(bin_("==", N("n"), I(0)), c, call("dd", bin_("-", N("n"), I(1))))))], call("dd", I(5))),
        ("depth200", [assign("de", fn(["n"], ife(bin_("==", N("n"), I(0)), c, call("de", bin_("-", N("n"), I(1))))))], call("de", I(200))),
        ("after-loop-same-stmt", [], block([fr(["q"], [call("fromto", I(0), I(2))], N("q")), c])),
        ("operand", [], bin_("+", I(0), c) if True else c),
    ]


def histories():
    return [
        ("none", []),
        ("small-loops", [fr(["h"], [call("fromto", I(0), I(3))], N("h")), fr(["h"], [call("elems", lst([I(1), I(2)]))], N("h"))]),
        ("deep-recursion", [DEEP, call("deep", I(300))]),
        ("runtime-error", [bin_("/", I(1), I(0))]),
        ("error-in-generator", [assign("bad", fn([], block([y(I(1)), bin_("/", I(1), I(0))]))), fr(["h"], [call("bad")], N("h"))]),
        ("many-statements", [assign("hv", bin_("+", I(k), I(1))) for k in range(40)]),
    ]


def c03_families(tier, seed, ids=None):
    ids = ids or Ids()
    fam = pure_family()
    out = []
    ss = []
    for (fname, defs, c), (hname, hist) in itertools.product(fam, histories()):
        if tier == "quick" and (shash((fname, hname, seed)) % 3 != 0) and hname not in ("none",) and not fname.startswith(("closgen", "unassigned", "yieldval", "yielded-closure", "closures-yielded", "extend-twice", "join-if-2op", "join-while-2op")):
            continue
        items = list(defs) + list(hist)
        seen_defs = set()
        for pname, pdefs, pitem in placements(c):
            for d in pdefs:
                if d["tgt"]["n"] not in seen_defs:
                    seen_defs.add(d["tgt"]["n"])
                    items.append(d)
            items.append(pitem)
        items.append(c)
        ss.append(mk(ids, items, {"fn": fname, "history": hname}))
    out.append(("pure-family x histories x placements", ss, ("value",)))
    # the same call many times over, after the session once needed a deep stack: a function that captures a local, calls on, updates the
    # local and reads it through the closure gives the same result on the first call and on the five-hundredth (whatever the machine does
    # with stack space it no longer needs)
    rp = []
    sumr = assign("sumr", fn(["n"], ife(bin_("==", N("n"), I(0)), I(0), bin_("+", N("n"), call("sumr", bin_("-", N("n"), I(1)))))))
    capf = assign("capf", fn(["d"], block([assign("acc", I(0)), assign("get", fn([], N("acc"))), assign("acc", bin_("+", N("acc"), call("sumr", N("d")))), call("get")])))
    capg = assign("capg", fn(["d"], block([assign("acc", lst([])), assign("get", fn([], N("acc"))), fr(["i"], [call("fromto", I(0), N("d"))], assign("acc", bin_("+", N("acc"), lst([call("sumr", N("i"))])))), call("get")])))
    for depths in (((1000, 1037, 1100, 1200),) if tier == "quick" else ((1000, 1037, 1100, 1200, 1311, 1530), (300, 401, 555, 777, 901, 999), (2100, 2230, 2400, 2550, 2700, 3000))):
        for fnm, arg, good in (("capf", 10, I(55)), ("capg", 4, lst([I(0), I(1), I(3), I(6)]))):
            rounds = []
            for k, depth in enumerate(depths):       # each round needs the deep stack again, then calls the function 40 times
                rounds += [call("deep", I(depth)), assign("bad", I(0)), fr(["i"], [call("fromto", I(0), I(40))], iff(bin_("!=", call(fnm, I(arg)), good), assign("bad", bin_("+", N("bad"), I(1))))), N("bad")]
            rp.append(mk(ids, [DEEP, sumr, capf, capg, call(fnm, I(arg))] + rounds + [call(fnm, I(arg))], {"fn": "repeated-" + fnm, "history": "deep-%d.." % depths[0]}))
    out.append(("the same call repeated after the session once needed a deep stack", rp, ("value",)))
    # random pure functions called from several placements
    rs = []
    nrand = 40 if tier == "quick" else 1500
    for i in range(nrand):
        g = gens.G(seed * 7919 + i)
        gl = {}
        ctx = {"vars": {"p": "I"}, "infn": True, "isgen": False, "calls": False}
        body = g.stmts(ctx, 2, g.r.randint(1, 3))
        body = [b for b in body if not any(n["t"] == "call" and n["name"]["n"] in ("write", "read") for n in walk(b))]
        body.append(g.eI({"vars": {"p": "I"}, "infn": True, "isgen": False, "calls": False}, 2))
        c = call("pf", I(g.r.randint(0, 4)))
        items = [assign("pf", fn(["p"], block(body)))]
        seen_defs = set()
        for pname, pdefs, pitem in placements(c):
            for d in pdefs:
                if d["tgt"]["n"] not in seen_defs:
                    seen_defs.add(d["tgt"]["n"])
                    items.append(d)
            items.append(pitem)
        rs.append(mk(ids, items, {"fn": "random%d" % i}))
    out.append(("random pure functions x placements", rs, ("value",)))
    return out


def c02_nontrivial(v):
    # a generator resumed at least twice with a body in between: approximated from the session: a for loop over a
    # generator that yields >= 2 values, measured by the specification needing > 60 steps for the session
    return v.accept.get("steps", 0) > 60


c02_rule = ("generator algebra: base generators (builtins, while/yield, recursive, closure-capturing, helper-that-yields, value-of-yield) composed by "
            "map/filter/zip/chain/nest/value-using-map to depth 3, x loop bodies (arith, call, write, plain, return at 2nd iteration, inner loop) x placements "
            "(top level, in a function, twice in sequence, under recursion depth 3, as function tail); distinct by AST digest; non-trivial = the specification "
            "takes more than 60 steps (several resumes with a body between them)")


def c03_nontrivial(v):
    return len(v.session["items"]) >= 5


c03_rule = ("each session defines one side-effect-free function, runs a history (nothing / loops / deep recursion / runtime error / error inside a generator / "
            "40 statements), then calls it with the same argument from 9 placements (top, twice in an array, for body, inside a generator, argument, call depth 5 and 200, "
            "after a loop in the same statement, operand) and once more at the end; every call must return the specified value, hence equal values; "
            "non-trivial = at least 3 placements present")


# =============================================================== C04: lexical scoping and isolation

def pad_locals(n):
    return [assign("pd" + "".join(chr(97 + int(c)) for c in str(i)), I(i % 9)) for i in range(n)]


def c04_access(A, X):
    if A == "read":
        return [bin_("+", N(X), I(1))]
    if A == "write":
        return [assign(X, I(50))]
    if A == "rw":
        return [assign("tt", N(X)), assign(X, bin_("+", N("tt"), I(1)))]
    return [assign(X, I(60)), bin_("+", N(X), I(1))]


def c04_session(ids, K, A, V, flow, width):
    PROBE = lambda tag, names: wr(bin_("+", St(tag + "="), call("toa", lst([N(n) for n in names]))))
    items = [assign("gone", I(100)), assign("gtwo", lst([I(1), I(2)])), assign("v", I(5)),
             DEEP, assign("apply", fn(["fnv"], call("fnv")))]
    params = ["p"]
    body = pad_locals(width - 1)
    if K == "param":
        X = "p"
    elif K == "local":
        X = "x"
        body.append(assign("x", I(7)))
    elif K == "forvar":
        X = "x"
        body.append(fr(["x"], [call("fromto", I(7), I(8))], I(0)))
    else:
        X = "v"                       # shadows the global v
        body.append(assign("v", I(7)))
    acc = c04_access(A, X)
    if V == "direct":
        body += acc
    elif V == "closure1":
        body += [assign("h", fn([], block(acc))), wr(call("toa", call("h")))]
    elif V == "closure2":
        # two levels up is not visible: the innermost function sees the global (or nil)
        body += [assign("h", fn([], block([assign("k", fn([], block(c04_access("read", X)))), call("k")]))),
                 wr(call("toa", lst([call("h")]))) if K == "shadow" else call("h")]
    else:   # recursion: every activation has its own X
        body += [iff(bin_(">", N("p"), I(0)), wr(call("toa", call("ff", bin_("-", N("p"), I(1))))))] + acc
    body.append(PROBE("in", [X, "gone", "gtwo"]))
    g = fn([], N(X))
    if flow == "none":
        body.append(N(X))
        use = [call("ff", I(2))]
    elif flow == "down":
        body.append(call("apply", g))
        use = [call("ff", I(2))]
    elif flow == "up":
        body += [assign("g", g), assign(X, bin_("+", N(X), I(1000))), N("g")]
        use = [assign("kk", call("ff", I(2))), call("deep", I(40)), call("kk")]
    elif flow == "array":
        body += [assign("g", g), assign(X, bin_("+", N(X), I(1000))), lst([N("g")])]
        use = [assign("ka", call("ff", I(2))), call("deep", I(40)), assign("kk", ix1(N("ka"), I(0))), call("kk")]
    elif flow == "nested":
        body += [assign("g", g), lst([lst([N("g"), I(1)])])]
        use = [assign("ka", call("ff", I(2))), call("deep", I(40)), assign("kk", ix1(ix1(N("ka"), I(0)), I(0))), call("kk")]
    elif flow == "handed-back":
        # returned from its definer, then passed to and returned by another function (whose own frame has other values in the same slots)
        body += [assign("g", g), assign(X, bin_("+", N(X), I(1000))), N("g")]
        use = [assign("pick", fn(["k", "f", "z"], block([assign("loc", bin_("+", N("k"), I(1))), N("f")]))), assign("kk", call("pick", I(100), call("ff", I(2)), I(300))), call("deep", I(40)), call("kk")]
    elif flow == "up-through-recursion":
        body += [assign("g", g), assign(X, bin_("+", N(X), I(1000))), N("g")]
        use = [assign("climb", fn(["n", "f"], ife(bin_("==", N("n"), I(0)), N("f"), call("climb", bin_("-", N("n"), I(1)), N("f"))))), assign("kk", call("climb", I(3), call("ff", I(2)))), call("deep", I(40)), call("kk")]
    else:  # stored
        body += [g]
        use = [assign("kk", call("ff", I(2))), call("deep", I(60)), fr(["z"], [call("fromto", I(0), I(3))], N("z")), call("kk"), call("kk")]
    items.append(assign("ff", fn(params, block(body))))
    # caller with its own variables; probes before and after the call
    caller = fn([], block([assign("a", I(1)), assign("b", lst([I(3)])), PROBE("before", ["a", "b", "gone", "gtwo", "v"]),
                           assign("r", use[0]) if use[0]["t"] != "assign" else use[0],
                           PROBE("after", ["a", "b", "gone", "gtwo", "v"]), N("a")]))
    items += [assign("cc", caller), call("cc")]
    items += use
    items += [lst([N("gone"), N("gtwo"), N("v")])]
    return mk(ids, items, {"K": K, "A": A, "V": V, "flow": flow, "width": width})


def c04_families(tier, seed, ids=None):
    ids = ids or Ids()
    rnd = random.Random(seed)
    combos = list(itertools.product(["param", "local", "forvar", "shadow"], ["read", "write", "rw", "wr"],
                                    ["direct", "closure1", "closure2", "recursion"], ["none", "down", "up", "array", "nested", "stored", "handed-back", "up-through-recursion"], [1, 3, 130]))
    if tier == "quick":
        combos = rnd.sample(combos, 220) + [c for c in combos if c[3] in ("handed-back", "up-through-recursion") and c[1] == "read" and c[2] == "direct" and c[4] == 3]
    ss = [c04_session(ids, *c) for c in combos]
    out = [("scoping shapes", ss, ("value",))]
    # a name introduced by a statement (loop variable, assignment target) that is also a variable of an enclosing scope and is read
    # by the same statement before it is introduced: iterator expressions and right-hand sides see the enclosing variable
    sn = []
    loops = {
        "self-bound": lambda nm: fr([nm], [call("fromto", I(0), N(nm))], assign("t", bin_("+", N("t"), N(nm)))),
        "second-iterator-reads-first-var": lambda nm: fr([nm, "j"], [call("fromto", I(0), I(3)), call("fromto", N(nm), bin_("+", N(nm), I(3)))], assign("t", bin_("+", N("t"), bin_("+", bin_("*", N(nm), I(10)), N("j"))))),
        "elems-of-self": lambda nm: fr([nm], [call("elems", lst([N(nm), bin_("+", N(nm), I(1))]))], assign("t", bin_("+", N("t"), N(nm)))),
        "assign-from-self": lambda nm: block([assign(nm, bin_("+", N(nm), I(1))), assign("t", bin_("+", N("t"), N(nm)))]),
        "inner-loop-reuses-outer-var": lambda nm: fr(["q"], [call("fromto", I(0), I(2))], fr([nm], [call("fromto", N("q"), bin_("+", N("q"), N(nm)))], assign("t", bin_("+", N("t"), N(nm))))),
    }
    for lname, mkloop in loops.items():
        for where in ("global-in-function", "captured-one-level", "param-of-enclosing", "top-level", "local-already", "in-generator"):
            nm = "nv"
            stmt = mkloop(nm)
            if where == "global-in-function":
                items = [assign(nm, I(3)), assign("ff", fn([], block([assign("t", I(0)), stmt, N("t")]))), call("ff"), N(nm), call("ff")]
            elif where == "captured-one-level":
                items = [assign("mk", fn([], block([assign(nm, I(3)), fn([], block([assign("t", I(0)), stmt, N("t")]))]))), assign("ff", call("mk")), call("ff"), call("ff")]
            elif where == "param-of-enclosing":
                items = [assign("mk", fn([nm], fn([], block([assign("t", I(0)), stmt, N("t")])))), assign("ff", call("mk", I(3))), call("ff"), assign("fg", call("mk", I(4))), call("fg"), call("ff")]
            elif where == "top-level":
                items = [assign(nm, I(3)), assign("t", I(0)), stmt, N("t"), N(nm)]
            elif where == "local-already":
                items = [assign(nm, I(9)), assign("ff", fn([], block([assign(nm, I(3)), assign("t", I(0)), stmt, lst([N("t"), N(nm)])]))), call("ff"), N(nm)]
            else:
                items = [assign(nm, I(3)), assign("gen", fn([], block([assign("t", I(0)), stmt, y(N("t")), y(N(nm))]))), assign("acc", lst([])),
                         fr(["e"], [call("gen")], assign("acc", bin_("+", N("acc"), lst([N("e")])))), N("acc"), N(nm)]
            sn.append(mk(ids, items, {"shared-name": lname, "where": where}))
    out.append(("a statement introduces a name that an enclosing scope also has and reads it first", sn, ("value",)))
    # function literals evaluated right after control passed between a loop body and its generator (no call in between): each must capture
    # the variables of the function it is written in
    gencl = assign("gencl", fn(["k"], block([y(fn(["x"], bin_("+", N("x"), N("k")))), y(fn(["x"], bin_("*", N("x"), N("k")))), y(fn(["x"], bin_("-", N("x"), N("k"))))])))
    sw = []
    bodies = {
        "closure-first": block([assign("d", fn([], N("s"))), assign("acc", bin_("+", N("acc"), lst([call("d"), call("g", I(1))])))]),
        "closure-last": block([assign("acc", bin_("+", N("acc"), lst([call("g", I(1))]))), assign("d", fn([], N("s")))]),
        "closure-only": assign("d", fn([], bin_("+", N("s"), I(1)))),
        "two-closures": block([assign("d", fn([], N("s"))), assign("e", fn(["q"], bin_("+", N("q"), N("s")))), assign("acc", bin_("+", N("acc"), lst([call("e", I(1)), call("d"), call("g", I(2))])))]),
    }
    for bname, body in bodies.items():
        for where in ("fn", "top", "gen"):
            tail = [N("acc"), call("d")] if True else []
            if where == "fn":
                items = [gencl, assign("ff", fn(["n"], block([assign("s", bin_("*", N("n"), I(100))), assign("acc", lst([])), assign("d", fn([], I(0))), fr(["g"], [call("gencl", I(7))], body), lst([N("acc"), call("d")])]))), call("ff", I(1)), call("ff", I(2))]
            elif where == "top":
                items = [gencl, assign("s", I(300)), assign("acc", lst([])), assign("d", fn([], I(0))), fr(["g"], [call("gencl", I(7))], body), lst([N("acc"), call("d")])]
            else:
                items = [gencl, assign("outer", fn(["n"], block([assign("s", bin_("*", N("n"), I(100))), assign("acc", lst([])), assign("d", fn([], I(0))), fr(["g"], [call("gencl", I(7))], block([body, y(call("d"))])), y(N("acc"))]))),
                         assign("col", lst([])), fr(["v"], [call("outer", I(4))], assign("col", bin_("+", N("col"), lst([N("v")])))), N("col")]
            sw.append(mk(ids, items, {"switch": bname, "where": where}))
    out.append(("function literals evaluated right after a switch between loop body and generator", sw, ("value",)))
    # a capturing closure made by one function, held in a parameter or local of another, called by a function literal of that other one
    fc = []
    offs = assign("offs", fn(["n", "label"], fn(["x"], bin_("+", N("x"), N("n")))))
    offone = assign("offone", fn(["n"], fn(["x"], bin_("+", N("x"), N("n")))))
    scaled = assign("scaled", fn(["k", "f"], fn(["x"], bin_("*", call("f", N("x")), N("k")))))
    runf = assign("runf", fn(["f", "v"], call("f", N("v"))))
    twice = assign("twice", fn(["m", "cb"], call("runf", fn(["x"], call("cb", call("cb", N("x")))), N("m"))))
    local2 = assign("vialocal", fn(["m"], block([assign("cb", call("offs", I(7), I(0))), assign("g", fn(["x"], bin_("+", call("cb", N("x")), N("m")))), call("g", I(1))])))
    fc.append(mk(ids, [offs, offone, scaled, runf, twice, local2, assign("h", call("scaled", I(10), call("offs", I(3), I(0)))), call("h", I(1)), call("twice", I(100), call("offs", I(5), I(0))),
                       call("scaled", I(2), call("offone", I(4))), call("h", I(2)), call("vialocal", I(1000)), assign("hh", call("scaled", I(3), N("h"))), call("hh", I(1))], {"foreign-closure": True}))
    out.append(("a capturing closure of one function called through a captured variable of another", fc, ("value",)))
    # closures that leave a generator by yield and are called after the loop over it has run to its end (known finding D26)
    ye = []
    ygen = assign("ygen", fn(["a"], block([y(fn([], N("a"))), y(fn(["x"], bin_("+", N("x"), un("#", N("a")))))])))
    ye.append(mk(ids, [ygen, assign("k", I(0)), fr(["g"], [call("ygen", lst([I(1), I(2)]))], assign("k", N("g"))), call("k", I(5)), fr(["q"], [call("fromto", I(0), I(3))], N("q")), call("k", I(5))], {"yield-escape": "top"}))
    ye.append(mk(ids, [ygen, assign("keep", fn(["a"], block([assign("r", lst([])), fr(["g"], [call("ygen", N("a"))], assign("r", bin_("+", N("r"), lst([N("g")])))), N("r")]))),
                       assign("ks", call("keep", lst([I(3)]))), assign("ka", ix1(N("ks"), I(0))), call("ka")], {"yield-escape": "collected"}))
    out.append(("closures yielded by a generator, called after the loop over it ended", ye, ("value",)))
    # a returned closure that calls a sibling closure held in a variable of the same definer (known finding D27)
    sib = []
    mk2 = assign("mksib", fn(["k"], block([assign("helper", fn([], N("k"))), assign("g", fn([], bin_("+", call("helper"), I(1)))), N("g")])))
    sib.append(mk(ids, [mk2, assign("gg", call("mksib", I(5))), assign("w", fn(["n"], bin_("*", N("n"), I(87)))), call("w", I(1)), call("gg"), call("deep", I(30)) if False else call("w", I(2)), call("gg")], {"sibling": "direct"}))
    mk3 = assign("mkpair", fn(["k"], block([assign("inc", fn([], bin_("+", N("k"), I(1)))), assign("both", fn(["x"], bin_("+", call("inc"), N("x")))), assign("k", bin_("*", N("k"), I(10))), N("both")])))
    sib.append(mk(ids, [mk3, assign("bb", call("mkpair", I(2))), assign("w", fn(["n"], lst([N("n"), N("n")]))), call("w", I(1)), call("bb", I(100))], {"sibling": "updated"}))
    out.append(("a returned closure calling a sibling closure of the same definer", sib, ("value",)))
    # names that a statement the compiler refuses (too large) mentions first: the refused statement has no effect, later statements that
    # read, assign, capture or shadow those names see ordinary globals
    def refused(names):
        return {"perr": True, "cerr": True, "src": "hz = [" + ", ".join(list(names) + ["1"] * 33001) + "]"}
    rf = []
    for first in (["qq"], ["qq", "qr", "qs"], ["k", "qq"]):
        q = first[-1] if first[0] != "k" else "qq"
        rf.append(mk(ids, [assign("k", I(5)), refused(first), assign("label", St("k")), assign("f", fn([], N(q))), call("f"), assign(q, I(100)), N("k"), N(q), call("f"),
                           assign("g", fn(["z"], block([assign("k", N("z")), N(q)]))), call("g", I(1)), N("k"), N("label"), N("hz"),
                           refused(["qt"]), assign("qt", lst([N("k")])), N("qt"), assign("h", fn([], fn([], N("qt")))), call(call("h")) if False else assign("hh", call("h")), call("hh")], {"refused-first-mention": "+".join(first)}))
    rf.append(mk(ids, [refused(["ga", "gb"]), assign("gb", I(1)), assign("ga", I(2)), lst([N("ga"), N("gb")]), refused(["gc", "ga"]), assign("gd", I(4)), assign("gc", I(3)), lst([N("ga"), N("gb"), N("gc"), N("gd")]),
                       fr(["ge"], [call("fromto", I(0), I(2))], N("ge")), N("ge")], {"refused-first-mention": "several refusals"}))
    out.append(("names first mentioned by a statement the compiler refused", rf, ("value",)))
    # a call in tail position (the last thing a function does): the caller's variables stay the caller's while the callee runs, also when a
    # closure over them reaches the callee indirectly -- wrapped in another closure, inside an array, through a global, two calls down
    tc = []
    wrap = assign("wrap", fn(["h"], fn([], call("h"))))
    app = assign("app", fn(["pad", "g"], bin_("+", call("g"), N("pad"))))
    appa = assign("appa", fn(["pad", "gs"], bin_("+", call(ix1(N("gs"), I(0))) if False else call("first", N("gs")), N("pad"))))
    first = assign("first", fn(["gs"], block([assign("g", ix1(N("gs"), I(0))), call("g")])))
    down2 = assign("downtwo", fn(["pad", "g"], call("app", bin_("*", N("pad"), I(2)), N("g"))))
    viag = assign("viag", fn(["pad"], bin_("+", call("held"), N("pad"))))
    shapes = {
        "wrapped, tail": fn(["n"], block([assign("h", fn([], N("n"))), assign("w", call("wrap", N("h"))), call("app", I(100), N("w"))])),
        "wrapped, not tail": fn(["n"], block([assign("h", fn([], N("n"))), assign("w", call("wrap", N("h"))), assign("r", call("app", I(100), N("w"))), N("r")])),
        "direct, tail": fn(["n"], block([assign("h", fn([], N("n"))), call("app", I(100), N("h"))])),
        "in an array, tail": fn(["n"], block([assign("h", fn([], N("n"))), call("appa", I(100), lst([N("h")]))])),
        "wrapped twice, tail": fn(["n"], block([assign("h", fn([], N("n"))), call("app", I(100), call("wrap", call("wrap", N("h"))))])),
        "two calls down, tail": fn(["n"], block([assign("h", fn([], N("n"))), assign("w", call("wrap", N("h"))), call("downtwo", I(100), N("w"))])),
        "local updated before the tail call": fn(["n"], block([assign("m", bin_("*", N("n"), I(2))), assign("h", fn([], bin_("+", N("m"), N("n")))), assign("w", call("wrap", N("h"))), assign("m", bin_("+", N("m"), I(1))), call("app", I(100), N("w"))])),
        "tail call in both branches": fn(["n"], block([assign("h", fn([], N("n"))), assign("w", call("wrap", N("h"))), ife(bin_(">", N("n"), I(3)), call("app", I(100), N("w")), call("app", I(200), N("w")))])),
        "tail call of a parameter": fn(["n"], block([assign("h", fn([], N("n"))), assign("w", call("wrap", N("h"))), call("runit", N("w"))])),
    }
    for sname, f in shapes.items():
        tc.append(mk(ids, [wrap, app, first, appa, down2, assign("runit", fn(["g"], call("g"))), assign("tf", f), call("tf", I(5)), call("tf", I(2)), lst([call("tf", I(7)), call("tf", I(1))]),
                           fr(["q"], [call("fromto", I(4), I(6))], wr(call("tf", N("q")))), call("tf", I(5))], {"tail": sname}))
    # tail recursion and mutual tail calls keep their arguments apart
    tc.append(mk(ids, [assign("sumto", fn(["n", "acc"], ife(bin_("==", N("n"), I(0)), N("acc"), call("sumto", bin_("-", N("n"), I(1)), bin_("+", N("acc"), N("n")))))), call("sumto", I(10), I(0)), call("sumto", I(300), I(0)),
                       assign("ev", fn(["n"], ife(bin_("==", N("n"), I(0)), Bo(True), call("od", bin_("-", N("n"), I(1)))))), assign("od", fn(["n"], ife(bin_("==", N("n"), I(0)), Bo(False), call("ev", bin_("-", N("n"), I(1)))))),
                       call("ev", I(10)), call("od", I(7)), call("ev", I(7))], {"tail": "recursion"}))
    out.append(("calls in tail position with closures over the caller's variables reaching the callee indirectly", tc, ("value",)))
    # an array of closures over the caller's own variables is handed to other functions and comes back (as it is, sliced, inside another
    # array, through recursion): the caller's later assignments are still seen through the closures it holds, and the callee changed nothing
    hb = []
    ident = assign("ident", fn(["a"], N("a")))
    slc = assign("slc", fn(["a"], ix2(N("a"), I(0), I(1))))
    boxed = assign("boxed", fn(["a"], lst([N("a"), I(0)])))
    recid = assign("recid", fn(["a", "n"], ife(bin_("==", N("n"), I(0)), N("a"), call("recid", N("a"), bin_("-", N("n"), I(1))))))
    for hname, back in (("identity", call("ident", N("cl"))), ("slice", call("slc", N("cl"))), ("boxed", call("boxed", N("cl"))), ("recursion", call("recid", N("cl"), I(3))), ("control", lst([I(0)]))):
        body = [assign("v", I(1)), assign("w", I(10)), assign("cl", lst([fn([], N("v")), fn([], bin_("+", N("w"), N("v")))])), assign("r", back), assign("v", bin_("+", N("v"), I(1))), assign("w", I(20)),
                assign("ga", ix1(N("cl"), I(0))), assign("gb", ix1(N("cl"), I(1))), lst([call("ga"), call("gb"), un("#", N("r"))])]
        hb.append(mk(ids, [ident, slc, boxed, recid, assign("caller", fn([], block(body))), call("caller"), call("caller")] + body, {"handed-down-and-back": hname}))
    out.append(("arrays of closures over the caller's variables handed to a callee and back", hb, ("value",)))
    # a call made in a loop body must not change what the iterator closure sees in its captured variable
    upto = assign("upto", fn(["n"], fn([], block([assign("i", I(0)), wh(bin_("<", N("i"), N("n")), block([y(N("i")), assign("i", bin_("+", N("i"), I(1)))]))]))))
    adder = assign("adder", fn(["k"], fn(["x"], bin_("+", N("x"), N("k")))))
    sumf = assign("sumf", fn(["gen", "f"], block([assign("s", I(0)), fr(["e"], [call("gen")], assign("s", bin_("+", N("s"), call("f", N("e"))))), N("s")])))
    ic = []
    for n, k in ((3, 100), (2, 7), (5, 1)):
        for pre in ([], [call("deep", I(6))], [call("sumf", call("upto", I(1)), N("id"))]):
            for body in ("closure", "toplevel", "builtin"):
                f = {"closure": call("adder", I(k)), "toplevel": N("id"), "builtin": N("toa")}[body]
                items = [DEEP, IDF, upto, adder, sumf] + pre + [call("sumf", call("upto", I(n)), f), call("sumf", call("upto", I(n)), f), assign("g", call("upto", I(n))), assign("h", call("adder", I(k))),
                         lst([call("sumf", N("g"), N("h")), call("sumf", N("g"), N("h")), call("h", I(1))]),
                         assign("two", fn([], block([assign("a", call("sumf", N("g"), N("h"))), assign("b", call("sumf", N("g"), N("h"))), lst([N("a"), N("b")])]))), call("two"), call("two")]
                ic.append(mk(ids, items, {"iterclosure": [n, k, len(pre), body]}))
    out.append(("iterator closure vs calls in the loop body", ic, ("value",)))
    rs = gens.random_sessions(60 if tier == "quick" else 3000, seed, "c04", first_id=500000)
    out.append(("random nestings", rs, ("value",)))
    return out


def c04_nontrivial(v):
    return True


c04_rule = ("scoping shapes: variable kind {param, local, for-variable, shadowed global} x access {read, write, read-then-write, write-then-read} x "
            "{direct, one closure level, two levels, recursion} x function-value flow {none, passed down, returned up, returned in an array, in a nested array, "
            "stored then called after unrelated deep calls} x locals per function {1, 3, 130}, with write probes of caller variables and globals before and after "
            "each call; plus random closure-heavy sessions; every session is distinct by construction and non-trivial (a call happens while caller locals and globals are live)")


# =============================================================== C05: no accepted program crashes the interpreter

TYPED_ATOMS = {"I0": I(0), "I3": I(3), "IN": I(-2), "F": Fl(3, 1), "B": Bo(True), "S": St("ab"), "A": lst([I(1), I(2)]), "NIL": N("nn"), "FN": N("id")}
ALL_BINOPS = ["+", "-", "*", "/", "%", "<", ">", "<=", ">=", "==", "!=", "&", "|", "&&", "||", "<<", ">>"]


def sourced(kind, atom, name):
    """returns (prelude items, expression, wrapper) placing atom behind an operand source"""
    if kind == "const":
        return [], atom
    if kind == "global":
        return [assign(name, atom)] if atom != N("nn") else [], (N(name) if atom != N("nn") else N("nn"))
    if kind == "call":
        return [], call("id", atom)
    return [], atom


def c05_families(tier, seed, ids=None):
    ids = ids or Ids()
    rnd = random.Random(seed)
    out = []
    ss = []
    names = list(TYPED_ATOMS)
    combos = []
    for op in ALL_BINOPS:
        for a in names:
            for b in names:
                combos.append((op, a, b))
    srcs = [("const", "const"), ("global", "const"), ("const", "global"), ("call", "call"), ("global", "call")]
    for (op, a, b) in combos:
        for (sa, sb) in (srcs if tier == "thorough" else [srcs[shash((op, a, b, seed)) % len(srcs)]]):
            pa, ea = sourced(sa, TYPED_ATOMS[a], "ga")
            pb_, eb = sourced(sb, TYPED_ATOMS[b], "gb")
            e = bin_(op, ea, eb)
            items = [IDF] + pa + pb_ + [e, bin_("==", e, I(0)), bin_("+", I(1), bin_("*", e, I(2))), un("!", e), assign("lf", fn([], block([assign("la", ea), assign("lb", eb) if TYPED_ATOMS[b] != N("nn") else assign("lb", I(1)), bin_(op, N("la"), N("lb") if TYPED_ATOMS[b] != N("nn") else eb)]))), call("lf"),
                                        assign("cf", fn([], block([assign("la", ea), assign("h", fn([], bin_(op, N("la"), eb))), call("h")]))), call("cf"), I(1)]
            ss.append(mk(ids, items, {"op": op, "a": a, "b": b, "src": [sa, sb]}))
    out.append(("binary operator x type pair x operand source", ss, ("nocrash",)))
    us = []
    for op in UNOPS:
        for a in names:
            x = TYPED_ATOMS[a]
            us.append(mk(ids, [IDF, un(op, x), un(op, call("id", x)), bin_("+", un(op, x), I(1)) if True else x, I(1)], {"un": op, "a": a}))
    for a in names:
        for b in names:
            x, z = TYPED_ATOMS[a], TYPED_ATOMS[b]
            us.append(mk(ids, [IDF, ix1(x, z), ix2(x, z, I(1)), ix2(x, I(0), z), lst([x, z]), iff(x, z), wh(x, ret(z)), call("id", x, z) if False else call("id", x),
                               assign("cl", x) if a != "NIL" else I(0), call("cl") if a != "NIL" else I(0), call("cl", z) if a != "NIL" else I(0), y(x), ret(z), I(1)], {"positions": [a, b]}))
    out.append(("unary, index, slice, element, condition, call-target, arity positions", us, ("nocrash",)))
    ex = []
    extreme = [bin_("<<", I(1), I(64)), bin_("<<", I(1), I(-1)), bin_(">>", I(1), I(100)), bin_(">>", I(-1), I(1)), bin_("<<", I(-1), I(63)),
               bin_("/", Fl(1, 0), Fl(0, 0)), bin_("/", Fl(0, 0), Fl(0, 0)), bin_("%", I(5), I(0)), bin_("/", I(5), I(0)),
               I(9223372036854775807), bin_("+", I(9223372036854775807), I(1)),
               bin_("/", bin_("-", un("-", I(9223372036854775807)), I(1)), I(-1)),
               bin_("%", bin_("-", un("-", I(9223372036854775807)), I(1)), I(-1)),
               bin_("*", I(4611686018427387904), I(4)),
               ix1(St("ab"), I(9223372036854775807)), ix2(lst([I(1)]), I(-1), I(9223372036854775807)),
               call("toa", bin_("/", Fl(1, 0), Fl(0, 0))), call("aton", St("1e999")), call("aton", St("9223372036854775808")), call("aton", St("-")),
               call("fromto", I(0), Fl(5, 1)), call("elems", I(3)), call("indices", N("nn")), call("write"), call("toa", I(1), I(2)), call("read", I(1))]
    for e in extreme:
        ex.append(mk(ids, [e, I(1)], {"extreme": True}))
    out.append(("extreme literals, shift counts, float specials, builtin misuse", ex, ("nocrash",)))
    # strings whose character count and byte count differ: every index and slice bound from -1 to two past the byte count,
    # the built-in iterators, length, concatenation, comparison (the language documents none of it beyond "no crash")
    na = []
    for txt in ["na\u00efve", "\u017elu\u0165", "\u65e5\u672c", "a\u00a3b", "\u00e9", "\U0001f600x", "abc\u00e9" * 10 + "z"]:
        nb = len(txt.encode("utf-8"))
        S = St(txt)
        pts = sorted(set([-1, 0, 1, len(txt) - 1, len(txt), len(txt) + 1, nb - 1, nb, nb + 1, nb + 2]))
        items = [assign("s", S), un("#", N("s"))]
        items += [ix1(N("s"), I(i)) for i in pts]
        items += [ix2(N("s"), I(i), I(j)) for i in (0, 1, len(txt)) for j in (len(txt), nb - 1, nb, nb + 1) if True]
        items += [ix2(N("s"), I(1), un("#", N("s"))), ix2(N("s"), I(0), bin_("-", un("#", N("s")), I(1))),
                  assign("acc", lst([])), fr(["c"], [call("elems", N("s"))], assign("acc", bin_("+", N("acc"), lst([N("c")])))), N("acc"),
                  fr(["i"], [call("indices", N("s"))], ix1(N("s"), N("i"))), bin_("+", N("s"), N("s")), bin_("==", N("s"), ix2(N("s"), I(0), un("#", N("s")))),
                  call("toa", lst([N("s")])), call("aton", N("s")), call("write", ix1(N("s"), I(1))), I(1)]
        na.append(mk(ids, items, {"non-ascii": txt}))
    out.append(("strings whose byte and character counts differ: index, slice, iterate", na, ("nocrash",)))
    # frames far wider than one allocation unit of the stack, called at top level, below a recursion of every depth from 0 to 70 (so that the
    # frame lands at every offset from an allocation boundary), inside a generator and after the stack has grown
    wf = []
    for n in (130, 141, 257, 300, 600):
        d, vs = wide_fn("wide", n, lambda vs: [bin_("+", N(vs[0]), N(vs[-1]))])
        below = assign("below", fn(["k"], ife(bin_("==", N("k"), I(0)), call("wide", I(2)), bin_("+", I(0), call("below", bin_("-", N("k"), I(1)))))))
        items = [d, below, call("wide", I(2)), assign("acc", lst([])), fr(["k"], [call("fromto", I(0), I(71))], assign("acc", bin_("+", N("acc"), lst([call("below", N("k"))])))), N("acc"),
                 assign("gen", fn([], block([y(call("wide", I(3))), y(call("below", I(40)))]))), fr(["e"], [call("gen")], N("e")), call("below", I(300)), call("wide", I(2)), I(1)]
        wf.append(mk(ids, items, {"wide": n}))
    out.append(("frames wider than the stack's allocation unit at every offset from a boundary", wf, ("value",)))
    # declarations the grammar admits although they mean little: repeated parameter or loop-variable names, names of built-ins
    # reused for parameters / locals / loop variables, a function whose parameter is also assigned, called and looped over
    od = []
    for k, (ps_, body, args) in enumerate([(["a", "a"], block([assign("a", St("x")), I(1)]), [I(1), I(2)]), (["a", "a"], N("a"), [I(1), I(2)]), (["a", "b", "a"], lst([N("a"), N("b")]), [I(1), I(2), I(3)]),
                                           (["a", "a", "a"], block([assign("t", bin_("+", N("a"), I(1))), N("t")]), [I(1), I(2), I(3)]),
                                           (["write", "toa"], call("write", N("toa")), [N("id"), I(2)]), (["fromto"], fr(["i"], [call("fromto", I(0), I(2))], N("i")), [N("elems")]),
                                           (["p"], fr(["p", "p"], [call("fromto", I(0), I(2)), call("fromto", I(5), I(9))], N("p")), [I(1)]),
                                           (["p"], block([assign("p", fn(["p"], N("p"))), call("p", call("p", I(3)))]), [I(1)])]):
        od.append(mk(ids, [IDF, assign("odd", fn(ps_, body)), call("odd", *args), call("odd", *args), fr(["q"], [call("fromto", I(0), I(2))], call("odd", *args)),
                           assign("gen", fn([], y(call("odd", *args)))), fr(["q"], [call("gen")], N("q")), I(1)], {"odd-declaration": k}))
    od.append(mk(ids, [fr(["i", "i"], [call("fromto", I(0), I(3)), call("fromto", I(5), I(9))], N("i")), assign("w", fn([], fr(["i", "i", "j"], [call("fromto", I(0), I(3)), call("fromto", I(5), I(9)), call("elems", St("ab"))], lst([N("i"), N("j")])))), call("w"), I(1)],
                 {"odd-declaration": "loop variables"}))
    out.append(("declarations the grammar admits although they mean little (repeated names, names of built-ins)", od, ("nocrash",)))
    # every statement form as last statement of a function / loop body / while ending in return
    forms = [I(1), assign("t", I(2)), iff(Bo(True), I(3)), iff(Bo(False), I(3)), ife(Bo(True), I(4), I(5)), wh(Bo(False), I(6)),
             wh(Bo(True), ret(I(7))), fr(["w"], [call("fromto", I(0), I(2))], N("w")), fr(["w"], [call("fromto", I(0), I(2))], ret(N("w"))),
             block([I(8), I(9)]), y(I(10)), ret(I(11)), fn([], I(12)), call("id", I(13)), lst([I(1), bin_("+", N("gx"), I(1))]),
             iff(bin_(">", N("gx"), I(0)), iff(bin_(">", N("gx"), I(5)), ret(I(1)))), ife(bin_(">", N("gx"), I(0)), iff(bin_(">", N("gx"), I(5)), ret(I(1))), I(2))]
    sf = []
    for f in forms:
        sf.append(mk(ids, [IDF, assign("gx", I(1)), assign("g", fn([], f)), call("g"),
                           assign("gb", fn([], block([I(0), f]))), call("gb"),
                           assign("gc", fn(["c"], block([assign("k", I(0)), wh(bin_("<", N("k"), I(2)), block([assign("k", bin_("+", N("k"), I(1))), f]))]))), call("gc", I(1)),
                           assign("gd", fn([], fr(["q"], [call("fromto", I(0), I(2))], f))), call("gd"),
                           assign("ge", fn(["c"], ife(N("c"), f, f))), call("ge", Bo(True)), call("ge", Bo(False)),
                           assign("gf", fn(["c"], iff(N("c"), f))), call("gf", Bo(True)), call("gf", Bo(False)),
                           f, block([f, I(0)]), I(1)], {"form": ps(f)[:40]}))
    out.append(("statement forms in tail / body / branch positions", sf, ("nocrash",)))
    nr = 300 if tier == "quick" else 12000
    # after a runtime error raised inside calls (1 to 3 frames deep, inside a loop, inside a generator) the session goes on with statements that
    # finish in every way: a plain value, a top-level return, a return from a top-level loop, a call that returns from a loop, a block
    ae = []
    incd = assign("incd", fn(["x", "d"], ife(bin_(">", N("d"), I(0)), call("incd", N("x"), bin_("-", N("d"), I(1))), bin_("+", N("x"), I(1)))))
    gbad = assign("gbad", fn(["x"], block([y(I(1)), y(bin_("+", N("x"), I(1)))])))
    fails = {"one frame": call("incd", St("a"), I(0)), "three frames": call("incd", St("a"), I(2)), "in a loop body": fr(["i"], [call("fromto", I(0), I(2))], call("incd", lst([]), I(1))),
             "in a generator": fr(["i"], [call("gbad", St("s"))], N("i")), "generator inside a call": call("usegen", St("s"))}
    usegen = assign("usegen", fn(["x"], block([assign("t", I(0)), fr(["i"], [call("gbad", N("x"))], assign("t", bin_("+", N("t"), N("i")))), N("t")])))
    for fname, f in fails.items():
        after = [call("incd", I(41), I(1)), ret(I(9)), fr(["i"], [call("fromto", I(0), I(10))], iff(bin_("==", N("i"), I(3)), ret(N("i")))), block([I(1), ret(I(2)), I(3)]),
                 wh(Bo(True), ret(I(7))), call("usegen", I(4)), iff(Bo(True), ret(St("r"))), f, ret(I(8)), I(1)]
        ae.append(mk(ids, [incd, gbad, usegen, f] + after, {"after-error": fname}))
    out.append(("statements that finish through return after an error raised inside calls", ae, ("value", "residue")))
    # loops nested directly in the bodies of loops over one to three iterators (the family of C02): here for "no accepted program crashes"
    nest = [f for f in c02_families(tier, seed, Ids(9800000)) if f[0].startswith("loops nested directly in loop bodies")]
    out.append(("loops nested directly in loop bodies (shared with C02)", nest[0][1], ("value",)))
    out.append(("random ill-typed sessions", gens.random_sessions(nr, seed, "c05", p_ill=0.25, first_id=600000), ("nocrash",)))
    return out


def c05_nontrivial(v):
    return any(n["t"] in ("bin", "un", "ix1", "ix2", "call") for it in v.session["items"] if not it.get("perr") for n in walk(it))


c05_rule = ("adversarial enumeration: 17 binary operators x 9x9 operand type pairs (incl. nil and function) x operand sources (constant, global, local, captured, call result); "
            "unary/index/slice/array-element/condition/call-target/arity positions over all type pairs; extreme literals, shift counts, float specials, builtin misuse; "
            "7 strings with multi-byte characters x every index / slice bound around the character and byte counts, elems, indices, length, concatenation; "
            "17 statement forms as tail of function / block / while body / for body / branches / top level; seeded random sessions with 25% type confusion. "
            "non-trivial = contains an operator, index or call; verdict = the real run ends in a value or a documented runtime error (no panic, no hang, no abort)")


# =============================================================== C08: a session survives errors

BOOM = assign("boom", fn(["d", "k"], ife(bin_(">", N("d"), I(0)), call("boom", bin_("-", N("d"), I(1)), N("k")),
                                          ife(bin_("==", N("k"), I(0)), bin_("/", I(1), I(0)),
                                              ife(bin_("==", N("k"), I(1)), ix1(lst([I(1)]), I(5)),
                                                  ife(bin_("==", N("k"), I(2)), bin_("+", I(1), St("a")),
                                                      ife(bin_("==", N("k"), I(3)), bin_("+", N("nosuch"), I(1)),
                                                          ife(bin_("==", N("k"), I(4)), call("aton", St("zz")), call("boom", I(1))))))))))
BADGEN = assign("badgen", fn(["k"], block([y(I(1)), assign("gq", I(3)), call("boom", I(0), N("k")), y(I(2))])))
OUTERGEN = assign("outergen", fn(["k"], fr(["x"], [call("badgen", N("k"))], y(N("x")))))


def failing_items():
    """(name, item, twin items: the global assignments the failing item completed)"""
    out = []
    for k, cls in enumerate(["zerodiv", "index", "type", "nil", "conversion", "arity"]):
        out.append(("top-" + cls, block([assign("ga", I(5)), assign("gb", call("boom", I(0), I(k))), assign("gc", I(7))]), [assign("ga", I(5))]))
        out.append(("depth3-" + cls, block([assign("ga", I(6)), call("boom", I(3), I(k))]), [assign("ga", I(6))]))
    out.append(("loop-body", fr(["i"], [call("fromto", I(0), I(3))], block([assign("gl", N("i")), iff(bin_("==", N("i"), I(1)), call("boom", I(1), I(1)))])),
                [assign("i", I(1)), assign("gl", I(1))]))
    out.append(("suspended-generator", fr(["i"], [call("badgen", I(0))], assign("gw", N("i"))), [assign("i", I(1)), assign("gw", I(1))]))
    out.append(("generator-in-generator", fr(["i"], [call("outergen", I(2))], assign("gw", N("i"))), [assign("i", I(1)), assign("gw", I(1))]))
    out.append(("in-call-in-loop-in-fn", block([assign("ga", I(9)), call("lf")]), [assign("ga", I(9))]))
    out.append(("read-error", block([assign("ga", I(4)), call("read")]), [assign("ga", I(4))]))
    out.append(("function-bound-before-failure", block([assign("gf", fn(["x"], bin_("+", N("x"), I(1)))), assign("ga", I(8)), call("boom", I(1), I(0))]),
                [assign("gf", fn(["x"], bin_("+", N("x"), I(1)))), assign("ga", I(8))]))
    out.append(("function-bound-in-loop-before-failure", fr(["i"], [call("fromto", I(0), I(2))], block([assign("gf", fn(["x"], bin_("*", N("x"), bin_("+", N("i"), I(2))))), iff(bin_("==", N("i"), I(1)), call("boom", I(0), I(2)))])),
                [assign("i", I(1)), assign("gf", fn(["x"], bin_("*", N("x"), I(3))))]))
    out.append(("while-cond-type", block([assign("ga", I(3)), wh(I(1), I(2))]), [assign("ga", I(3))]))
    out.append(("parse-lexer", {"perr": True, "src": "ga = 1 $ 2"}, []))
    out.append(("parse-parser", {"perr": True, "src": "ga = 1 +"}, []))
    # characters that are not part of the language, from every range (ASCII, Latin-1 supplement, two-, three- and four-byte characters), at the
    # start of a token, after an operator, glued to a name
    for k, ch in enumerate(["\u00fc", "\u00a7", "\u00b0", "\u00a0", "\u00ff", "\u0080", "\u03bb", "\u20ac", "\U0001f600", "@", "`", "\u00e9"]):
        out.append(("parse-foreign-char-%d" % k, {"perr": True, "src": ["ga = 1 + %s", "%s = 2", "ga = x%s + 1", "write(%s)"][k % 4] % ch}, []))
    # errors on a later line of a statement that is still open (the remaining lines are harmless on their own: a name, a closer)
    out.append(("parse-lexer-in-open-block", {"perr": True, "src": "gf = (x) -> {\n  y = x_1 + 1\n  y\n}"}, []))
    out.append(("parse-lexer-in-open-array", {"perr": True, "src": "ga = [1,\n  2 ? 3,\n  4]"}, []))
    out.append(("parse-parser-in-open-block", {"perr": True, "src": "gf = (x) -> {\n  y = x +\n  y\n}"}, []))
    # more closers than openers (a parse error); what follows -- in particular statements spanning several lines -- must be read as usual
    out.append(("parse-stray-brace", {"perr": True, "src": "}"}, []))
    out.append(("parse-stray-bracket", {"perr": True, "src": "ga = 1 ]"}, []))
    out.append(("parse-stray-braces", {"perr": True, "src": "ga = 1 } }"}, []))
    out.append(("parse-unbalanced", {"perr": True, "src": "ga = (1"}, []))
    out.append(("parse-unbalanced-array", {"perr": True, "src": "ga = [1, 2"}, []))
    return out


def good_items(rnd):
    """statements that define and use session state; later ones read what earlier ones wrote"""
    return [assign("sa", I(rnd.randint(1, 9))), assign("sb", bin_("+", N("sa"), I(1))), assign("sf", fn(["n"], bin_("+", N("n"), N("sa")))),
            call("sf", I(2)), assign("sacc", lst([])), fr(["q"], [call("fromto", I(0), I(3))], assign("sacc", bin_("+", N("sacc"), lst([call("sf", N("q"))])))),
            N("sacc"), lst([N("sa"), N("sb"), N("ga"), N("gl"), N("gw"), N("gq")]) if False else lst([N("sa"), N("sb")]),
            call("write", call("toa", lst([N("sa"), N("sb"), N("sacc")]))), fr(["q"], [call("elems", N("sacc"))], N("q")),
            # statements that span several lines: a braced function body, an array literal over three lines
            assign("sml", fn(["n"], block([assign("t", bin_("+", N("n"), N("sa"))), bin_("*", N("t"), I(2))]))), call("sml", I(3)),
            assign("smb", fn(["n"], block([iff(bin_(">", N("n"), I(0)), block([assign("u", I(1)), assign("u", bin_("+", N("u"), N("n")))])), call("toa", N("u"))]))), call("smb", I(2)), call("smb", I(0)),
            # several iterator contexts alive at once: a three-iterator lock-step loop and a triple nesting
            assign("szip", lst([])), fr(["za", "zb", "zc"], [call("fromto", I(0), I(3)), call("fromto", I(10), I(13)), call("fromto", I(20), I(23))], assign("szip", bin_("+", N("szip"), lst([bin_("+", bin_("+", N("za"), N("zb")), N("zc"))])))),
            N("szip"), assign("snest", I(0)),
            fr(["na"], [call("fromto", I(0), I(2))], fr(["nb"], [call("fromto", I(0), I(2))], fr(["nc"], [call("fromto", I(0), I(2))], assign("snest", bin_("+", bin_("*", N("snest"), I(2)), bin_("+", N("na"), bin_("+", N("nb"), N("nc")))))))),
            N("snest")]


STATE_PROBE = [bin_("==", N(v), N(v)) for v in []]


def c08_families(tier, seed, ids=None):
    ids = ids or Ids()
    rnd = random.Random(seed)
    fails = failing_items()
    prelude = [BOOM, BADGEN, OUTERGEN, assign("lf", fn([], fr(["z"], [call("fromto", I(0), I(2))], call("boom", I(2), I(0))))),
               assign("ga", I(0)), assign("gb", I(0)), assign("gc", I(0)), assign("gl", I(0)), assign("gw", I(0)), assign("gq", I(0)), assign("i", I(0)),
               assign("gf", fn(["x"], bin_("-", N("x"), I(1))))]
    probe = call("toa", lst([N("ga"), N("gb"), N("gc"), N("gl"), N("gw"), N("gq"), N("i"), call("gf", I(41))]))
    ss, twins = [], []
    n = 60 if tier == "quick" else 2500
    pairs = []
    for c in range(n):
        good = good_items(rnd)
        k = rnd.choice([1, 1, 2, 3])
        if c < len(fails):
            chosen = [fails[c]] + [rnd.choice(fails) for _ in range(k - 1)]
        else:
            chosen = [rnd.choice(fails) for _ in range(k)]
        adjacent = rnd.random() < 0.3
        pos = sorted(rnd.sample(range(1, len(good)), min(k, len(good) - 1)))
        if adjacent:
            pos = [pos[0]] * len(pos)
        items, titems = list(prelude), list(prelude)
        gi = 0
        for idx, g in enumerate(good):
            for p_i, p in enumerate(pos):
                if p == idx:
                    f = chosen[p_i]
                    items.append(f[1])
                    titems.extend(f[2] if f[2] else [I(0)])
                    items.append(probe)
                    titems.append(probe)
            items.append(g)
            titems.append(g)
        items.append(probe)
        titems.append(probe)
        s1 = mk(ids, items, {"fails": [f[0] for f in chosen], "pos": pos})
        s2 = mk(ids, titems, {"twin_of": s1["id"]})
        ss.append(s1)
        twins.append(s2)
        pairs.append((s1, s2))
    out = [("sessions with injected failures", ss, ("value", "residue")), ("twin sessions (failure replaced by its completed assignments)", twins, ("value", "residue"))]
    # every failing kind once at the start of a session (twice in a row for the kinds that involve generators), followed by every good
    # statement in its fixed order: the loops with several live iterator contexts come after every kind of failure, not only where the
    # random placement happens to put them
    sy = []
    for f in fails:
        good = good_items(random.Random(7))
        rep = 2 if ("generator" in f[0] or "loop" in f[0]) else 1
        sy.append(mk(ids, list(prelude) + [f[1]] * rep + [probe, fr(["q"], [call("fromto", I(0), I(2))], N("q"))] + good + [probe], {"fails": [f[0]], "pos": [0], "systematic": True}))
    out.append(("every failing kind at the start, then every good statement", sy, ("value", "residue")))
    # a failed statement leaves no trace in what later statements read from standard input (the input the interpreter has already
    # buffered included): statements that fail in every way, between reads
    sd = []
    lines = ["10\n", "20\n", "30\n", "forty\n", "50\n", "60\n", "70\n"]
    kinds = {"division": bin_("/", I(1), I(0)), "inside a call": call("boom", I(2), I(0)), "in a generator": fr(["i"], [call("badgen", I(0))], assign("gw", N("i"))), "type": bin_("+", St("s"), I(1)),
             "conversion": call("aton", St("zz")), "index": ix1(lst([I(1)]), I(4)), "parse error": {"perr": True, "src": "ga = 1 +"}, "failing read statement": bin_("+", call("read"), I(1)),
             "conversion of what was read": call("aton", call("read"))}
    for kname, f in kinds.items():
        items = list(prelude) + [assign("ra", call("read")), f, assign("rb", call("read")), lst([N("ra"), N("rb")]), f, f, assign("rc", call("read")), bin_("+", N("rb"), N("rc")), call("read")]
        sd.append(mk(ids, items, {"fails": [kname], "stdin": True}, stdin=lines))
    out.append(("failing statements between reads of standard input", sd, ("value", "residue")))
    rs = gens.random_sessions(40 if tier == "quick" else 2000, seed, "c08", p_ill=0.15, first_id=700000)
    out.append(("random sessions with type confusion (errors in the middle)", rs, ("value", "residue")))
    return out, pairs


def c08_nontrivial(v):
    return "fails" in v.session.get("meta", {}) or "twin_of" in v.session.get("meta", {})


c08_rule = ("sessions of 20+ items on one VM: state-threading good statements with 1-3 failing items injected (every error class at top level and at call depth 3, "
            "in a loop body, inside a suspended generator, inside a generator nested in a generator, in a call inside a loop inside a function, read error, "
            "non-boolean while condition, lexer/parser/unbalanced parse errors), adjacent failures included; a probe of all globals follows every failure; each session has a twin "
            "where the failing item is replaced by the global assignments it completed; the specification's observations after the failure must be equal in both "
            "(spec theorem) and the real runs must match the specification in both; residue is compared after every item")


# =============================================================== C09: no residue

def c09_forms():
    return [("expr", bin_("+", bin_("*", N("gx"), I(2)), I(1))), ("assign", assign("t", bin_("+", N("gx"), I(1)))),
            ("if-const", iff(Bo(True), I(5))), ("if-computed", iff(bin_("<", N("gx"), I(999)), I(5))), ("if-false", iff(bin_(">", N("gx"), I(999)), I(5))),
            ("ifelse", ife(bin_("<", N("gx"), I(2)), I(5), St("a"))),
            ("ifelse-else-call", ife(bin_(">", N("gx"), I(999)), assign("t", I(2)), call("id", N("gx")))),
            ("ifelse-else-op", ife(bin_(">", N("gx"), I(999)), assign("t", I(2)), bin_("+", N("gx"), I(1)))),
            ("ifelse-then-op", ife(bin_("<", N("gx"), I(999)), bin_("*", N("gx"), I(2)), assign("t", I(2)))),
            ("ifelse-both-index", ife(bin_(">", N("gx"), I(999)), ix1(lst([I(1)]), I(0)), ix1(St("ab"), bin_("-", N("gx"), N("gx"))))), ("while", wh(bin_("<", N("gx"), I(0)), I(1))),
            ("for", fr(["w"], [call("fromto", I(0), I(2))], N("w"))), ("for2", fr(["w", "u"], [call("fromto", I(0), I(2)), call("fromto", I(0), I(3))], N("u"))),
            ("for2-second-shorter", fr(["w", "u"], [call("fromto", I(0), I(3)), call("fromto", I(0), I(1))], N("w"))),
            ("for2-second-empty", fr(["w", "u"], [call("elems", St("ab")), call("fromto", I(1), I(1))], N("w"))),
            ("for3-middle-shortest", fr(["w", "u", "z"], [call("fromto", I(0), I(4)), call("fromto", I(0), I(1)), call("fromto", I(0), I(3))], N("z"))),
            ("block", block([I(8), bin_("+", N("gx"), I(9))])), ("yield", y(bin_("+", N("gx"), I(1)))), ("fnlit", fn([], I(1))),
            ("call", call("id", N("gx"))), ("list", lst([N("gx"), bin_("+", N("gx"), I(1))])), ("index", ix1(lst([I(1), I(2)]), bin_("-", N("gx"), N("gx")))),
            ("if-in-if", iff(bin_("<", N("gx"), I(999)), iff(bin_("<", N("gx"), I(998)), I(1)))),
            ("if-call", iff(bin_("<", N("gx"), I(999)), call("id", N("gx")))), ("if-call-false", iff(bin_(">", N("gx"), I(999)), call("id", N("gx")))),
            ("if-block-call-first", iff(bin_("<", N("gx"), I(999)), block([call("id", N("gx")), assign("t", I(2))]))),
            ("ifelse-call-assign-false", ife(bin_(">", N("gx"), I(999)), call("id", N("gx")), assign("t", I(2)))), ("ifelse-call-assign-true", ife(bin_("<", N("gx"), I(999)), call("id", N("gx")), assign("t", I(2)))),
            ("ifelse-op-name-false", ife(bin_(">", N("gx"), I(999)), bin_("*", N("gx"), I(2)), N("gx"))), ("ifelse-index-loop-false", ife(bin_(">", N("gx"), I(999)), ix1(lst([I(1)]), I(0)), fr(["w"], [call("fromto", I(0), I(2))], N("w")))),
            ("ifelse-assign-index-false", ife(bin_(">", N("gx"), I(999)), assign("t", I(2)), ix1(lst([I(1), I(2)]), I(1)))), ("ifelse-name-call-true", ife(bin_("<", N("gx"), I(999)), N("gx"), call("id", I(3)))),
            ("nested-for", fr(["w"], [call("fromto", I(0), I(2))], fr(["u"], [call("fromto", I(0), I(2))], bin_("+", N("w"), N("u"))))),
            # finishing through return, at top level as well as inside a function
            ("return", ret(bin_("+", N("gx"), I(1)))), ("return-in-if", iff(bin_("<", N("gx"), I(999)), ret(I(5)))), ("return-in-for", fr(["w"], [call("fromto", I(0), I(3))], ret(N("w")))),
            ("return-in-while", wh(Bo(True), ret(bin_("*", N("gx"), I(7))))), ("return-mid-block", block([I(1), ret(lst([N("gx")])), I(3)])),
            ("return-in-nested-for", fr(["w"], [call("fromto", I(0), I(2))], fr(["u"], [call("fromto", I(5), I(8))], ret(bin_("+", N("w"), N("u")))))),
            # return directly from the body of a loop over several iterators: every one of its contexts goes
            ("return-in-for2", fr(["w", "u"], [call("fromto", I(0), I(3)), call("fromto", I(5), I(9))], ret(bin_("+", N("w"), N("u"))))),
            ("return-in-if-in-for3", fr(["w", "u", "z"], [call("fromto", I(0), I(4)), call("fromto", I(10), I(14)), call("fromto", I(20), I(24))], iff(bin_("==", N("w"), I(1)), ret(bin_("+", N("u"), N("z")))))),
            ("return-in-for2-in-for", fr(["h"], [call("fromto", I(0), I(2))], fr(["w", "u"], [call("fromto", I(0), I(3)), call("fromto", I(5), I(9))], iff(bin_("==", N("u"), I(6)), ret(lst([N("h"), N("w"), N("u")])))))),
            ("return-in-for-in-for2", fr(["w", "u"], [call("fromto", I(0), I(3)), call("fromto", I(5), I(9))], fr(["h"], [call("fromto", I(0), I(2))], iff(bin_("==", N("u"), I(6)), ret(lst([N("h"), N("w"), N("u")]))))))]


def counted_while(k, body, var="kk"):
    return [assign(var, I(0)), wh(bin_("<", N(var), I(k)), block([assign(var, bin_("+", N(var), I(1))), body]))]


def c09_families(tier, seed, ids=None):
    ids = ids or Ids()
    forms = c09_forms()
    base = [IDF, assign("gx", I(1))]
    used, disc, pairs = [], [], []
    for name, f in forms:
        used.append(mk(ids, base + [f, block([f, I(0)]), block([I(0), f]), assign("g", fn([], f)), call("g"), assign("gb", fn([], block([f, I(0)]))), call("gb"),
                                    assign("gr", fn([], block([ret(f) if f["t"] not in ("assign", "if", "ifelse", "while", "for", "block", "yield", "ret") else f, I(0)]))), call("gr"), I(1)], {"form": name}))
        disc.append(mk(ids, base + [f, block([f, I(0)]), assign("g", fn([], f)), call("g"), I(1)], {"form": name}, mode="discard"))
        for (n1, n2) in ((3, 6), (200, 400)):
            p = []
            for n in (n1, n2):
                for lname, loop in (("while-used", counted_while(n, f)), ("while-disc", [block(counted_while(n, f) + [I(0)])]),
                                    ("for-used", [fr(["q"], [call("fromto", I(0), I(n))], f)]), ("for-disc", [block([fr(["q"], [call("fromto", I(0), I(n))], f), I(0)])]),
                                    ("fn-while", [assign("lw", fn([], block(counted_while(n, f)))), call("lw")]),
                                    ("fn-for", [assign("lq", fn([], fr(["q"], [call("fromto", I(0), I(n))], f))), call("lq")])):
                    if tier == "quick" and n1 == 200 and lname not in ("while-disc", "for-used"):
                        continue
                    s = mk(ids, base + loop + [I(1)], {"form": name, "loop": lname, "n": n, "pairkey": "%s/%s/%d" % (name, lname, n1)})
                    p.append(s)
            pairs += p
    early = []
    retv = lst([N("i"), N("j")])
    for depth in (1, 2, 3):
        inner = iff(bin_("==", N("j"), I(1)), ret(retv))
        loop = fr(["j"], [call("fromto", I(0), I(3))], inner)
        for d in range(depth - 1):
            loop = fr(["i" if d == 0 else "h"], [call("fromto", I(0), I(3))], loop)
        if depth == 1:
            loop = fr(["j"], [call("fromto", I(0), I(3))], iff(bin_("==", N("j"), I(1)), ret(N("j"))))
        early.append(mk(ids, [assign("i", I(0)), loop, I(0), loop, I(0)], {"early": "top", "depth": depth}))
        early.append(mk(ids, [assign("f", fn([], block([assign("i", I(0)), loop]))), call("f"), call("f"), I(0), fr(["z"], [call("fromto", I(0), I(2))], call("f")), I(0)], {"early": "fn", "depth": depth}))
        early.append(mk(ids, [assign("i", I(0)), assign("gg", fn([], block([y(I(1)), y(I(2)), y(I(3))]))),
                              assign("f", fn([], fr(["a", "b"], [call("gg"), call("gg")], fr(["j"], [call("gg")], iff(bin_("==", N("j"), I(2)), ret(bin_("+", N("a"), N("j")))))))), call("f"), call("f"), I(0)], {"early": "multi", "depth": depth}))
    long_ = []
    rnd = random.Random(seed)
    for c in range(3 if tier == "quick" else 60):
        items = list(base)
        for _ in range(50):
            name, f = rnd.choice(forms)
            items.append(rnd.choice([f, block([f, I(0)]), fr(["q"], [call("fromto", I(0), I(3))], f)]))
        long_.append(mk(ids, items, {"long": c}))
    out = [("statement forms: used, mid-block, tail, returning", used, ("value", "residue")),
           ("statement forms: file mode (discarded)", disc, ("value", "residue"), "discard"),
           ("loops with bodies ending in each form, n and 2n iterations", pairs, ("value", "residue")),
           ("early return from nested loops", early, ("value", "residue")),
           ("sessions of 50 statements", long_, ("value", "residue"))]
    # statements that fail inside an iterator context (the argument check of a built-in generator, a division inside a generator body, a
    # generator of a generator), with 0 to 2 call frames around the loop: the machine is clean after the failing statement and after the ones that follow
    fe = []
    gdiv = assign("gdiv", fn(["n"], block([y(I(1)), y(bin_("/", I(1), N("n")))])))
    gwrap = assign("gwrap", fn(["n"], fr(["v"], [call("gdiv", N("n"))], y(N("v")))))
    loops = {"fromto with a string bound": fr(["i"], [call("fromto", I(0), St("x"))], assign("t", N("i"))), "elems of a number": fr(["i"], [call("elems", I(5))], assign("t", N("i"))),
             "division in a generator": fr(["i"], [call("gdiv", I(0))], assign("t", N("i"))), "generator of a generator": fr(["i"], [call("gwrap", I(0))], assign("t", N("i"))),
             "second of two iterators": fr(["i", "j"], [call("fromto", I(0), I(3)), call("gdiv", I(0))], assign("t", N("j")))}
    for lname, loop in loops.items():
        for depth in (0, 1, 2):
            if depth == 0:
                fail = [loop]
            elif depth == 1:
                fail = [assign("show", fn(["n"], block([assign("t", I(0)), loop, N("t")]))), call("show", I(1))]
            else:
                fail = [assign("show", fn(["n"], block([assign("t", I(0)), loop, N("t")]))), assign("outer", fn(["n"], block([assign("u", call("show", N("n"))), N("u")]))), call("outer", I(1))]
            fe.append(mk(ids, [IDF, gdiv, gwrap] + fail + [I(1), ret(I(0)), fr(["q"], [call("fromto", I(0), I(2))], N("q"))] + fail[-1:] + fail[-1:] + [I(2), ret(I(3))], {"fails-in-iterator": lname, "depth": depth}))
    out.append(("statements that fail inside an iterator context, then ordinary statements", fe, ("value", "residue")))
    return out, pairs


def c09_nontrivial(v):
    return any(n["t"] in ("while", "for", "call") for it in v.session["items"] if not it.get("perr") for n in walk(it))


c09_rule = ("17 statement forms in used / mid-block / block-tail / function-tail / returning / file-mode positions; while and for loops (top level, discarded, inside functions) "
            "whose body ends in each form with n and 2n iterations (3/6 and 200/400); early return from for loops nested 1-3 deep at top level, inside functions, "
            "under multi-iterator loops; sessions of 50 statements. After every item the real (sp, frames, closures, live contexts, ip gap) must be zero as CalcSem's NoResidue says, "
            "and for loop pairs whose specified continuation depth is equal the real peak stack pointer must be equal. non-trivial = contains a loop or a call")


# =============================================================== C10: values are immutable

def c10_ops():
    """(name, item builder over variable names)"""
    V = ["va", "vb", "vc", "vd"]
    ops = []
    for t in V:
        for s in V:
            ops.append(("slice01", lambda t=t, s=s: assign(t, ix2(N(s), I(0), I(1)))))
            ops.append(("slice12", lambda t=t, s=s: assign(t, ix2(N(s), I(1), I(2)))))
            ops.append(("slice02", lambda t=t, s=s: assign(t, ix2(N(s), I(0), I(2)))))
            ops.append(("append", lambda t=t, s=s: assign(t, bin_("+", N(s), lst([I(9)])))))
            ops.append(("appendslice", lambda t=t, s=s: assign(t, bin_("+", ix2(N(s), I(0), I(1)), lst([I(8), I(7)])))))
            ops.append(("cat", lambda t=t, s=s: assign(t, call("cat", N(s)))))
            ops.append(("nest", lambda t=t, s=s: assign(t, lst([N(s), N(t)]))))
            ops.append(("computed", lambda t=t, s=s: assign(t, lst([ix1(N(s), I(0)), bin_("+", un("#", N(s)), I(1))]))))
            ops.append(("concat", lambda t=t, s=s: assign(t, bin_("+", N(s), N(t)))))
        ops.append(("iter", lambda t=t: fr(["q"], [call("elems", N(t))], N("q"))))
        for s2 in V:
            # three-operand chains with an operand that may be empty, the other one possibly sharing storage with a third variable
            ops.append(("chain-mid-empty", lambda t=t, s2=s2: assign(t, bin_("+", bin_("+", N(s2), N("vd")), lst([I(9)])))))
            ops.append(("chain-front-empty", lambda t=t, s2=s2: assign(t, bin_("+", bin_("+", N("vd"), N(s2)), lst([I(9)])))))
            ops.append(("chain-literal-empty", lambda t=t, s2=s2: assign(t, bin_("+", bin_("+", ix2(N(s2), I(0), I(1)), lst([])), lst([I(6)])))))
        ops.append(("capture", lambda t=t: assign("kcl", call("mkcl", N(t)))))
        ops.append(("lit", lambda t=t: assign(t, call("lit"))))
        ops.append(("prefixlit3", lambda t=t: assign(t, call("pla", un("#", N(t))))))
        ops.append(("prefixlit5", lambda t=t: assign(t, call("plb", un("#", N(t))))))
        ops.append(("litloop", lambda t=t: fr(["q"], [call("fromto", I(0), I(2))], assign(t, bin_("+", call("lit"), lst([N("q")]))))))
        # a value captured by a generator closure, yielded several times while the consumer calls other closures (and plain functions) in between
        # the text of a value, kept (whole and a slice of it) while other values are turned into text
        ops.append(("toakeep", lambda t=t: block([assign("ks", call("toa", N(t))), assign("kt", ix2(call("toa", lst([N(t), I(5)])), I(0), I(3))), I(0)])))
        ops.append(("gencapture", lambda t=t: block([assign("kgen", call("mkgen", N(t))), assign("kget", call("mkcl", lst([N(t), I(77)]))), I(0)])))
        ops.append(("genconsume", lambda t=t: block([assign("acc", lst([])), fr(["v"], [call("kgen")], block([assign("acc", bin_("+", N("acc"), lst([N("v")]))), assign("oth", call("kget")), assign(t, call("cat", N(t)))])), lst([N("acc"), N("oth")])])))
        ops.append(("genconsume-in-fn", lambda t=t: block([assign("gcf", fn(["g", "h"], block([assign("acc", lst([])), fr(["v"], [call("g")], block([assign("acc", bin_("+", N("acc"), lst([N("v")]))), call("h")])), N("acc")]))), call("gcf", N("kgen"), N("kget"))])))
    return ops


def c10_families(tier, seed, ids=None):
    ids = ids or Ids()
    rnd = random.Random(seed)
    prelude = [assign("cat", fn(["x"], bin_("+", N("x"), lst([I(7)])))), assign("lit", fn([], lst([I(1), I(2), I(3)]))),
               assign("reclit", fn(["n"], ife(bin_("==", N("n"), I(0)), lst([I(4), I(5)]), bin_("+", call("reclit", bin_("-", N("n"), I(1))), lst([I(6)]))))),
               assign("mkcl", fn(["a"], fn([], N("a")))), assign("kcl", call("mkcl", lst([I(0)]))),
               assign("mkgen", fn(["a"], fn([], block([y(N("a")), y(N("a")), y(N("a"))])))), assign("kgen", call("mkgen", lst([I(1), I(2)]))), assign("kget", call("mkcl", lst([I(9)]))),
               assign("pla", fn(["x"], lst([I(1), I(2), I(3), N("x")]))), assign("plb", fn(["x"], lst([I(1), I(2), I(3), I(4), I(5), N("x"), bin_("+", N("x"), I(1))]))),
               assign("va", lst([I(1), I(2), I(3), I(4)])), assign("vb", lst([I(5), I(6)])), assign("vc", lst([lst([I(1)]), lst([I(2), I(3)])])), assign("vd", lst([])),
               assign("ks", call("toa", lst([I(10), I(20), I(30), I(40)]))), assign("kt", call("toa", lst([St("k")])))]
    sprelude = [assign("cat", fn(["x"], bin_("+", N("x"), St("z")))), assign("lit", fn([], St("lmn"))),
                assign("reclit", fn(["n"], ife(bin_("==", N("n"), I(0)), St("rs"), bin_("+", call("reclit", bin_("-", N("n"), I(1))), St("t"))))),
                assign("mkcl", fn(["a"], fn([], N("a")))), assign("kcl", call("mkcl", St("k"))),
                assign("mkgen", fn(["a"], fn([], block([y(N("a")), y(N("a")), y(N("a"))])))), assign("kgen", call("mkgen", St("gg"))), assign("kget", call("mkcl", St("hh"))),
                assign("pla", fn(["x"], bin_("+", St("123"), call("toa", N("x"))))), assign("plb", fn(["x"], bin_("+", St("12345"), call("toa", N("x"))))),
                assign("va", St("abcd")), assign("vb", St("ef")), assign("vc", St("g")), assign("vd", St("")),
                assign("ks", call("toa", lst([St("x10"), St("y20")]))), assign("kt", call("toa", lst([I(7)])))]
    probe = call("toa", lst([N("va"), N("vb"), N("vc"), N("vd"), call("kcl"), call("lit"), call("reclit", I(2)), N("ks"), N("kt")]))
    ops = c10_ops()
    ss = []
    if tier == "quick":
        seqs = [[rnd.choice(ops) for _ in range(rnd.randint(3, 7))] for _ in range(1500)]
    else:
        seqs = [[a, b] for a in ops for b in ops if shash((a[0], b[0], seed)) % 6 == 0]
        seqs += [[rnd.choice(ops) for _ in range(rnd.randint(3, 12))] for _ in range(6000)]
    for k, seq in enumerate(seqs):
        strs = k % 3 == 2
        items = list(sprelude if strs else prelude) + [probe]
        ok = True
        for name, b in seq:
            it = b()
            if strs and name.startswith("chain-"):
                e = it["e"]
                fix = lambda n_: St("9") if n_ == lst([I(9)]) else (St("6") if n_ == lst([I(6)]) else (St("") if n_ == lst([]) else n_))
                it = assign(it["tgt"]["n"], bin_("+", bin_("+", fix(e["l"]["l"]), fix(e["l"]["r"])), fix(e["r"])))
            if strs and name in ("nest", "computed", "append", "appendslice", "litloop", "iter"):
                if name == "append":
                    it = assign(it["tgt"]["n"], bin_("+", it["e"]["l"], St("9")))
                elif name == "iter":
                    pass
                else:
                    continue
            items += [it, probe]
        ss.append(mk(ids, items, {"ops": [n for n, _ in seq], "strings": strs}))
    # forks: a value built by k successive concatenations is extended twice; the first extension (held in a variable, an array and a
    # closure) must not change when the second is computed -- for strings and for arrays, at top level and inside a function
    fk = []
    for strs in (False, True):
        unit = (lambda c: St(c)) if strs else (lambda c: lst([St(c)]))
        for k in range(0, 5):
            for where in ("top", "fn"):
                build = [assign("s", unit("a"))] + [assign("s", bin_("+", N("s"), unit("bcdefgh"[j]))) for j in range(k)]
                fork = [assign("fa", bin_("+", N("s"), unit("X"))), assign("keep", lst([N("fa")])), assign("kc", call("mkcl", N("fa"))), assign("fb", bin_("+", N("s"), unit("Y"))),
                        assign("fc", bin_("+", bin_("+", N("s"), unit("Z")), unit("W")))]
                probe2 = lst([N("s"), N("fa"), N("fb"), N("fc"), N("keep"), call("kc")])
                if where == "top":
                    items = [assign("mkcl", fn(["a"], fn([], N("a"))))] + build + fork + [probe2]
                else:
                    items = [assign("mkcl", fn(["a"], fn([], N("a")))), assign("run", fn([], block(build + fork + [probe2]))), call("run"), call("run")]
                fk.append(mk(ids, items, {"ops": ["fork", "fork"], "fork": [strs, k, where]}))
    cg = []
    gen = assign("cgen", fn(["a"], block([y(fn([], N("a"))), y(fn([], lst([N("a"), N("a")])))])))
    pick = assign("cpick", fn(["a"], block([fr(["g"], [call("cgen", N("a"))], ret(N("g"))), I(0)])))
    for strs in (False, True):
        v1, v2 = (St("ab"), St("x")) if strs else (lst([I(1), I(2)]), lst([St("x")]))
        for later in ("loop", "pick-again", "nested-loops", "zip"):
            after = {"loop": [fr(["i"], [call("elems", lst([I(7), I(8), I(9)]))], assign("s", N("i")))],
                     "pick-again": [assign("j", call("cpick", v2))],
                     "nested-loops": [fr(["i"], [call("fromto", I(0), I(2))], fr(["w"], [call("fromto", I(5), I(7))], assign("s", bin_("+", N("i"), N("w")))))],
                     "zip": [fr(["i", "w"], [call("fromto", I(0), I(3)), call("elems", lst([I(4), I(5), I(6)]))], assign("s", bin_("+", N("i"), N("w"))))]}[later]
            body = [assign("k", call("cpick", v1)), assign("ra", call("k"))] + after + [assign("rb", call("k"))] + after + [lst([N("ra"), N("rb"), call("k")])]
            cg.append(mk(ids, [gen, pick, assign("cmain", fn([], block(body))), call("cmain"), call("cmain"), block(body)], {"ops": ["capture", "reuse"], "captured": [strs, later]}))
    # values that came from read(): held in a variable, as a slice, in an array and in a closure while many more lines are read
    # (enough input to go through any buffer: 8 KiB and, thorough, 70 KiB)
    rd = []
    for nlines, width in ((6, 10), (130, 64)) + (() if tier == "quick" else ((1100, 64), (40, 5000))):
        lines = [("line-%04d-" % i + "x" * width)[:width - 1] + "\n" for i in range(nlines + 4)]
        for where in ("top", "fn"):
            take = [assign("first", call("read")), assign("head", ix2(N("first"), I(0), I(9))), assign("kept", lst([N("first"), N("head")])), assign("kc", call("mkcl", N("first"))),
                    assign("second", call("read")), assign("both", bin_("+", N("first"), N("second")))]
            more = [assign("other", St("")), fr(["i"], [call("fromto", I(0), I(nlines))], assign("other", call("read")))]
            probe3 = lst([N("first"), N("head"), N("kept"), call("kc"), N("second"), N("both"), ix2(N("other"), I(0), I(9))])
            if where == "top":
                items = [assign("mkcl", fn(["a"], fn([], N("a"))))] + take + [probe3] + more + [probe3]
            else:
                items = [assign("mkcl", fn(["a"], fn([], N("a")))), assign("run", fn([], block(take + more + [probe3]))), call("run"), call("read")]
            rd.append(mk(ids, items, {"ops": ["read", "read"], "reads": [nlines, width, where]}, stdin=lines))
    # building an array literal does not change values that already exist: literals whose elements are computed with several operators,
    # as the right operand of a chain of concatenations (whose partial result exists while the elements are computed)
    al = []
    pre = [assign("head", lst([I(1), I(2)])), assign("mid", lst([I(3)])), assign("x", I(3)), assign("y", I(4)), assign("z", I(5)), assign("s", St("ab"))]
    elems_ = {"sum3": bin_("+", bin_("+", N("x"), N("y")), N("z")), "mul-add": bin_("+", bin_("*", N("x"), I(10)), N("y")), "one-op": bin_("+", N("x"), I(1)), "plain": N("x"),
              "nested-literal": lst([bin_("-", bin_("*", N("y"), N("z")), N("x"))]), "length": bin_("+", bin_("*", un("#", N("head")), I(2)), I(1))}
    for en, e in elems_.items():
        lit = lst([e])
        lit2 = lst([N("x"), e, e])
        probe = lst([N("head"), N("mid"), N("x"), N("y"), N("z")])
        items = pre + [bin_("+", bin_("+", N("head"), N("mid")), lit), assign("l", lit), bin_("+", bin_("+", N("head"), N("mid")), N("l")),
                       bin_("==", bin_("+", bin_("+", N("head"), N("mid")), lit), bin_("+", bin_("+", N("head"), N("mid")), N("l"))), probe,
                       bin_("+", bin_("+", bin_("+", N("head"), N("mid")), lit2), lit), bin_("+", N("head"), bin_("+", N("mid"), lit)), bin_("+", bin_("+", lit, N("head")), lit2), probe,
                       assign("run", fn(["n"], block([assign("acc", lst([])), fr(["i"], [call("fromto", I(0), N("n"))], assign("acc", bin_("+", bin_("+", N("acc"), lst([N("i")])), lst([bin_("+", bin_("*", N("i"), I(10)), bin_("+", N("i"), I(1)))])))), N("acc")]))),
                       call("run", I(3)), bin_("+", bin_("+", N("s"), call("toa", N("x"))), call("toa", lst([e]))), probe]
        al.append(mk(ids, items, {"ops": ["literal", "chain"], "element": en}))
    # a range taken directly from an element, from the result of a call, from a closure's captured array, from a literal inside a function:
    # the value it was taken from is what it was
    rg = []
    pre2 = [IDF, assign("m", lst([lst([I(1), I(2), I(3)]), lst([I(4), I(5), I(6)])])), assign("a", lst([I(1), I(2), I(3), I(4)])), assign("s", St("abcdef")),
            assign("mkg", fn(["c"], fn([], N("c")))), assign("g", call("mkg", lst([I(7), I(8), I(9)]))), assign("lit", fn(["n"], ix2(ix1(lst([lst([I(1), I(2), I(3)]), I(0)]), I(0)), I(0), N("n"))))]
    takes = {"element": (ix2(ix1(N("m"), I(0)), I(0), I(2)), N("m")), "call result": (ix2(call("id", N("a")), I(1), I(3)), N("a")), "closure result": (ix2(call("g"), I(0), I(1)), call("g")),
             "element of element": (ix2(ix1(ix1(lst([N("m")]), I(0)), I(1)), I(1), I(2)), N("m")), "string element": (ix2(ix1(lst([N("s")]), I(0)), I(2), I(4)), N("s")),
             "range of a range": (ix2(ix2(N("a"), I(0), I(3)), I(1), I(2)), N("a")), "concatenation": (ix2(bin_("+", N("a"), N("a")), I(2), I(6)), N("a"))}
    for tn, (take, orig) in takes.items():
        rg.append(mk(ids, pre2 + [orig, assign("r", take), orig, N("r"), assign("rr", take), orig, bin_("==", N("r"), N("rr")), call("lit", I(1)), call("lit", I(3)), call("lit", I(2)), N("m"), N("a"), N("s"), call("g")], {"ops": ["range", "of"], "taken-from": tn}))
    return [("operation histories over values that share structure", ss, ("value",)), ("a grown value extended twice", fk, ("value",)),
            ("a value captured by a closure that left its generator, across later loops of the same statement", cg, ("value",)),
            ("values returned by read() while more input is read", rd, ("value",)),
            ("array literals with computed elements as operands of a chain", al, ("value",)),
            ("ranges taken directly from elements, call results and captured arrays", rg, ("value",))]


def c10_nontrivial(v):
    return len(v.session.get("meta", {}).get("ops", [])) >= 2


c10_rule = ("histories of 2-12 operations over four variables holding arrays (incl. nested) or strings: slices [0:1] [1:2] [0:2], slice of slice, append, append to a slice, "
            "concatenation, passing to a concatenating function, nesting, literal with computed elements, iteration with elems, capture in a closure, a literal-returning "
            "function called in a loop and recursively; after every operation toa() of all four variables, of the captured value and of the literals is compared with the "
            "specification (values are mathematical there). non-trivial = at least two operations (structure is shared before the last one)")


# =============================================================== C12: an expression means the same wherever it is written

def c12_families(tier, seed, ids=None, ck=None):
    ids = ids or Ids()
    e2 = gens.exprs_depth2()
    if tier == "quick":
        e2 = e2[seed % 9::9]
    # the depth-1 product is enumerated by TLC itself from CalcEnum.tla
    out = [("expressions depth 1 x contexts (enumerated by TLC from CalcEnum.tla)", gens.enum_sessions(seed, 5 if tier == "quick" else 1, first_id=1, ck=ck), ("value",)),
           ("expressions depth 2 x contexts", gens.context_sessions(e2, first_id=1000000), ("value",))]
    ed = gens.exprs_deep()
    if tier == "quick":
        ed = ed[seed % 5::5]      # six shapes per (operand, neighbour, operator): a stride coprime to 6 samples every shape with every seed
    out.append(("operands with >= 2 operators inside x operator depth 0-3 x contexts", gens.context_sessions(ed, first_id=1500000, ctx_filter={"top", "midblock", "fntail", "arg", "assign", "elem2", "forbody", "ifcond", "yield", "write"}), ("value",)))
    # negated comparisons over special values (NaN, infinities, signed zero): the shapes a compiler may fold, in every context
    nan, inf = bin_("/", Fl(0, 0), Fl(0, 0)), bin_("/", Fl(1, 0), Fl(0, 0))
    sp = [nan, inf, un("-", inf), Fl(3, 1), I(2), Fl(0, 0), N("x")]
    neg = []
    for op in ("<", "<=", ">", ">=", "==", "!="):
        for a_, b_ in ((nan, Fl(1, 0)), (Fl(1, 0), nan), (nan, nan), (inf, nan), (nan, N("x")), (inf, inf), (Fl(3, 1), I(2)), (N("x"), Fl(1, 0))):
            neg += [un("!", bin_(op, a_, b_)), un("!", un("!", bin_(op, a_, b_))), bin_("&", un("!", bin_(op, a_, b_)), Bo(True)), bin_("==", un("!", bin_(op, a_, b_)), bin_(op, a_, b_))]
    if tier == "quick":
        neg = neg[seed % 2::2]
    out.append(("negated comparisons over NaN / infinities x contexts", gens.context_sessions(neg, first_id=1800000, ctx_filter={"top", "midblock", "fntail", "fnret", "arg", "assign", "fnassign", "elem", "ifcond", "whilecond", "ifbody", "forbody", "yield", "write", "opl"}), ("value",)))
    # logical operators evaluate both operands wherever they are written: right operands that write, fail, or are no booleans, behind a left
    # operand that already decides the outcome
    deciders = [Bo(False), Bo(True), bin_("==", N("x"), I(1)), bin_("!=", N("x"), I(1)), un("!", Bo(True))]
    observables = [I(1), bin_(">", bin_("/", I(10), bin_("-", N("x"), N("x"))), I(1)), N("u"), call("id", Bo(True)), bin_("==", call("write", St("R")), N("u")), St("s"), bin_("<", ix1(N("a"), I(9)), I(1))]
    lg = []
    for op in ("&&", "||", "&", "|"):
        for dcd in deciders:
            for ob in observables:
                lg += [bin_(op, dcd, ob), un("!", bin_(op, dcd, ob)), bin_(op, ob, dcd)]
    if tier == "quick":
        lg = lg[seed % 3::3]
    out.append(("logical operators with an observable right operand x contexts", gens.context_sessions(lg, first_id=1900000, ctx_filter={"top", "midblock", "fntail", "arg", "assign", "elem", "ifcond", "ifcondmid", "whilecond", "ifelsefn", "ifbody", "forbody", "yield"}), ("value",)))
    # chains of one operator with literal operands behind a variable operand (the shapes a constant folder or a re-association would
    # touch): the value of `e op k1 op k2` is that of `t = e op k1` then `t op k2`, whatever e holds
    ch = []
    lits = [(I(1), I(1)), (I(3), I(7)), (Fl(5, 1), I(2)), (I(2), Fl(25, 2)), (I(30000), I(30000))]
    for op in ("+", "-", "*", "/", "%", "<<", "&"):
        for k1, k2 in lits:
            for e in (N("x"), N("fx"), N("u"), St("s"), N("a"), Fl(15, 1), I(6)):
                ch += [bin_(op, bin_(op, e, k1), k2), bin_(op, k1, bin_(op, k2, e)), bin_(op, bin_(op, k1, k2), e), bin_(op, bin_(op, bin_(op, e, k1), k2), k1), bin_("==", bin_(op, bin_(op, e, k1), k2), bin_(op, bin_(op, e, k1), k2))]
    if tier == "quick":
        ch = ch[seed % 5::5]
    out.append(("chains of one operator with literal operands x contexts", gens.context_sessions(ch, first_id=1950000, ctx_filter={"top", "fntail", "arg", "assign", "elem", "ifcond", "forbody", "yield", "opl"}), ("value",)))
    # unary operators applied directly to a call (the callee computes with nested operators and leaves its own intermediate values
    # behind), as left operand, right operand, alone and nested -- the value is that of the operator applied to a variable holding the result
    F3, Fx = call("f", I(3)), call("f", N("x"))
    LN = call("id", St("abc"))
    uc = []
    for c_ in (F3, Fx):
        uc += [bin_("+", un("-", c_), I(5)), bin_("-", bin_("*", un("-", c_), I(2)), I(1)), un("-", c_), bin_("+", I(5), un("-", c_)), bin_("<", un("-", c_), I(0)), bin_("+", un("-", c_), c_),
               bin_("+", un("~", c_), I(1)), bin_("&", un("!", bin_(">", c_, I(5))), Bo(True)), bin_("*", un("-", un("-", c_)), I(3)), bin_("+", un("#", call("toa", c_)), I(1)),
               bin_("+", un("-", bin_("*", c_, I(2))), c_), bin_("-", un("-", c_), un("-", c_))]
    uc += [bin_("+", un("#", LN), I(1)), bin_("+", un("#", bin_("+", LN, LN)), un("#", LN)), bin_("+", un("-", un("#", LN)), I(1))]
    if tier == "quick":
        uc = uc[seed % 2::2] + uc[:2]
    out.append(("unary operators applied to calls x contexts", gens.context_sessions(uc, first_id=1970000, ctx_filter={"top", "fntail", "fnmid", "arg", "assign", "elem", "ifcond", "whilecond", "forbody", "yield", "opl", "write"}), ("value",)))
    ids = Ids(2000000)
    # rewrite pairs of the property text
    rw = []
    inits = {"int": I(4), "float": Fl(5, 1), "string": St("s"), "nil": None, "array": lst([I(1)])}
    for tname, init in inits.items():
        for scope in ("global", "local"):
            variants = {"x=x+1": [assign("x", bin_("+", N("x"), I(1)))], "x=1+x": [assign("x", bin_("+", I(1), N("x")))],
                        "t=x;x=t+1": [assign("t", N("x")), assign("x", bin_("+", N("t"), I(1)))],
                        "x=x+1.0": [assign("x", bin_("+", N("x"), Fl(1, 0)))], "x=1.0+x": [assign("x", bin_("+", Fl(1, 0), N("x")))],
                        "t=x;x=t+1.0": [assign("t", N("x")), assign("x", bin_("+", N("t"), Fl(1, 0)))]}
            for vname, stmts in variants.items():
                pre = [assign("x", init)] if init is not None else []
                tail = [N("x"), bin_("/", N("x"), I(3)), call("toa", N("x"))]
                if scope == "global":
                    items = pre + stmts + tail
                else:
                    items = [assign("f", fn([], block(pre + stmts + [lst(tail)] if tname != "nil" else pre + stmts + [N("x")]))), call("f")]
                rw.append(mk(ids, items, {"rewrite": "inc", "type": tname, "scope": scope, "variant": vname}))
                if init is not None:
                    # the first assignment to x inside a function increments the *outer* x (global, or captured from the definer)
                    rw.append(mk(ids, [assign("x", init), assign("f", fn([], block(stmts + [N("x")]))), call("f"), N("x"), call("f")], {"rewrite": "inc-outer-global", "type": tname, "variant": vname}))
                    rw.append(mk(ids, [assign("mkc", fn(["x"], fn([], block(stmts + [N("x")])))), assign("cnt", call("mkc", init)), call("cnt"), call("cnt")], {"rewrite": "inc-outer-captured", "type": tname, "variant": vname}))
    es = gens.ATOMS + gens.SMALL + [fn([], I(1)), lst([N("x"), lst([N("x")])]), call("id", N("a")), bin_("-", N("x"), Fl(1, 1)),
                                    un("#", lst([I(1)])), ix1(lst([I(1), I(2)]), I(0)), ix2(lst([I(1), I(2)]), I(0), I(1)), un("!", bin_("==", lst([I(1)]), lst([I(2)]))), fn(["p"], N("p")),
                                    un("-", lst([I(1)])), bin_("+", lst([I(1)]), lst([N("x")]))]
    for op in props_allops():
        for e in es:
            rw.append(mk(ids, gens.PRELUDE + [bin_(op, e, e)], {"rewrite": "e op e", "op": op, "e": pe(e), "variant": "direct"}))
            rw.append(mk(ids, gens.PRELUDE + [assign("t", e), bin_(op, N("t"), N("t"))], {"rewrite": "e op e", "op": op, "e": pe(e), "variant": "via t"}))
            rw.append(mk(ids, gens.PRELUDE + [assign("g", fn([], bin_("+", bin_(op, e, e), I(0)) if op in ("+", "-", "*") else bin_(op, e, e))), call("g")], {"rewrite": "e op e", "op": op, "e": pe(e), "variant": "fn"}))
            rw.append(mk(ids, gens.PRELUDE + [bin_("==", bin_(op, e, e), bin_(op, e, e)), un("!", bin_("==", bin_(op, e, e), I(0))) if op in ("+", "-", "*", "/", "%", "&", "|", "<<", ">>") else un("!", bin_(op, e, e))],
                         {"rewrite": "e op e", "op": op, "e": pe(e), "variant": "depth1"}))
    conds = [Bo(True), Bo(False), bin_("<", N("x"), I(2)), bin_("==", N("a"), N("a")), I(1), N("u"), St("a"), lst([]), bin_("+", N("x"), I(1)), call("f", I(1))]
    A, B = bin_("+", N("x"), I(10)), St("else")
    for c in conds:
        for wrap in ("top", "mid", "fn", "loop"):
            for neg in (True, False):
                st = ife(un("!", c), A, B) if neg else ife(c, B, A)
                if wrap == "top":
                    items = [st]
                elif wrap == "mid":
                    items = [block([st, I(0)])]
                elif wrap == "fn":
                    items = [assign("g", fn([], st)), call("g")]
                else:
                    items = [fr(["q"], [call("fromto", I(0), I(2))], st)]
                rw.append(mk(ids, gens.PRELUDE + items, {"rewrite": "if !c", "c": pe(c), "wrap": wrap, "neg": neg}))
        for form in ("if", "while", "ifelse", "if-mid", "while-mid", "if-fn-mid", "if-not"):
            body = {"if": iff(c, I(5)), "while": assign("g", fn([], wh(c, ret(I(5))))), "ifelse": ife(c, I(5), I(6)), "if-mid": block([iff(c, I(5)), I(0)]),
                    "while-mid": assign("g", fn([], block([wh(c, ret(I(5))), I(0)]))), "if-fn-mid": assign("g", fn([], block([iff(c, I(5)), I(0)]))), "if-not": block([iff(un("!", c), I(5)), I(0)])}[form]
            items = [body] + ([call("g")] if body["t"] == "assign" else [])
            rw.append(mk(ids, gens.PRELUDE + items, {"rewrite": "condition type", "c": pe(c), "form": form}))
    out.append(("rewrite pairs: increment forms, e op e, if !c, condition types", rw, ("value",)))
    return out


def props_allops():
    return ["+", "-", "*", "/", "%", "<", ">", "<=", ">=", "==", "!=", "&", "|", "&&", "||", "<<", ">>"]


def c12_nontrivial(v):
    return True


c12_rule = ("every expression of depth <= 2 over nine atoms (int, global, float, string, array literal, call, undefined name, bool, array variable) x 30 embedding contexts "
            "(used / discarded / mid-block / function tail / return / call argument / assignment / array element / operand / condition / loop bodies / iterator / yield / write / indexed); "
            "the rewrite pairs of the property: x=x+1 | x=1+x | t=x;x=t+1 over int/float/string/nil/array x global/local, e op e | t=e;t op t for all 17 operators, "
            "if !c A else B | if c B else A in four positions, boolean and non-boolean conditions in seven positions. Each placement must produce the specified observation, "
            "hence placements of one expression agree with each other; all sessions distinct by construction")


# =============================================================== C17: built-ins keep their contracts

def c17_families(tier, seed, ids=None):
    ids = ids or Ids()
    rnd = random.Random(seed)
    out = []
    vals = [I(0), I(7), I(-3), I(1000), I(-1000), I(123456789), I(1 << 20), Fl(3, 1), Fl(1, 3), Fl(5, 2, True), Fl(0, 0), bin_("/", Fl(1, 0), Fl(0, 0)), bin_("/", Fl(0, 0), Fl(0, 0)),
            Bo(True), Bo(False), St(""), St("ab"), St("a b\n"), St("100%"), St("5%d left, %s %v %%"), lst([St("%d"), lst([St("%")])]), lst([]), lst([I(1), Fl(1, 1), St("x"), Bo(True)]), lst([lst([I(1)]), lst([])]), N("id"), lst([N("id")])]
    ss = []
    for v in vals:
        ss.append(mk(ids, [props_IDF(), call("toa", v), call("write", v), call("write", call("toa", v)), bin_("==", call("toa", call("toa", v)), call("toa", v)), un("#", call("toa", v))], {"toa": pe(v)}))
    out.append(("toa renders what write prints", ss, ("value",)))
    rt = []
    chunks = [(-1000, -500), (-500, 0), (0, 500), (500, 1001)] if tier == "thorough" else [(-40, 41)]
    for lo, hi in chunks:
        rt.append(mk(ids, [assign("bad", lst([])), fr(["n"], [call("fromto", I(lo), I(hi))], iff(bin_("!=", call("aton", call("toa", N("n"))), N("n")), assign("bad", bin_("+", N("bad"), lst([N("n")]))))), N("bad")], {"roundtrip": [lo, hi]}))
    pw = [(1 << k) + d for k in range(1, 30) for d in (-1, 0, 1)]
    rt.append(mk(ids, [assign("bad", lst([])), fr(["n"], [call("elems", lst([I(p) for p in pw] + [I(-p) for p in pw]))], iff(bin_("!=", call("aton", call("toa", N("n"))), N("n")), assign("bad", bin_("+", N("bad"), lst([N("n")]))))), N("bad")], {"roundtrip": "powers"}))
    fls = [Fl(n, e, neg) for n in (1, 3, 5, 7, 100, 1001) for e in (0, 1, 2, 3) for neg in (False, True)]
    rt.append(mk(ids, [assign("bad", lst([])), fr(["n"], [call("elems", lst(fls))], iff(bin_("!=", call("aton", call("toa", N("n"))), N("n")), assign("bad", bin_("+", N("bad"), lst([N("n")]))))), N("bad")], {"roundtrip": "floats"}))
    bigs = [(1 << 31) - 1, 1 << 31, (1 << 31) + 1, -(1 << 31) - 1, 1 << 32, (1 << 53) + 1, 10 ** 17 + 7, (1 << 62) + 3, 999999999999999999, -999999999999999999, 1073741825, 1073741824, 1073741823]
    for b in bigs:
        rt.append(mk(ids, [call("toa", call("aton", call("toa", I(b)))), call("aton", St(str(b))), call("write", call("aton", St(str(b)))), bin_("==", call("aton", call("toa", I(b))), I(b)),
                           call("toa", lst([I(b), call("aton", St(str(b)))]))], {"bigint": b}))
    # finite floats outside the exact sub-domain, carried by their bits: equality and the round trip are specified, the text is not.
    # Literals of 15 to 17 significant digits, results of non-dyadic divisions re-entered as literals, neighbours of round numbers.
    import struct
    ofl = [0.1, 0.2, 0.30000000000000004, 1.0 / 3, 2.0 / 3, 1.1 * 1.1, 100.0 / 7, 0.1 + 0.7, 1234567.891, 3.141592653589793, 2.718281828459045, 1e15 + 0.3, 0.0001234,
           4503599627370497.5, 9007199254740993.0 / 1024 + 0.1, 123456789.12345679, 0.1 * 3, 1.15, 2.675, 1e-4 * 1.0000000000000002]
    r17 = random.Random(seed * 31 + 17)
    for _ in range(12 if tier == "quick" else 400):
        m = r17.getrandbits(52)
        ex = r17.choice([1010, 1019, 1020, 1021, 1022, 1023, 1024, 1025, 1030, 1040, 1060, 1070])
        ofl.append(struct.unpack(">d", struct.pack(">Q", (ex << 52) | m))[0])
    ofl = [x for x in ofl if 1e-4 <= x < 1e16 and "e" not in repr(x) and FlOpq(x)["v"]["bits"] != ""]
    ofl = [x for x in ofl if not (x == int(x) and x < 2 ** 30) and (x * 2 ** 40) != int(x * 2 ** 40) or x >= 2 ** 30]   # keep only floats the exact sub-domain does not hold
    for i, x in enumerate(ofl):
        X = FlOpq(x)
        other = FlOpq(ofl[(i + 1) % len(ofl)])
        rt.append(mk(ids, [assign("x", X), bin_("==", call("aton", call("toa", N("x"))), N("x")), call("aton", call("toa", N("x"))), call("toa", N("x")), bin_("==", N("x"), N("x")),
                           bin_("!=", N("x"), other), bin_("==", lst([N("x"), I(1)]), lst([call("aton", call("toa", N("x"))), I(1)])), bin_("==", N("x"), I(3)), bin_("==", N("x"), Fl(3, 1)),
                           assign("f", fn(["v"], call("aton", call("toa", N("v"))))), bin_("==", call("f", N("x")), N("x")), bin_("!=", call("f", other), N("x"))], {"opaque float": repr(x)}))
    for s in ["12", "-7", "1.5", "0.25", "-3.0", "zz", "", "12a", " 1", "007", "1000", "1.", ".5", "--1", "1e3", "0x10", "1_0", "+5", "Inf", "NaN"]:
        rt.append(mk(ids, [call("aton", St(s))], {"aton": s}))
    out.append(("aton(toa(n)) == n and aton forms", rt, ("value",)))
    ft = []
    for a in range(-3, 5):
        for b in range(-3, 5):
            ft.append(mk(ids, [assign("acc", lst([])), fr(["q"], [call("fromto", I(a), I(b))], assign("acc", bin_("+", N("acc"), lst([N("q")])))), N("acc")], {"fromto": [a, b]}))
    for a, b in [(Fl(1, 1), I(3)), (I(0), Fl(5, 1)), (St("a"), I(3)), (I(1), St("b")), (N("nn"), I(2)), (lst([]), I(1)), (Bo(True), Bo(False))]:
        ft.append(mk(ids, [assign("acc", lst([])), fr(["q"], [call("fromto", a, b)], assign("acc", bin_("+", N("acc"), lst([N("q")])))), N("acc")], {"fromto": [pe(a), pe(b)]}))
    seqs = [lst([]), lst([I(5)]), lst([I(5), St("x"), lst([I(1)])]), lst([I(1), I(2), I(3)]), St(""), St("a"), St("abc"), I(3), N("nn"), Bo(True), N("id"), Fl(1, 1)]
    for x in seqs:
        for g in ("elems", "indices"):
            ft.append(mk(ids, [props_IDF(), assign("acc", lst([])), fr(["q"], [call(g, x)], assign("acc", bin_("+", N("acc"), lst([N("q")])))), N("acc")], {g: pe(x)}))
    for c in [call("toa"), call("toa", I(1), I(2)), call("aton"), call("aton", I(1)), call("aton", St("1"), St("2")), call("fromto", I(1)), call("fromto"), call("elems"), call("indices", I(1), I(2)),
              call("write"), call("write", I(1), I(2)), call("read", I(1))]:
        ft.append(mk(ids, [c, fr(["q"], [c], N("q")), I(1)], {"arity": pe(c)}))
    out.append(("fromto / elems / indices / argument errors", ft, ("value",)))
    # the built-ins keep their contracts whatever the program binds to the names of the other built-ins
    ub = []
    others = {"fromto": lambda: fr(["q"], [call("fromto", I(1), I(4))], assign("acc", bin_("+", N("acc"), lst([N("q")])))),
              "elems": lambda: fr(["q"], [call("elems", St("calc"))], assign("acc", bin_("+", N("acc"), lst([N("q")])))),
              "indices": lambda: fr(["q"], [call("indices", lst([I(7), I(8), I(9)]))], assign("acc", bin_("+", N("acc"), lst([N("q")])))),
              "elems-nested": lambda: fr(["q"], [call("elems", lst([lst([I(1), St("a")]), Fl(5, 1)]))], assign("acc", bin_("+", N("acc"), lst([N("q")])))),
              "toa": lambda: assign("acc", bin_("+", N("acc"), lst([call("toa", lst([I(1), St("x")]))]))), "aton": lambda: assign("acc", bin_("+", N("acc"), lst([call("aton", St("12"))]))),
              "write": lambda: call("write", St("w"))}
    rebinds = [I(3), lst([I(0), I(2)]), St("s"), fn(["a"], y(I(99))), fn(["a", "b"], block([y(N("a")), y(N("b"))])), fn([], I(0))]
    for name in ("fromto", "elems", "indices", "toa", "aton", "write"):
        for rb in rebinds:
            items = [assign(name, rb)]
            for oname, mko in others.items():
                if oname.split("-")[0] == name:
                    continue
                items += [assign("acc", lst([])), mko(), N("acc")]
            ub.append(mk(ids, items, {"rebound": name, "to": pe(rb)[:30]}))
    if tier == "quick":
        ub = [x for i, x in enumerate(ub) if (i + seed) % 2 == 0]
    out.append(("built-ins after the program rebound the name of another built-in", ub, ("value",)))
    rd = []
    inputs = [["s\n", "x" * 4095 + "\n", "y" * 5000 + "\n", "t\n"], [], ["a\n"], ["a\n", "b\n"], ["l1\n", "l2\n", "l3\n"], ["\n", "x\n"], ["1\n", "2\n", "3\n", "4\n", "5\n"], ["a\n", "b"], ["only"]]
    for inp in inputs:
        for nreads in range(0, 5):
            for inter in ("plain", "writes", "error", "failing-read-statement", "in-function", "in-loop"):
                reads = []
                for k in range(nreads):
                    if inter == "plain":
                        reads.append(call("read"))
                    elif inter == "writes":
                        reads += [call("write", St("w")), call("read")]
                    elif inter == "error":
                        reads += [call("read"), bin_("/", I(1), I(0))]
                    elif inter == "failing-read-statement":
                        reads.append(bin_("+", call("read"), I(1)) if k == 0 else call("read"))
                    elif inter == "in-function":
                        reads.append(call("rd"))
                    else:
                        pass
                if inter == "in-loop":
                    reads = [assign("acc", lst([])), fr(["q"], [call("fromto", I(0), I(nreads))], assign("acc", bin_("+", N("acc"), lst([call("read")])))), N("acc")]
                rd.append(mk(ids, [assign("rd", fn([], bin_("+", St(">"), call("read"))))] + reads + [I(1)], {"read": [inp, nreads, inter]}, stdin=inp))
    if tier == "quick":
        keep = [x for x in rd if len(x["meta"]["read"][0]) == 4 and len(x["meta"]["read"][0][1]) > 4000 and x["meta"]["read"][1] == 4]
        rd = keep + [x for x in rd if x["meta"]["read"][2] == "failing-read-statement" and x["meta"]["read"][1] >= 2 and len(x["meta"]["read"][0]) in (2, 3, 5)] + rnd.sample(rd, 80)
    out.append(("sequences of read() against piped input", rd, ("value",)))
    # calls of built-ins with an effect (read consumes a line, write prints) that are written twice in one expression: each occurrence is
    # its own call, whatever the expression around them looks like
    tw = []
    R = lambda: call("read")
    AR = lambda: call("aton", call("read"))
    shapes = {"sum-then-more": bin_("+", bin_("+", R(), R()), St("|")), "three": bin_("+", bin_("+", R(), R()), R()), "length-of-sum": un("#", bin_("+", R(), R())), "element": lst([bin_("+", R(), R())]),
              "compare": bin_("==", R(), R()), "compare-then-and": bin_("&", bin_("==", R(), R()), Bo(True)), "numbers": bin_("+", bin_("*", AR(), AR()), I(1)), "numbers-minus": bin_("-", bin_("-", AR(), AR()), AR()),
              "right-nested": bin_("+", St("x"), bin_("+", R(), R())), "argument": call("id", bin_("+", bin_("+", R(), R()), St("!"))), "pair": lst([R(), R()]),
              "writes": bin_("==", bin_("==", call("write", St("w")), call("write", St("w"))), Bo(True)), "toa-twice": bin_("+", bin_("+", call("toa", I(1)), call("toa", I(1))), St("."))}
    for sname, e in shapes.items():
        for where in ("top", "fn", "loop"):
            inp = ["1\n", "2\n", "3\n", "4\n", "5\n", "6\n", "7\n", "8\n"]
            if where == "top":
                items = [IDF, e, call("read")]
            elif where == "fn":
                items = [IDF, assign("g", fn([], e)), call("g"), call("g"), call("read")]
            else:
                items = [IDF, assign("acc", lst([])), fr(["q"], [call("fromto", I(0), I(2))], assign("acc", bin_("+", N("acc"), lst([e])))), N("acc"), call("read")]
            tw.append(mk(ids, items, {"twice": sname, "where": where, "read": [inp, 2, "twice"]}, stdin=inp))
    out.append(("calls of read / write written twice in one expression", tw, ("value",)))
    return out


def props_IDF():
    return IDF


def c17_nontrivial(v):
    m = v.session.get("meta", {})
    return not ("read" in m and m["read"][1] < 2)


c17_rule = ("toa/write over 23 values of every type (ints to 2^20, dyadic floats, signed zero, Inf, NaN, strings, nested arrays, functions); aton(toa(n)) == n for all ints in "
            "-1000..1000, +-2^k+-1 for k < 30 and 48 dyadic floats, and for finite floats outside the exact sub-domain carried by their float64 bits (20 fixed ones needing up to 17 "
            "significant digits + random mantissas at 12 exponents: aton(toa(x)) == x directly, through a function and inside an array, x == x, x != y), 20 aton spellings; fromto(a,b) for all -3 <= a,b <= 4 plus float/string/nil/array/bool arguments; "
            "elems/indices over 12 arguments of every type; arity errors of every builtin; 0-4 read() calls (plain, interleaved with writes, with errors, inside a function, inside a loop) "
            "against 8 piped inputs of 0-5 lines. non-trivial = not a read vector with fewer than two reads")


# =============================================================== C19: runtime error reports

def c19_families(tier, seed, ids=None):
    ids = ids or Ids()
    rnd = random.Random(seed)
    errs = {"zerodiv": lambda x: bin_("/", x, I(0)), "index": lambda x: ix1(lst([x, I(2)]), I(5)), "type": lambda x: bin_("+", x, St("a")),
            "nil": lambda x: bin_("+", N("nosuch"), x), "conversion": lambda x: call("aton", St("zz")), "arity": lambda x: call("two", x),
            "mod0": lambda x: bin_("%", x, I(0)), "cond": lambda x: iff(x, I(1)), "calltype": lambda x: call("notfn", x), "nilassign": lambda x: assign("t", N("nosuch")),
            "long-operand": lambda x: bin_("+", lst([x, I(1), I(2), I(3), I(4), I(5), I(6), I(7), I(8), I(9), I(10), I(11)]), I(1)),
            "deep-expr": lambda x: bin_("+", bin_("*", bin_("+", x, I(1)), I(2)), bin_("/", x, bin_("-", x, x))), "slice": lambda x: ix2(St("abc"), x, I(9)), "unary": lambda x: un("#", x)}
    base = [assign("two", fn(["a", "b"], N("a"))), assign("notfn", I(3))]
    ss = []
    for ename, mkE in errs.items():
        e = mkE(N("q"))
        e0 = mkE(I(7))
        ss.append(mk(ids, base + [e0], {"err": ename, "where": "top"}))
        ss.append(mk(ids, base + [assign("f", fn(["q", "n"], ife(bin_("==", N("n"), I(0)), e, call("f", bin_("+", N("q"), I(1)), bin_("-", N("n"), I(1)))))), call("f", I(7), I(0)), call("f", I(7), I(1)), call("f", I(7), I(3))], {"err": ename, "where": "depth"}))
        ss.append(mk(ids, base + [assign("h", fn(["cb", "x"], call("cb", N("x")))), assign("bad", fn(["q"], e)), call("h", N("bad"), I(7))], {"err": ename, "where": "param-holding-fn"}))
        ss.append(mk(ids, base + [assign("mkf", fn(["q"], fn(["b"], e))), assign("dv", call("mkf", I(9))), call("dv", I(0))], {"err": ename, "where": "closure"}))
        ss.append(mk(ids, base + [assign("f", fn(["q"], block([assign("q", bin_("+", N("q"), I(100))), e]))), call("f", I(1))], {"err": ename, "where": "param-reassigned"}))
        ss.append(mk(ids, base + [assign("g", fn(["q"], fr(["i"], [call("fromto", I(0), I(3))], iff(bin_("==", N("i"), I(1)), e)))), call("g", I(13))], {"err": ename, "where": "loop-body"}))
        ss.append(mk(ids, base + [assign("f", fn(["q"], block([y(I(1)), e, y(I(2))]))), assign("g", fn(["x"], fr(["i"], [call("f", I(5))], call("write", bin_("+", N("i"), N("x")))))), assign("h", fn([], call("g", I(13)))), call("h"), assign("half", fn(["n"], bin_("/", I(10), N("n")))), call("half", I(0)), call("h"), call("half", I(0))], {"err": ename, "where": "in-generator"}))
        ss.append(mk(ids, base + [assign("f", fn(["q"], block([y(N("q")), e]))), assign("m", fn(["it"], fr(["e"], [call("it", I(4))], y(bin_("*", N("e"), I(2)))))),
                                  assign("top", fn(["z"], fr(["v"], [call("m", N("f"))], N("v")))), call("top", I(8))], {"err": ename, "where": "gen-of-gen"}))
        ss.append(mk(ids, base + [assign("f", fn(["q"], block([y(I(1)), e]))), fr(["i"], [call("f", I(3))], N("i"))], {"err": ename, "where": "top-level-gen"}))
        ss.append(mk(ids, base + [assign("f", fn(["q"], block([y(I(1)), y(I(2))]))), assign("g", fn(["q"], fr(["i"], [call("f", I(3))], iff(bin_("==", N("i"), I(2)), e)))), call("g", I(6))], {"err": ename, "where": "body-while-generator-suspended"}))
    if tier == "quick":
        ss = [s for i, s in enumerate(ss) if (i + seed) % 3 == 0]
    # operand and parameter values whose rendering is cut at 20 characters: elements that render to nothing, to one character, long
    # strings, nested arrays -- as operand of the failing instruction and as parameter of every active call
    rows = [lst([St("")] * 7 + [St("x"), St("y")]), lst([St("")] * 12), lst([St("")] * 3 + [I(1)] * 9), lst([I(i) for i in range(12)]), lst([St("ab")] * 8),
            St("abcdefghijklmnopqrstuvwxyz"), lst([lst([St("")] * 4)] * 4), lst([St(""), St("")]), lst([]), St(""), St("50%"), St("%d items"), lst([St("%s"), St("%v%%")]), St("%")]
    for k, row in enumerate(rows):
        ss.append(mk(ids, base + [assign("row", row), assign("pick", fn(["r", "i"], ix1(N("r"), N("i")))), call("pick", N("row"), I(99)),
                                  assign("sum", fn(["r"], block([assign("t", I(0)), fr(["e"], [call("elems", N("r"))], assign("t", bin_("+", N("t"), call("aton", St("zz"))))), N("t")]))),
                                  call("sum", bin_("+", N("row"), N("row")) if row["t"] == "list" else N("row")), bin_("+", N("row"), I(1)),
                                  assign("g", fn(["r"], block([y(I(1)), ix1(N("r"), I(77))]))), assign("tot", fn(["r"], fr(["v"], [call("g", N("r"))], N("v")))), call("tot", N("row"))],
                     {"err": "abbreviated", "where": "row %d" % k}))
    # the increment forms (x = x + 1, x = 1 + x: one instruction in the compiled code) failing on a value that is not a number:
    # the report must show the value the instruction saw
    for k, (vname, v) in enumerate([("string", St("50")), ("array", lst([I(1), I(2)])), ("bool", Bo(True)), ("function", N("two")), ("nil", N("nosuch")), ("long string", St("abcdefghijklmnopqrstuvwxyz"))]):
        for form in ("x+1", "1+x"):
            inc = lambda nm: assign(nm, bin_("+", N(nm), I(1)) if form == "x+1" else bin_("+", I(1), N(nm)))
            ss.append(mk(ids, base + ([assign("gs", v)] if vname != "nil" else []) + [inc("gs") if vname != "nil" else inc("gnone"),
                                      assign("f", fn(["q", "n"], block([assign("k", I(0)), wh(bin_("<", N("k"), N("n")), block([assign("k", bin_("+", N("k"), I(1))), inc("q")])), N("q")]))),
                                      call("f", v, I(2)), assign("h", fn(["cb", "x"], call("cb", N("x"), I(1)))), call("h", N("f"), v),
                                      assign("g", fn(["q"], block([y(I(1)), inc("q"), y(N("q"))]))), fr(["i"], [call("g", v)], N("i")), call("f", I(5), I(2))],
                         {"err": "increment", "where": "%s %s" % (vname, form)}))
    # a failing call chain after the compiler refused an oversized statement earlier in the session
    huge = {"perr": True, "cerr": True, "src": "hg = [" + ", ".join("hv" for _ in range(33001)) + "]"}     # refused by the compiler: a statement without effect
    for ename in ("zerodiv", "index", "type"):
        e = errs[ename](N("q"))
        ss.append(mk(ids, base + [assign("hv", I(1)), assign("dv", fn(["q", "b"], e)), assign("applyq", fn(["h", "x"], call("h", N("x"), I(0)))), assign("topq", fn(["z"], call("applyq", N("dv"), N("z")))),
                                  call("topq", I(7)), huge, call("topq", I(8)), I(1), huge, call("topq", I(9))], {"err": ename, "where": "after a refused statement"}))
    # the failing call is reached through a call written in a position that the compiled code evaluates more than once or in more than one
    # place: a while condition (first, second, third evaluation), the condition of an if inside a loop, an iterator expression evaluated
    # again by an enclosing loop, a loop body, an argument of a call in a condition
    ratio = assign("ratio", fn(["a", "b"], bin_("/", N("a"), N("b"))))
    more = assign("more", fn(["n"], bin_(">", call("ratio", I(12), bin_("-", I(3), N("n"))), I(0))))
    upg = assign("upg", fn(["n"], block([y(call("ratio", I(6), N("n"))), y(I(1))])))
    sites = {
        "while condition": fn(["i"], block([wh(call("more", N("i")), assign("i", bin_("+", N("i"), I(1)))), N("i")])),
        "while condition, loop value used": fn(["i"], wh(call("more", N("i")), assign("i", bin_("+", N("i"), I(1))))),
        "while condition with an argument call": fn(["i"], block([wh(bin_("&", call("more", call("id", N("i"))), Bo(True)), assign("i", bin_("+", N("i"), I(1)))), N("i")])),
        "if condition inside a while": fn(["i"], block([assign("k", N("i")), wh(bin_("<", N("k"), I(5)), block([iff(call("more", N("k")), assign("t", I(1))), assign("k", bin_("+", N("k"), I(1)))])), N("k")])),
        "iterator expression of an inner for": fn(["i"], block([fr(["a"], [call("fromto", N("i"), I(5))], fr(["b"], [call("upg", bin_("-", I(3), N("a")))], assign("t", N("b")))), I(0)])),
        "while body": fn(["i"], block([wh(bin_("<", N("i"), I(5)), block([assign("t", call("more", N("i"))), assign("i", bin_("+", N("i"), I(1)))])), N("i")])),
        "while condition in a generator": fn(["i"], block([wh(call("more", N("i")), block([y(N("i")), assign("i", bin_("+", N("i"), I(1)))]))])),
    }
    for sname, f in sites.items():
        for start in (3, 2, 1, 0):          # the failure comes on the first, second, third, fourth evaluation
            use = call("scan", I(start)) if "generator" not in sname else fr(["v"], [call("scan", I(start))], N("v"))
            ss.append(mk(ids, base + [IDF, ratio, more, upg, assign("scan", f), use, assign("outer", fn(["z"], block([assign("w", use if use["t"] == "call" else I(0)), N("w")]))), call("outer", I(9)) if use["t"] == "call" else use],
                         {"err": "repeated-site", "where": "%s, evaluation %d" % (sname, 4 - start)}))
    out = [("every error class x call depth / function-valued parameter / closure / reassigned parameter / loop body / generator / generator of generator", ss, ("value", "report"))]
    rs = gens.random_sessions(60 if tier == "quick" else 3000, seed, "c19", p_ill=0.2, first_id=800000)
    out.append(("random sessions with type confusion", rs, ("value", "report")))
    return out


def c19_nontrivial(v):
    m = v.session.get("meta", {})
    return m.get("where", "top") != "top"


c19_rule = ("14 failing operations (every error class; also modulo by zero, non-boolean condition, calling a non-function, assigning nil, operand longer than 20 characters, "
            "failure deep inside an expression, slice bound, unary) x 10 dynamic positions (top level, call depth 0/1/3, through a parameter holding a function, through a closure, "
            "with a reassigned parameter, in a loop body, inside a generator, inside a generator of a generator, in a top-level generator, in the body while a generator is suspended); "
            "the parsed report must have the specified class, an opcode of the failing operation's family, the specified operand values in order, and for the failing context and "
            "each ancestor the active calls innermost first with the names used at the call sites and the current parameter values. non-trivial = failure below top level")


# =============================================================== C18: frames are isolated under any growth (program level)

def c18_families(tier, seed, ids=None):
    ids = ids or Ids()
    rnd = random.Random(seed)
    ss = []
    widths = [1, 5, 127, 128, 129, 130, 200, 260] if tier == "thorough" else [5, 128, 130, 200]
    for n in widths:
        for ngen in (0, 1, 2, 3):
            for prefix in ("none", "small-loop-same-stmt", "deep-recursion", "pushes"):
                vs = ["w" + "".join(chr(97 + int(c)) for c in str(i)) for i in range(n)]
                body = [assign(v, bin_("+", N("p"), I(i % 7))) for i, v in enumerate(vs)]
                loopbody = assign("s", bin_("+", N("s"), bin_("+", N(vs[-1]), N(vs[0]))))
                if ngen == 0:
                    body += [assign("s", I(0)), assign("s", bin_("+", N(vs[-1]), N(vs[0])))]
                else:
                    gens_ = [call("fromto", I(0), N(vs[-1]))] + [call("fromto", I(1), I(4))] * (ngen - 1)
                    body += [assign("s", I(0)), fr(["i", "j", "k"][:ngen], gens_, loopbody)]
                body += [assign(vs[0], bin_("+", N(vs[0]), I(100))), lst([N("s"), N(vs[0]), N(vs[-1]), N("p")])]
                items = [DEEP, assign("wide", fn(["p"], block(body)))]
                c = call("wide", I(2))
                if prefix == "none":
                    items += [c]
                elif prefix == "small-loop-same-stmt":
                    items += [block([fr(["q"], [call("fromto", I(0), I(2))], N("q")), c])]
                elif prefix == "deep-recursion":
                    items += [call("deep", I(300)), c]
                else:
                    items += [bin_("+", lst([I(k) for k in range(140)]), lst([c]))]
                items += [c, assign("rr", fn(["d"], ife(bin_("==", N("d"), I(0)), c, call("rr", bin_("-", N("d"), I(1)))))), call("rr", I(3)), call("rr", I(140))]
                ss.append(mk(ids, items, {"width": n, "generators": ngen, "prefix": prefix}))
    if tier == "quick":
        ss = rnd.sample(ss, 40)
    out = [("wide frames x suspended generators x stack-growing prefixes x call depth", ss, ("value", "residue"))]
    deep = []
    for d in ([300, 1000] if tier == "quick" else [1000, 2000, 3000]):
        deep.append(mk(ids, [assign("cnt", fn(["n"], ife(bin_("==", N("n"), I(0)), I(0), bin_("+", I(1), call("cnt", bin_("-", N("n"), I(1))))))), call("cnt", I(d)),
                             assign("keep", fn(["n", "v"], ife(bin_("==", N("n"), I(0)), N("v"), block([assign("loc", bin_("+", N("v"), I(1))), assign("r", call("keep", bin_("-", N("n"), I(1)), N("v"))), bin_("-", bin_("+", N("r"), N("loc")), N("loc"))])))),
                             call("keep", I(d), I(7)), I(1)], {"recursion_depth": d}))
    out.append(("recursion depth limited only by memory", deep, ("value", "residue")))
    probe = assign("probe", fn([], block([iff(bin_(">", N("gzero"), I(0)), block([assign("pa", I(1)), assign("pb", I(2)), assign("pc", I(3))])), bin_("+", bin_("+", call("toa", N("pa")), call("toa", N("pb"))), call("toa", N("pc")))])))
    dp = assign("deepp", fn(["n"], ife(bin_("==", N("n"), I(0)), call("probe"), call("deepp", bin_("-", N("n"), I(1))))))
    sweep = []
    for lo in range(40, 140, 20 if tier == "quick" else 5):
        sweep.append(mk(ids, [assign("gzero", I(0)), probe, dp] + [call("deepp", I(d)) for d in range(lo, lo + (20 if tier == "quick" else 5))] + [call("deepp", I(lo))], {"unassigned_locals_at_depths": [lo]}))
    out.append(("unassigned locals are nil at every stack height", sweep, ("value", "residue")))
    # several suspended generators, each with parameters and locals of its own, after iterator contexts were given up in every way a program can:
    # exhausted, abandoned by `return` from the loop (at top level of a function, inside a generator, in a helper called by a generator), by an error
    first = assign("first", fn(["g"], block([fr(["x"], [call("g")], ret(N("x"))), I(0)])))
    src = assign("src", fn([], block([y(I(3)), y(I(4)), y(I(5))])))
    count = assign("count", fn(["tag", "n"], block([assign("i", I(0)), wh(bin_("<", N("i"), N("n")), block([y(bin_("+", N("tag"), call("toa", N("i")))), assign("i", bin_("+", N("i"), I(1)))]))])))
    nest3 = fr(["a"], [call("count", St("x"), I(2))], fr(["b"], [call("count", St("y"), I(2))], fr(["c"], [call("count", St("z"), I(2))], assign("acc", bin_("+", N("acc"), lst([bin_("+", bin_("+", N("a"), N("b")), N("c"))]))))))
    zip3 = fr(["a", "b", "c"], [call("count", St("p"), I(3)), call("count", St("q"), I(3)), call("count", St("r"), I(2))], assign("acc", bin_("+", N("acc"), lst([bin_("+", bin_("+", N("a"), N("b")), N("c"))]))))
    giveups = {
        "exhausted": fr(["v"], [call("src")], assign("acc", bin_("+", N("acc"), lst([N("v")])))),
        "return-in-helper-called-by-generator": fr(["v"], [call("geng")], assign("acc", bin_("+", N("acc"), lst([N("v")])))),
        "return-from-loop": assign("acc", bin_("+", N("acc"), lst([call("first", N("src"))]))),
        "return-from-loop-inside-generator": fr(["v"], [call("genr")], assign("acc", bin_("+", N("acc"), lst([N("v")])))),
        "abandoned-lockstep": fr(["v", "w"], [call("src"), call("count", St("k"), I(1))], assign("acc", bin_("+", N("acc"), lst([N("v"), N("w")])))),
    }
    geng = assign("geng", fn([], block([y(call("first", N("src"))), y(call("first", N("src")))])))
    genr = assign("genr", fn([], block([fr(["x"], [call("src")], block([y(N("x")), iff(bin_("==", N("x"), I(4)), ret(I(0)))])), y(I(9))])))
    gu = []
    for gname, g in giveups.items():
        for after in ("nest3", "zip3", "both"):
            body = [assign("acc", lst([])), g] + ([nest3] if after in ("nest3", "both") else []) + ([zip3] if after in ("zip3", "both") else []) + [N("acc")]
            for where in ("fn", "top"):
                if where == "fn":
                    items = [first, src, count, geng, genr, assign("main", fn([], block(body))), call("main"), call("main")]
                else:
                    items = [first, src, count, geng, genr, block(body), block(body)]
                gu.append(mk(ids, items, {"giveup": gname, "after": after, "where": where}))
    out.append(("suspended generators' parameters and locals after iterator contexts were given up", gu, ("value", "residue")))
    # which frame a name lives in: function literals nested 2 to 4 deep, a name declared (as parameter or local) at one level and read by the
    # innermost function, frames of different widths in between, and a global of the same name that is rewritten between two calls.  Own
    # frame and the immediately enclosing function's frame are the only frames a function sees; anything further out is the global.
    nf = []
    for depth in (2, 3, 4):
        for level in range(0, depth + 1):            # 0: declared nowhere (global only)
            for how in ("param", "local"):
                for pads in ((0, 0, 0, 0), (2, 0, 1, 0), (0, 3, 0, 2), (1, 1, 4, 0)):
                    if level == 0 and how == "local":
                        continue
                    if tier == "quick" and shash((depth, level, how, pads, seed)) % 3 != 0 and not (depth == 3 and level == 1):
                        continue
                    inner = None
                    for lv in range(depth, 0, -1):
                        params = ["nv"] if (lv == level and how == "param") else ["p" + "abcd"[lv - 1]]
                        body = [assign("q" + "abcd"[lv - 1] + "xyzw"[k], bin_("+", I(lv * 10), I(k))) for k in range(pads[lv - 1])]
                        if lv == level and how == "local":
                            body.append(assign("nv", bin_("+", I(lv), I(0))))
                        if inner is None:
                            body.append(lst([N("nv"), N("nv")]))
                        else:
                            body += [assign("fn" + "abcd"[lv], inner), call("fn" + "abcd"[lv], I(lv * 7))]
                        inner = fn(params, block(body))
                    items = [assign("nv", I(100)), assign("fna", inner), call("fna", I(5)), assign("nv", I(200)), call("fna", I(6)), call("deep", I(150)) if False else N("nv")]
                    nf.append(mk(ids, items, {"nested-frames": [depth, level, how, list(pads)]}))
    out.append(("which frame a name lives in: nesting depth x declaring level x frame widths", nf, ("value", "residue")))
    # a closure that left its generator by yield and was handed on by the consumer (returned, stored) keeps its captured variables when the
    # generator's context is reused by later loops of the same statement: the family is shared with C10, plus wide and several captured variables
    cg = [f for f in c10_families(tier, seed, Ids(9500000)) if f[0].startswith("a value captured by a closure that left its generator")]
    yk = list(cg[0][1])
    ids2 = Ids(9600000)
    for width in (1, 3, 130):
        pads = [assign("pw" + "".join(chr(97 + int(c)) for c in str(i)), I(i)) for i in range(width - 1)]
        gen = assign("wgen", fn(["a"], block(pads + [assign("secret", bin_("+", N("a"), I(40))), y(fn([], bin_("+", N("secret"), N("a")))), assign("secret", I(0))])))
        pick = assign("wpick", fn(["a"], block([fr(["g"], [call("wgen", N("a"))], ret(N("g"))), I(0)])))
        for later in ("loop", "nested-loops", "generator-loop"):
            after = {"loop": [fr(["i"], [call("elems", lst([I(7), I(8), I(9)]))], assign("s", N("i")))],
                     "nested-loops": [fr(["i"], [call("fromto", I(0), I(2))], fr(["w"], [call("fromto", I(5), I(7))], assign("s", bin_("+", N("i"), N("w")))))],
                     "generator-loop": [fr(["i"], [call("wgen", I(9))], assign("s", I(1)))]}[later]
            body = [assign("k", call("wpick", I(1))), assign("ra", call("k"))] + after + [assign("rb", call("k"))] + after + [lst([N("ra"), N("rb"), call("k")])]
            yk.append(mk(ids2, [gen, pick, assign("wmain", fn([], block(body))), call("wmain"), call("wmain"), block(body)], {"yielded-returned": [width, later]}))
    out.append(("closures that left their generator by yield and were handed on by the consumer, across reused iterator contexts", yk, ("value", "residue")))
    # a closure made while its definer runs in an iterator context shares the definer's variables like one made in a plain call: what the
    # definer writes afterwards is what the closure reads (no stack growth in between), for frames of 1, 3 and 130 variables
    lv = []
    ids3 = Ids(9700000)
    for width in (1, 3, 130):
        pads = [assign("pv" + "".join(chr(97 + int(c)) for c in str(i)), I(i)) for i in range(width - 1)]
        body = lambda emit: block(pads + [assign("n", I(1)), assign("get", fn([], N("n"))), assign("n", I(2)), emit(call("get")), assign("n", bin_("+", N("n"), I(5))), emit(call("get"))])
        plain = assign("plainf", fn([], block(pads + [assign("n", I(1)), assign("get", fn([], N("n"))), assign("n", I(2)), assign("ra", call("get")), assign("n", bin_("+", N("n"), I(5))), lst([N("ra"), call("get")])])))
        geng = assign("geng", fn([], body(y)))
        runsum = assign("runsum", fn(["m"], block(pads + [assign("s", I(0)), assign("cur", fn([], N("s"))), fr(["x"], [call("fromto", I(1), N("m"))], block([assign("s", bin_("+", N("s"), N("x"))), y(call("cur"))]))])))
        scaled = assign("scaled", fn(["k"], block(pads + [assign("f", fn(["x"], bin_("*", N("x"), N("k")))), assign("k", bin_("*", N("k"), I(2))), y(call("f", I(10))), assign("k", bin_("+", N("k"), I(10))), y(call("f", I(10)))])))
        col = lambda g: block([assign("acc", lst([])), fr(["v"], [g], assign("acc", bin_("+", N("acc"), lst([N("v")])))), N("acc")])
        items = [plain, geng, runsum, scaled, call("plainf"), col(call("geng")), col(call("runsum", I(5))), col(call("scaled", I(1))),
                 assign("infn", fn([], block([assign("acc", lst([])), fr(["v", "w"], [call("geng"), call("scaled", I(2))], assign("acc", bin_("+", N("acc"), lst([N("v"), N("w")])))), N("acc")]))), call("infn"), call("infn"),
                 assign("nest", fn([], fr(["v"], [call("runsum", I(4))], y(bin_("+", N("v"), I(100)))))), col(call("nest"))]
        lv.append(mk(ids3, items, {"live-in-iterator": width}))
    out.append(("closures made in an iterator context read what their definer wrote afterwards", lv, ("value", "residue")))
    return out


def c18_nontrivial(v):
    return True


c18_rule = ""


# =============================================================== C01: a sample of every other property's families

def cross_sample(tier, seed, first_id=3000000):
    """C01 is the umbrella property (compiled execution = definitional semantics): besides its own expression x context
    products and random sessions it judges, by value, a stable sample of the session families written for the other
    semantic properties (generators, purity, scoping, cleanliness, immutability, built-ins, error sessions)."""
    k = 25 if tier == "quick" else 400
    out = []
    nid = first_id
    for pid, fam_fn in (("C02", c02_families), ("C03", c03_families), ("C04", c04_families), ("C09", c09_families), ("C10", c10_families),
                        ("C17", c17_families), ("C19", c19_families)):
        fams = fam_fn(tier, seed)
        if isinstance(fams, tuple):      # c09_families also returns its iteration pairs
            fams = fams[0]
        pool = []
        for fam in fams:
            for x in fam[1]:
                if x.get("pregrow") or x.get("stdin") or x.get("mode", "used") != "used" or (len(fam) > 3 and fam[3] != "used"):
                    continue
                pool.append((fam[0], x))
        pool.sort(key=lambda fx: shash((pid, fx[0], fx[1]["id"], seed)))
        for fname, x in pool[:k]:
            y = dict(x)
            y["id"] = nid
            nid += 1
            y["meta"] = {"from": pid, "family": fname, "meta": x.get("meta")}
            y.pop("cmp", None)
            out.append(y)
    return ("sample of the families of C02 C03 C04 C09 C10 C17 C19, judged by value", out, ("value",))


# =============================================================== C11: the operators as the compiler builds them

C11_ATOMS = {"i0": I(0), "i3": I(3), "in": I(-2), "i1": I(1), "f15": Fl(3, 1), "f3": Fl(3, 0), "fz": Fl(0, 0), "nan": bin_("/", Fl(0, 0), Fl(0, 0)), "inf": bin_("/", Fl(1, 0), Fl(0, 0)),
             "ninf": bin_("/", Fl(1, 0, True), Fl(0, 0)), "t": Bo(True), "f": Bo(False), "s": St("ab"), "se": St(""), "a": lst([I(1), Fl(3, 1)]), "an": lst([bin_("/", Fl(0, 0), Fl(0, 0))]),
             "nil": N("nn"), "fn": N("id"), "imax": I(9223372036854775807), "nbig": I(-4611686018427387905)}


def c11_families(tier, seed, ids=None):
    """every operator over special values, written the ways a program writes it: bare, negated, doubly negated, compared with its
    own negation, as array element, with operands in globals -- so that an operator-level shortcut of the compiler
    (folding a negation into the comparison, an increment form, a common operand) is held to the same algebra"""
    ids = ids or Ids(5000000)
    ss = []
    names = list(C11_ATOMS)
    for op in ALL_BINOPS:
        for a in names:
            for b in names:
                if tier == "quick" and shash((op, a, b, seed)) % 8 != 0 and not ("nan" in (a, b) and op in ("<", ">", "<=", ">=", "==", "!=")):
                    continue
                ea, eb = C11_ATOMS[a], C11_ATOMS[b]
                ga = [assign("ga", ea)] if a != "nil" else []
                gb = [assign("gb", eb)] if b != "nil" else []
                A = N("ga") if a != "nil" else N("nn")
                B = N("gb") if b != "nil" else N("nn")
                e, g = bin_(op, ea, eb), bin_(op, A, B)
                items = [IDF] + ga + gb + [e, un("!", e), un("!", un("!", e)), g, un("!", g), assign("t", g), un("!", N("t")), lst([g, un("!", g)]),
                                           assign("h", fn(["p", "q"], un("!", bin_(op, N("p"), N("q"))))), call("h", A, B) if a != "nil" and b != "nil" else I(0),
                                           un("-", g), bin_("==", g, g), I(1)]
                ss.append(mk(ids, items, {"op": op, "a": a, "b": b}))
    us = []
    for op in UNOPS:
        for a in names:
            ea = C11_ATOMS[a]
            ga = [assign("ga", ea)] if a != "nil" else []
            A = N("ga") if a != "nil" else N("nn")
            us.append(mk(ids, [IDF] + ga + [un(op, ea), un(op, A), un(op, un(op, A)), un("!", un(op, A)), lst([un(op, A)]), I(1)], {"un": op, "a": a}))
    # index and slice bounds: every pair of bounds from -1 to two past the length, over arrays and strings however they were produced
    # (literal, concatenation, computed elements, sub-slice of a longer value, built in a loop)
    ix = []
    makers = {"literal": lst([I(1), I(2), I(3)]), "concat": bin_("+", lst([I(1), I(2)]), lst([I(3)])), "computed": lst([N("one"), bin_("+", N("one"), I(1)), I(3)]),
              "subslice": ix2(lst([I(1), I(2), I(3), I(4), I(5)]), I(0), I(3)), "grown": N("grown"), "str-literal": St("abc"), "str-concat": bin_("+", St("ab"), St("c")),
              "str-subslice": ix2(St("abcde"), I(0), I(3)), "empty": lst([]), "empty-slice": ix2(lst([I(1), I(2)]), I(1), I(1))}
    pre = [assign("one", I(1)), assign("grown", lst([])), fr(["g"], [call("fromto", I(1), I(4))], assign("grown", bin_("+", N("grown"), lst([N("g")]))))]
    for mname, mk_e in makers.items():
        n = 0 if mname.startswith("empty") else 3
        items = list(pre) + [assign("v", mk_e), un("#", N("v"))]
        for i in range(-1, n + 3):
            items.append(ix1(N("v"), I(i)))
            for j in range(-1, n + 3):
                items.append(ix2(N("v"), I(i), I(j)))
        ix.append(mk(ids, items + [I(1)], {"bounds": mname}))
    # operators applied to the results of earlier operators: a grown array or string extended twice, then indexed and compared
    fo = []
    for strs in (False, True):
        unit = (lambda c: St(c)) if strs else (lambda c: lst([St(c)]))
        for k in range(1, 5):
            build = [assign("s", unit("a"))] + [assign("s", bin_("+", N("s"), unit("bcdefgh"[j]))) for j in range(k)]
            items = build + [assign("b", bin_("+", N("s"), unit("X"))), assign("c", bin_("+", N("s"), unit("Y"))), ix1(N("b"), I(k + 1)), ix1(N("c"), I(k + 1)), bin_("==", N("b"), N("c")),
                             bin_("==", N("b"), bin_("+", N("s"), unit("X"))), bin_("!=", N("b"), bin_("+", N("s"), unit("Y"))), un("#", N("b")), ix2(N("b"), I(0), bin_("+", I(k), I(2))), lst([N("b"), N("c"), N("s")])]
            fo.append(mk(ids, items, {"fork": [strs, k]}))
    # grouping: an operator whose operand is itself an operator expression, in every nesting position, over operand kinds for which the
    # order of the operands matters (strings, arrays, subtraction, division, shifts); operands as literals and through globals / parameters
    gr = []
    triples = {"strings": (St("ab"), St("cd"), St("ef"), St("!")), "arrays": (lst([I(1)]), lst([I(2), I(3)]), lst([St("x")]), lst([I(4)])), "ints": (I(7), I(3), I(2), I(5)),
               "floats": (Fl(7, 0), Fl(3, 1), I(2), Fl(1, 2)), "mixed": (St("ab"), I(3), lst([I(1)]), St("z"))}
    for op in ALL_BINOPS:
        for tname, (ea, eb, ec, ed) in triples.items():
            if tier == "quick" and op not in ("+", "-") and shash((op, tname, seed)) % 3 != 0:
                continue
            pre = [assign("ga", ea), assign("gb", eb), assign("gc", ec), assign("gd", ed)]
            A, B, Cc, D = N("ga"), N("gb"), N("gc"), N("gd")
            def shapes(a, b, c, d):
                r = bin_(op, b, c)
                return [bin_(op, a, r), bin_(op, bin_(op, a, b), c), bin_(op, bin_(op, a, r), d), bin_(op, d, bin_(op, a, r)), bin_("==", bin_(op, a, r), bin_(op, bin_(op, a, b), c)),
                        lst([bin_(op, bin_(op, a, r), d)]), bin_(op, bin_(op, a, un("-", c) if tname in ("ints", "floats") else r), d), bin_(op, bin_(op, r, a), d)]
            items = pre + shapes(ea, eb, ec, ed) + shapes(A, B, Cc, D) + [assign("h", fn(["p", "q", "r", "w"], block(shapes(N("p"), N("q"), N("r"), N("w"))[2:4] + [lst(shapes(N("p"), N("q"), N("r"), N("w"))[:4])]))), call("h", A, B, Cc, D), I(1)]
            gr.append(mk(ids, items, {"grouping": op, "kinds": tname}))
    # the forms the compiler special-cases into one instruction (x = x + 1, x = 1 + x) next to their neighbours (a float one, another
    # step, another target): integer, float, string, array and nil in x, as global, local, parameter and captured variable
    incs = []
    steps = {"int-one": I(1), "float-one": Fl(1, 0), "float-one-point-five": Fl(3, 1), "two": I(2), "minus-one": I(-1), "string-one": St("1"), "true": Bo(True)}
    holds = {"int": I(5), "float": Fl(5, 1), "zero": I(0), "string": St("s"), "array": lst([I(1)]), "nil": None}
    for sname, st in steps.items():
        for hname, h in holds.items():
            for side in ("x+k", "k+x"):
                e = lambda nm: bin_("+", N(nm), st) if side == "x+k" else bin_("+", st, N(nm))
                probe = lambda nm: [N(nm), bin_("/", N(nm), I(4)), bin_("==", bin_("/", N(nm), I(4)), bin_("/", N(nm), Fl(4, 0)))]
                pre = [assign("x", h)] if h is not None else []
                items = pre + [assign("x", e("x"))] + probe("x") + [assign("y", e("x"))] + probe("y")
                items += [assign("f", fn(["n"], block([assign("n", e("n"))] + [lst(probe("n"))]))), call("f", h if h is not None else N("nope")),
                          assign("g", fn([], block(([assign("m", h)] if h is not None else []) + [assign("m", e("m")), lst(probe("m"))]))), call("g"),
                          assign("mk", fn(["c"], fn([], block([assign("c", e("c")), lst(probe("c"))])))), assign("cnt", call("mk", h if h is not None else N("nope"))), call("cnt"), call("cnt")]
                incs.append(mk(ids, items, {"increment": sname, "holds": hname, "side": side}))
    if tier == "quick":
        incs = [x for x in incs if x["meta"]["increment"] in ("int-one", "float-one") or shash((x["meta"]["increment"], x["meta"]["holds"], seed)) % 3 == 0]
    # indexing and slicing where the indexed value and the indices are all computed in place (operator results, calls, elements): every split
    # point of a string and of a nested array, lengths and concatenation laws
    cs = []
    pre3 = [IDF, assign("a", St("ap")), assign("b", St("ple")), assign("p", lst([I(1), lst([I(2)])])), assign("q", lst([St("x"), I(3), I(4)])), assign("m", lst([lst([I(1), I(2), I(3)]), lst([I(4), I(5), I(6)])])),
            assign("one", I(1)), assign("zero", I(0))]
    for strs in (True, False):
        X = bin_("+", N("a"), N("b")) if strs else bin_("+", N("p"), N("q"))
        n = 5
        items = list(pre3)
        for i in range(0, n + 1):
            for j in range(i, n + 1):
                if (i + j) % 2 == 0 or i == 0 or j == n:
                    items.append(ix2(X, bin_("+", I(i), N("zero")), I(j)))
                    items.append(bin_("==", un("#", ix2(X, bin_("+", N("zero"), I(i)), bin_("-", I(j + 1), N("one")))), I(j - i)))
            items.append(bin_("==", bin_("+", ix2(X, I(0), bin_("+", I(i), N("zero"))), ix2(X, bin_("+", I(i), N("zero")), I(n))), X))
            if i < n:
                items.append(ix1(X, bin_("+", I(i), N("zero"))))
        items += [ix2(ix1(N("m"), bin_("-", N("one"), N("zero"))), bin_("-", I(2), N("one")), bin_("+", N("one"), I(2))), ix2(call("id", X), un("#", lst([I(0)])), I(3)), ix1(call("id", X), un("#", lst([I(0)]))),
                  ix2(X, bin_("+", I(9), N("zero")), I(10)), ix2(X, bin_("-", N("zero"), N("one")), I(2)), ix1(X, bin_("+", I(5), N("zero")))]
        cs.append(mk(ids, items, {"computed-slices": "string" if strs else "array"}))
    return [("binary operators over special values as the compiler builds them: bare, negated, via globals, via parameters", ss, ("value",)),
            ("unary operators, nested", us, ("value",)), ("index and slice bounds over values however produced", ix, ("value",)),
            ("operators on the results of two extensions of one grown value", fo, ("value",)),
            ("operators whose operands are operator expressions, every grouping and nesting position", gr, ("value",)),
            ("increment forms and their neighbours over every kind of value and variable", incs, ("value",)),
            ("indexing and slicing with the value and the indices computed in place", cs, ("value",))]


c11_rule = ("17 binary operators x 18x18 operands (ints, exact floats, signed zero, NaN, +-Inf, booleans, strings, arrays (one holding NaN), nil, a function) each written bare, "
            "negated, doubly negated, through globals, through an assigned temporary, as array elements, through parameters of a function, under unary minus and compared with "
            "itself; 4 unary operators x 18 operands nested")


# =============================================================== C01: the same code run again after names were rebound

def c01_rebinding(tier, seed, first_id=3500000):
    """Call sites and variable reads that execute more than once while the names they mention are rebound in between: a function called
    through a global that is redefined (to another function, to a non-function, back), through a loop variable bound to a different
    function in every iteration, through a local rebound inside a loop, through an array element; recursion through the global name."""
    ids = Ids(first_id)
    out = []
    f1 = fn(["n"], bin_("+", N("n"), I(1)))
    f2 = fn(["n"], bin_("*", N("n"), I(10)))
    f3 = fn(["n"], lst([N("n"), N("n")]))
    callers = {"direct": fn(["n"], call("inc", N("n"))), "nested": fn(["n"], call("inc", call("inc", N("n")))), "operand": fn(["n"], bin_("+", call("inc", N("n")), I(100))),
               "loop": fn(["n"], block([assign("t", lst([])), fr(["i"], [call("fromto", I(0), N("n"))], assign("t", bin_("+", N("t"), lst([call("inc", N("i"))])))), N("t")])),
               "gen": fn(["n"], fr(["i"], [call("fromto", I(0), N("n"))], y(call("inc", N("i")))))}
    for cname, c in callers.items():
        use = call("user", I(2)) if cname != "gen" else fr(["q"], [call("user", I(2))], N("q"))
        for seq in ([f1, f2], [f1, f2, f1], [f1, f3, I(7), f2], [f1, St("inc"), f1]):
            items = [assign("user", c)]
            for v in seq:
                items += [assign("inc", v), use, use]
            out.append(mk(ids, items, {"rebinding": "global callee", "caller": cname, "steps": len(seq)}))
    # the callee is a loop variable / a variable rebound in the loop body
    gen3 = assign("fns", fn([], block([y(f1), y(f2), y(f3), y(f1)])))
    out.append(mk(ids, [gen3, fr(["h"], [call("fns")], call("h", I(5))), fr(["h"], [call("fns")], wr(call("h", I(5)))), assign("u", fn([], block([assign("t", lst([])), fr(["h"], [call("fns")], assign("t", bin_("+", N("t"), lst([call("h", I(5))])))), N("t")]))), call("u"), call("u")],
                  {"rebinding": "loop variable as callee"}))
    out.append(mk(ids, [assign("cur", f1), assign("k", I(0)), assign("acc", lst([])),
                        wh(bin_("<", N("k"), I(4)), block([assign("k", bin_("+", N("k"), I(1))), assign("acc", bin_("+", N("acc"), lst([call("cur", N("k"))]))), ife(bin_("==", bin_("%", N("k"), I(2)), I(1)), assign("cur", f2), assign("cur", f3))])),
                        N("acc"), call("cur", I(1))], {"rebinding": "callee rebound in the loop body, top level"}))
    out.append(mk(ids, [assign("w", fn(["m"], block([assign("cur", f1), assign("k", I(0)), assign("acc", lst([])),
                        wh(bin_("<", N("k"), N("m")), block([assign("k", bin_("+", N("k"), I(1))), assign("acc", bin_("+", N("acc"), lst([call("cur", N("k"))]))), ife(bin_("==", bin_("%", N("k"), I(2)), I(1)), assign("cur", f2), assign("cur", f3))])),
                        N("acc")]))), call("w", I(4)), call("w", I(3))], {"rebinding": "callee rebound in the loop body, local"}))
    # recursion goes through the global name
    rec = fn(["n"], ife(bin_("<=", N("n"), I(0)), I(0), bin_("+", call("r", bin_("-", N("n"), I(1))), I(1))))
    out.append(mk(ids, [assign("r", rec), call("r", I(3)), assign("keep", N("r")), assign("r", fn(["n"], I(100))), call("keep", I(3)), call("r", I(3)), assign("r", N("keep")), call("r", I(3)), call("keep", I(2))],
                  {"rebinding": "recursion through the global name"}))
    # a global read (not called) by code that runs again
    rd = fn([], bin_("+", N("gv"), N("gv")))
    out.append(mk(ids, [assign("rd", rd), assign("gv", I(1)), call("rd"), assign("gv", St("s")), call("rd"), assign("gv", lst([I(1)])), call("rd"), assign("gv", f1), call("rd"), assign("gv", I(4)), call("rd")],
                  {"rebinding": "global read"}))
    out.append(mk(ids, [assign("gv", I(0)), assign("tick", fn([], fr(["i"], [call("fromto", I(0), I(3))], y(bin_("+", N("gv"), N("i")))))),
                        fr(["q"], [call("tick")], block([assign("gv", bin_("+", N("gv"), I(10))), N("q")])), N("gv"),
                        fr(["q"], [call("tick")], block([assign("gv", bin_("*", N("q"), I(2))), wr(N("q"))]))], {"rebinding": "global rebound by the loop body between resumptions of the generator that reads it"}))
    # builtins' names as ordinary globals that are rebound and restored
    out.append(mk(ids, [assign("old", N("fromto")), assign("fromto", fn(["a", "b"], y(I(42)))), fr(["i"], [call("fromto", I(0), I(3))], N("i")), assign("fromto", N("old")), fr(["i"], [call("fromto", I(0), I(3))], N("i"))],
                  {"rebinding": "a built-in's name"}))
    return ("the same code run again after the names it mentions were rebound", out, ("value",))


# =============================================================== floats outside the exact sub-domain: the same operations in the same order

def float_chains(tier, seed, first_id=3600000):
    """Arithmetic on floats the value model cannot compute is judged as an uninterpreted but functional operator (symbolic floats of
    CalcSem's trace mode): a session first shows the steps one by one (t = x op1 k1, u = t op2 k2), then computes the chain in one
    piece, written in place, through a function, in a loop and as an operand -- each must give what the steps gave."""
    ids = Ids(first_id)
    rnd = random.Random(seed * 31 + 5)
    xs = [0.1, 0.3, 2.675, 9007199254740992.0, 1.1, 123456.789, 4503599627370497.5, 0.7, 0.001]
    ks = [(1, 1), (1, -1), (3, 7), (10, 3), (2, 1)]
    out = []
    combos = [(x, k1, k2, o1, o2) for x in xs for (k1, k2) in ks for (o1, o2) in (("+", "+"), ("+", "-"), ("-", "+"), ("*", "*"), ("*", "+"), ("/", "*"), ("+", "*"))]
    if tier == "quick":
        combos = [c for c in combos if shash((c, seed)) % 6 == 0] + [(0.1, 1, 1, "+", "-"), (9007199254740992.0, 1, 1, "+", "+"), (0.1, 3, 7, "*", "*")]
    for x, k1, k2, o1, o2 in combos:
        K1, K2 = I(k1), I(k2)
        if rnd.random() < 0.3:
            K2 = Fl(k2 if k2 > 0 else -k2, 0, k2 < 0)
        X = N("x")
        chain = bin_(o2, bin_(o1, X, K1), K2)
        items = [assign("x", FlOpq(x)), assign("t", bin_(o1, X, K1)), assign("u", bin_(o2, N("t"), K2)), assign("v", chain), bin_("==", N("u"), N("v")),
                 assign("f", fn(["p"], bin_(o2, bin_(o1, N("p"), K1), K2))), call("f", X), bin_("==", call("f", X), N("u")),
                 assign("acc", lst([])), fr(["q"], [call("fromto", I(0), I(2))], assign("acc", bin_("+", N("acc"), lst([bin_(o2, bin_(o1, X, K1), K2)])))), N("acc"),
                 assign("w", bin_(o2, bin_(o1, X, K1), K2)), bin_("==", N("w"), N("u")), lst([chain, N("u")]), un("-", chain), assign("nu", un("-", N("u"))), bin_("==", un("-", chain), N("nu"))]
        out.append(mk(ids, items, {"float-chain": [x, o1, k1, o2, k2]}))
    return ("floats outside the exact sub-domain: a chain in one piece gives what its steps gave", out, ("value",))



def c01_selfcompare(tier, seed, first_id=3800000):
    """== and != between a value and itself, an alias of it, a copy inside another array, and an equal value built separately: arrays that
    hold functions or NaN are not equal to anything (function equality is always false, NaN is not equal to NaN), whoever holds them"""
    ids = Ids(first_id)
    out = []
    nan = bin_("/", Fl(0, 0), Fl(0, 0))
    makers = {"holds a function": lst([I(1), N("id")]), "holds NaN": lst([nan, I(2)]), "nested function": lst([lst([fn(["p"], N("p"))]), St("s")]), "plain": lst([I(1), St("a"), Fl(3, 1)]),
              "holds nil-valued name": lst([I(1), I(2)]), "string": St("abc"), "function itself": N("id"), "NaN itself": nan, "empty": lst([])}
    for mname, mkv in makers.items():
        cmpf = assign("same", fn(["p", "q"], lst([bin_("==", N("p"), N("q")), bin_("!=", N("p"), N("q")), bin_("==", N("p"), N("p"))])))
        count = assign("count", fn(["tbl", "x"], block([assign("k", I(0)), fr(["e"], [call("elems", N("tbl"))], iff(bin_("==", N("e"), N("x")), assign("k", bin_("+", N("k"), I(1))))), N("k")])))
        items = [IDF, cmpf, count, assign("a", mkv), assign("b", N("a")), bin_("==", N("a"), N("a")), bin_("!=", N("a"), N("a")), bin_("==", N("a"), N("b")), bin_("==", lst([N("a")]), lst([N("b")])),
                 bin_("==", N("a"), mkv), call("same", N("a"), N("a")), call("same", N("a"), N("b")), call("count", lst([N("a"), N("b"), I(0)]), N("a")), un("!", bin_("==", N("a"), N("b"))),
                 iff(bin_("==", N("a"), N("a")), St("same")), bin_("==", call("id", N("a")), N("a"))]
        out.append(mk(ids, items, {"selfcompare": mname}))
    return ("a value compared with itself, an alias, a nested copy and an equal value built separately", out, ("value",))
