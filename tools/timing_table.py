#!/usr/bin/env python3
"""timing_table.py <runall quick log> <runall thorough log>: the markdown table of DESIGN.md section 10.5 from two runall.sh logs"""
import re, sys


def rows(path):
    out = {}
    for l in open(path):
        m = re.match(r"(C\d\d) \w+ exit (\d) \((\d+)s\): .*states=(\d+), impl traces=(\d+), evaluations=(\d+), nontrivial=(\d+)", l)
        if m:
            out[m.group(1)] = m.groups()[1:]
    return out


def fmt(n):
    n = int(n)
    return "%.1f M" % (n / 1e6) if n >= 1000000 else "%d k" % round(n / 1000) if n >= 10000 else "%d" % n


q, t = rows(sys.argv[1]), rows(sys.argv[2])
print("| check | quick: TLC states / behaviours judged on the implementation / wall | thorough |")
print("|---|---|---|")
for c in sorted(q):
    cell = lambda r: "%s / %s / %s s%s" % (fmt(r[2]), "{:,}".format(int(r[3])), r[1], "" if r[0] == "0" else " (exit %s)" % r[0])
    print("| %s | %s | %s |" % (c, cell(q[c]), cell(t[c]) if c in t else "-"))
