"""Infrastructure shared by all checks: scratch directories, building the Go harness from
/repo's working tree (tag verif), running TLC on a scratch copy of /verif/spec, running the
real pipeline in parallel workers, known findings, evidence files, verdicts.

Exit codes (DESIGN.md 3.5): 0 conformed; 1 violation reproduced on the real code
(prints VIOLATION property=<id> replay=<path>); 2 infrastructure trouble (never a violation)."""
import json, os, re, shutil, subprocess, sys, tempfile, time, atexit, hashlib

VERIF = os.path.dirname(os.path.dirname(os.path.abspath(__file__)))
REPO = os.environ.get("VERIF_REPO", "/repo")
SPEC = os.path.join(VERIF, "spec")
JAR = "/opt/veriftools/tla/tla2tools.jar:/opt/veriftools/tla/CommunityModules-deps.jar"
NCPU = os.cpu_count() or 4
GOENV = dict(os.environ, GOFLAGS="-mod=mod", GOPROXY="off", GOSUMDB="off", GOTOOLCHAIN="local",
             GOCACHE=os.environ.get("GOCACHE", os.path.expanduser("~/.cache/go-build")))


class Infra(Exception):
    """infrastructure failure: exit 2"""


_scratch = None


def scratch():
    global _scratch
    if _scratch is None:
        base = os.environ.get("VERIF_SCRATCH") or tempfile.gettempdir()
        _scratch = tempfile.mkdtemp(prefix="verif-", dir=base)
        atexit.register(lambda: shutil.rmtree(_scratch, ignore_errors=True))
    return _scratch


def seed():
    try:
        return int(os.environ.get("VERIF_SEED", "1"))
    except ValueError:
        return 1


# ------------------------------------------------------------------ building

_built = {}


def build_harness():
    """go build -tags verif of the harness against /repo's current working tree"""
    if "vh" in _built:
        return _built["vh"]
    hdir = os.path.join(scratch(), "harness")
    shutil.copytree(os.path.join(VERIF, "harness"), hdir)
    gomod = open(os.path.join(hdir, "go.mod")).read().replace("=> /repo", "=> " + REPO)
    open(os.path.join(hdir, "go.mod"), "w").write(gomod)
    shutil.copy(os.path.join(REPO, "go.sum"), os.path.join(hdir, "go.sum"))
    out = os.path.join(scratch(), "vh")
    p = subprocess.run(["go", "build", "-tags", "verif", "-o", out, "./cmd/vh"], cwd=hdir, env=GOENV,
                       capture_output=True, text=True)
    if p.returncode != 0:
        raise Infra("harness build failed:\n" + p.stdout + p.stderr)
    _built["vh"] = out
    return out


def build_calc():
    """the real binary, built from the working tree (no tag: this is what a user runs)"""
    if "calc" in _built:
        return _built["calc"]
    out = os.path.join(scratch(), "calc")
    p = subprocess.run(["go", "build", "-o", out, "./cmd/calc"], cwd=REPO, env=GOENV, capture_output=True, text=True)
    if p.returncode != 0:
        raise Infra("calc build failed:\n" + p.stdout + p.stderr)
    _built["calc"] = out
    return out


# ------------------------------------------------------------------ TLC

class TlcResult:
    def __init__(self):
        self.lines = []          # printed values (PrintT output), unquoted
        self.generated = 0
        self.distinct = 0
        self.depth = 0
        self.ok = False
        self.violation = None    # text of an invariant/assert violation reported by TLC itself
        self.raw = ""
        self.wall = 0.0
        self.coverage = {}


_printed = re.compile(r'^"(.*)"$')


def unquote(line):
    m = _printed.match(line)
    if not m:
        return None
    try:
        return json.loads('"' + m.group(1) + '"')
    except Exception:
        return m.group(1)


def run_tlc(module, cfg, files=None, workers=None, timeout=1800, simulate=None, deadlock=False, heap=None,
            coverage=False, keep_raw=False, depth=None, extra=None):
    """Run TLC on a scratch copy of /verif/spec.  files: {name: text} written next to the spec.
    Returns TlcResult.  Raises Infra on TLC errors that are not property violations."""
    d = tempfile.mkdtemp(prefix="tlc-", dir=scratch())
    for f in os.listdir(SPEC):
        if f.endswith((".tla", ".cfg")):
            shutil.copy(os.path.join(SPEC, f), d)
    for name, text in (files or {}).items():
        mode = "wb" if isinstance(text, bytes) else "w"
        with open(os.path.join(d, name), mode) as fp:
            fp.write(text)
    w = workers or NCPU
    opts = "-Xss512m -Dtlc2.tool.queue.IStateQueue=StateDeque -Djava.io.tmpdir=" + d     # TLC leaves an empty tlc-<n> directory in java.io.tmpdir: keep it inside the scratch copy
    if heap:
        opts += " -Xmx" + heap
    env = dict(os.environ, JAVA_TOOL_OPTIONS=opts)
    cmd = ["java", "-XX:+UseParallelGC", "-cp", JAR, "tlc2.TLC", "-workers", str(w), "-metadir", os.path.join(d, "meta"),
           "-config", cfg, "-noGenerateSpecTE"]
    if not deadlock:
        cmd.append("-deadlock")
    if coverage:
        cmd += ["-coverage", "1"]
    if simulate:
        cmd += ["-simulate", simulate]
    if depth:
        cmd += ["-depth", str(depth)]
    if extra:
        cmd += extra
    cmd.append(module)
    t0 = time.time()
    try:
        p = subprocess.run(cmd, cwd=d, env=env, capture_output=True, text=True, timeout=timeout)
    except subprocess.TimeoutExpired:
        shutil.rmtree(d, ignore_errors=True)
        raise Infra("TLC timeout after %ds on %s/%s" % (timeout, module, cfg))
    r = TlcResult()
    r.wall = time.time() - t0
    out = p.stdout
    r.raw = out if keep_raw else out[-6000:]
    for line in out.splitlines():
        u = unquote(line.strip())
        if u is not None:
            r.lines.append(u)
    m = re.findall(r"(\d+) states generated, (\d+) distinct states found", out)
    if m:
        r.generated, r.distinct = int(m[-1][0]), int(m[-1][1])
    m = re.findall(r"depth of the complete state graph search is (\d+)", out)
    if m:
        r.depth = int(m[-1])
    if coverage:
        for cm in re.finditer(r"<(\w+) line \d+, col \d+ to line \d+, col \d+ of module (\w+)>: (\d+):(\d+)", out):
            r.coverage[cm.group(1)] = r.coverage.get(cm.group(1), 0) + int(cm.group(3))
    shutil.rmtree(d, ignore_errors=True)
    if "Model checking completed. No error has been found" in out or (simulate and p.returncode == 0) \
            or (simulate and "The number of states generated" in out and "Error:" not in out):
        r.ok = True
        return r
    vm = re.search(r"Error: (Invariant \w+ is violated|Action property \w+ is violated|Temporal properties were violated"
                   r"|The first argument of Assert evaluated to FALSE[^\n]*\n[^\n]*|Assumption [^\n]* is false"
                   r"|Deadlock reached|The postcondition[^\n]*)", out)
    if vm:
        r.violation = vm.group(1)
        return r
    em = re.search(r"^Error: .*(?:\n.*){0,8}", out, re.M)
    raise Infra("TLC failed on %s/%s (exit %d): %s\n...\n%s" % (module, cfg, p.returncode, (em.group(0)[:1500] if em else ""),
                                                            out[-3000:] + p.stderr[-1000:]))


def run_tlapm(module, deps=(), timeout=900):
    """Check the proofs of spec/<module>.tla with the TLA+ proof system in a scratch copy (no cache is kept).
    Returns the number of proved obligations; raises Infra if an obligation is not proved (a proof is a statement
    about the specification, never a verdict about the implementation)."""
    d = tempfile.mkdtemp(prefix="tlapm-", dir=scratch())
    for f in (module,) + tuple(deps):
        shutil.copy(os.path.join(SPEC, f + ".tla"), d)
    try:
        p = subprocess.run(["tlapm", "--threads", str(NCPU), module + ".tla"], cwd=d, capture_output=True, text=True, timeout=timeout)
    except subprocess.TimeoutExpired:
        raise Infra("tlapm timeout after %ds on %s" % (timeout, module))
    finally:
        shutil.rmtree(d, ignore_errors=True)
    out = p.stdout + p.stderr
    m = re.search(r"All (\d+) obligations? proved", out)
    if not m:
        raise Infra("tlapm did not prove %s:\n%s" % (module, out[-2000:]))
    return int(m.group(1))


def run_apalache(module, deps=(), init="Init", inv="Inv", next_="Next", length=1, cinit=None, timeout=600):
    """Bounded symbolic check of spec/<module>.tla with Apalache in a scratch copy: from every state satisfying `init`, `inv`
    holds in all states reachable in at most `length` steps of `next_`.  Used for inductive invariants (init = the invariant
    over arbitrary states, length 1).  Returns True (no error), False (a counterexample exists); raises Infra on anything else.
    Like a proof, this is a statement about the specification, never a verdict about the implementation."""
    d = tempfile.mkdtemp(prefix="apalache-", dir=scratch())
    for f in (module,) + tuple(deps):
        shutil.copy(os.path.join(SPEC, f + ".tla"), d)
    cmd = ["apalache-mc", "check", "--init=" + init, "--inv=" + inv, "--next=" + next_, "--length=%d" % length,
           "--out-dir=" + os.path.join(d, "out"), "--run-dir=" + os.path.join(d, "run")]
    if cinit:
        cmd.append("--cinit=" + cinit)
    cmd.append(module + ".tla")
    env = dict(os.environ, JAVA_TOOL_OPTIONS="-Djava.io.tmpdir=" + d, HOME=d, TMPDIR=d)     # the launcher makes its SANY directory with mktemp -t: TMPDIR keeps it in the scratch copy     # no statistics prompt, no files outside the scratch copy
    try:
        p = subprocess.run(cmd, cwd=d, capture_output=True, text=True, timeout=timeout, env=env)
    except subprocess.TimeoutExpired:
        raise Infra("apalache timeout after %ds on %s" % (timeout, module))
    finally:
        shutil.rmtree(d, ignore_errors=True)
    out = p.stdout + p.stderr
    if "The outcome is: NoError" in out and p.returncode == 0:
        return True
    if "The outcome is: Error" in out and p.returncode == 12:
        return False
    raise Infra("apalache failed on %s (%s, %s):\n%s" % (module, init, inv, out[-2000:]))


# ------------------------------------------------------------------ real pipeline

def run_real_full(sessions, nworkers=None, timeout=900):
    """like run_real, but returns the whole output record ({id, res, bc?}) per session"""
    return run_real(sessions, nworkers, timeout, full=True)


def _limit_memory():
    """workers of the real pipeline get 24 GiB of address space: a program that recurses without end dies of it with a Go runtime
    message (an observation with a cause) instead of taking the machine's memory and the neighbouring processes with it"""
    import resource
    lim = 24 << 30
    try:
        resource.setrlimit(resource.RLIMIT_AS, (lim, lim))
    except Exception:
        pass


def run_real(sessions, nworkers=None, timeout=900, full=False, _retry=False):
    """sessions: list of dicts for `vh run`.  Returns {id: [obs...]}.  A worker that dies is
    restarted after the session it was working on, which is recorded as kind 'crash'."""
    vh = build_harness()
    nworkers = min(nworkers or NCPU, max(1, len(sessions)))
    chunks = [sessions[i::nworkers] for i in range(nworkers)]
    results = {}
    procs = []
    d = tempfile.mkdtemp(prefix="real-", dir=scratch())
    for i, ch in enumerate(chunks):
        inp = os.path.join(d, "in%d" % i)
        with open(inp, "w") as fp:
            for s in ch:
                fp.write(json.dumps(s) + "\n")
        procs.append((ch, inp))
    pending = []
    for i, (ch, inp) in enumerate(procs):
        outp = os.path.join(d, "out%d" % i)
        pending.append((ch, inp, outp, subprocess.Popen([vh, "run"], stdin=open(inp), stdout=open(outp, "w"), preexec_fn=_limit_memory,
                                                        stderr=subprocess.PIPE, env=dict(os.environ, TMPDIR=d))))
    deadline = time.time() + timeout
    for ch, inp, outp, p in pending:
        try:
            _, err = p.communicate(timeout=max(1, deadline - time.time()))
        except subprocess.TimeoutExpired:
            p.kill()
            raise Infra("real-pipeline worker timeout")
        got = {}
        for line in open(outp):
            try:
                o = json.loads(line)
            except Exception:
                continue
            got[o["id"]] = o if full else o["res"]
        results.update(got)
        if p.returncode != 0:
            # the worker died (fatal runtime error, os.Exit from the program, safety-net timeout):
            # mark the first session without a result and rerun the remainder
            rest = [s for s in ch if s["id"] not in got]
            if rest:
                dead = rest[0]
                crash = [{"kind": "crash", "exit": p.returncode, "stderr": (err or b"").decode(errors="replace")[-400:]}]
                if not _retry:
                    # a worker can also die of what happens around it (the kernel's out-of-memory killer picks the largest process): the
                    # session it was working on is run once more on its own; only a second death is an observation about that session
                    alone = run_real([dead], nworkers=1, timeout=max(60, deadline - time.time()), full=full, _retry=True)
                    one = alone.get(dead["id"])
                    res1 = (one or {}).get("res") if full else one
                    if res1 and res1[0].get("kind") != "crash":
                        crash = None
                        results[dead["id"]] = one
                if crash:
                    results[dead["id"]] = {"id": dead["id"], "res": crash} if full else crash
                if len(rest) > 1:
                    results.update(run_real(rest[1:], nworkers=1, timeout=max(30, deadline - time.time()), full=full))
    shutil.rmtree(d, ignore_errors=True)
    return results


def run_loop(sessions, timeout=900):
    """sessions through the real read-eval loop in process (`vh loop`): [{id, lines, doout, stdin}] -> {id: result}"""
    vh = build_harness()
    n = min(NCPU, max(1, len(sessions)))
    chunks = [sessions[i::n] for i in range(n)]
    procs = []
    for ch in chunks:
        inp = "\n".join(json.dumps(x) for x in ch) + "\n"
        procs.append((ch, subprocess.Popen([vh, "loop"], stdin=subprocess.PIPE, stdout=subprocess.PIPE, stderr=subprocess.PIPE, text=True), inp))
    out = {}
    for ch, p, inp in procs:
        try:
            so, se = p.communicate(inp, timeout=timeout)
        except subprocess.TimeoutExpired:
            p.kill()
            raise Infra("vh loop worker timeout")
        for line in so.splitlines():
            try:
                o = json.loads(line)
            except Exception:
                continue
            out[o["id"]] = o
        for x in ch:
            if x["id"] not in out:
                # the worker died (os.Exit from the program, fatal runtime error): everything after it in this chunk is rerun alone
                out[x["id"]] = {"id": x["id"], "kind": "crash", "msg": (se or "")[-300:], "out": "", "residue": {}}
                rest = [y for y in ch if y["id"] not in out]
                if rest:
                    out.update(run_loop(rest, timeout))
                break
    return out


# ------------------------------------------------------------------ known findings

def load_findings():
    p = os.path.join(VERIF, "known_findings.json")
    if not os.path.exists(p):
        return {"findings": [], "fixed": []}
    return json.load(open(p))


# ------------------------------------------------------------------ evidence and verdicts

class Check:
    """collects what a check covered and produces evidence, verdict and exit code"""

    def __init__(self, pid, tier, level="model_checking"):
        self.pid, self.tier, self.level = pid, tier, level
        self.t0 = time.time()
        self.cov = {"states": 0, "transitions": 0, "traces_validated_against_impl": 0, "samples": [],
                    "evaluations": 0, "distinct_nontrivial": 0, "rule": "", "parts": {}}
        self.assumptions = []
        self.violations = []     # (description, replay dict)
        self.known = {}          # finding id -> count
        self.infra = []
        self.findings = load_findings()

    def add_tlc(self, r, part=None):
        self.cov["states"] += r.distinct
        self.cov["transitions"] += r.generated
        if part:
            self.cov["parts"].setdefault(part, {}).update({"tlc_states": r.distinct, "tlc_generated": r.generated,
                                                          "tlc_wall_s": round(r.wall, 1)})

    def part(self, name, **kw):
        self.cov["parts"].setdefault(name, {}).update(kw)

    def sample(self, s, limit=6):
        if len(self.cov["samples"]) < limit:
            self.cov["samples"].append(s)

    def violation(self, desc, replay):
        self.violations.append((desc, replay))

    def known_finding(self, fid, what):
        if fid not in self.known:
            self.known[fid] = [0, what]
        self.known[fid][0] += 1

    def finish(self):
        wall = time.time() - self.t0
        # the rule names what is enumerated and what counts as non-trivial; the families and parts actually judged in this run are listed
        # after it from the run itself, so that the description cannot fall behind the check
        parts = [k for k, v in (self.cov.get("parts") or {}).items() if isinstance(v, dict)]
        if parts and self.cov.get("rule") and "Parts of this run:" not in self.cov["rule"]:
            self.cov["rule"] += "  Parts of this run: " + "; ".join(parts) + "."
        ev = {"property_id": self.pid, "tier": self.tier, "seed": seed(), "level": self.level,
              "coverage": self.cov, "assumptions": self.assumptions, "wall_s": round(wall, 1),
              "violations": len(self.violations),
              "known_findings_seen": {k: v[0] for k, v in self.known.items()}}
        os.makedirs(os.path.join(VERIF, "evidence"), exist_ok=True)
        for fid, (n, what) in sorted(self.known.items()):
            print("KNOWN-FINDING: property=%s %s [%s, %d case(s) this run]" % (self.pid, what, fid, n))
        code = 0
        if self.violations:
            rdir = os.path.join(VERIF, "evidence", "replay")
            os.makedirs(rdir, exist_ok=True)
            maxr = int(os.environ.get('VERIF_MAXREPLAY', '20'))
            for i, (desc, replay) in enumerate(self.violations[:maxr]):
                path = os.path.join(rdir, "%s_%s_%d.json" % (self.pid, self.tier, i))
                json.dump({"property": self.pid, "description": desc, "case": replay}, open(path, "w"), indent=1)
                print("VIOLATION property=%s replay=%s" % (self.pid, path))
                print("  " + desc[:600])
            if len(self.violations) > maxr:
                print("  ... and %d more violations" % (len(self.violations) - maxr))
            code = 1
        json.dump(ev, open(os.path.join(VERIF, "evidence", self.pid + ".json"), "w"), indent=1)
        print("%s %s: %s  (states=%d, impl traces=%d, evaluations=%d, nontrivial=%d, %.0fs)" % (
            self.pid, self.tier, "VIOLATIONS" if code else "ok", self.cov["states"],
            self.cov["traces_validated_against_impl"], self.cov["evaluations"], self.cov["distinct_nontrivial"], wall))
        return code


def main_wrapper(fn):
    """run a check function, mapping Infra to exit 2"""
    try:
        code = fn()
    except Infra as e:
        print("INFRASTRUCTURE: " + str(e)[:4000])
        code = 2
    except subprocess.TimeoutExpired as e:
        print("INFRASTRUCTURE: timeout " + str(e)[:1000])
        code = 2
    sys.stdout.flush()
    sys.exit(code)


def digest(obj):
    return hashlib.sha1(json.dumps(obj, sort_keys=True).encode()).hexdigest()[:12]
