"""C18 -- frames are isolated under any growth: a variable holds its last written value.
Memory.tla (frames as objects, closure references, clones with private closure stacks, shared globals, recycled
clones) is explored exhaustively per operation family and by seeded simulation; every history with the value each
read must return is replayed on memory.Type's exported API.  Program level: wide frames x suspended generators x
stack-growing prefixes x recursion depth, judged by CalcSem."""
import json, subprocess
import vlib, props, semcheck, findings, vmcheck


def replay(hists):
    vh = vlib.build_harness()
    n = vlib.NCPU
    chunks = [hists[i::n] for i in range(n)]
    procs = []
    for ch in chunks:
        if ch:
            p = subprocess.Popen([vh, "memreplay"], stdin=subprocess.PIPE, stdout=subprocess.PIPE, stderr=subprocess.PIPE, text=True)
            procs.append((p, "\n".join(json.dumps(h) for h in ch) + "\n"))
    import threading
    outs = [None] * len(procs)

    def work(i, p, inp):
        outs[i] = p.communicate(inp, timeout=1800)
    ths = [threading.Thread(target=work, args=(i, p, inp)) for i, (p, inp) in enumerate(procs)]
    [t.start() for t in ths]
    [t.join() for t in ths]
    mism, total = [], 0
    for i, (p, _) in enumerate(procs):
        if outs[i] is None or p.returncode != 0:
            raise vlib.Infra("vh memreplay failed: " + (outs[i][1][-1000:] if outs[i] else ""))
        for l in outs[i][0].splitlines():
            o = json.loads(l)
            if o.get("summary"):
                total += o["cases"]
            else:
                mism.append(o)
    return mism, total


def is_d11(m):
    """a captured-variable read that disagrees after the stack of the memory holding the captured frame may have been
    reallocated since the capture (a burst or a frame of >= 100 slots in between) AND the disagreement at that step
    disappears when the same history is replayed on a main stack that was grown once beforehand: the known finding D11"""
    h = m["mismatch"]["h"]
    step = m["step"]
    if h[step]["op"] != "getc":
        return False
    caps = [i for i, o in enumerate(h[:step]) if o["op"] == "capture"]
    if not caps:
        return False
    if not any((o["op"] == "burst" and o["a"] >= 100) or (o["op"] == "call" and o["a"] >= 100) for o in h[caps[0]:step]):
        return False
    again, _ = replay([{"h": h[:step + 1], "pregrow": 200000}])
    return not again


def nontrivial(h):
    ops = [o["op"] for o in h["h"]]
    grow = [i for i, o in enumerate(ops) if o in ("burst", "clone", "recycle") or (o == "call" and h["h"][i]["a"] >= 128)]
    return "call" in ops and any(o in ("get", "getc", "getg", "pop") for o in ops[grow[0]:]) if grow else False


def run(tier, replay_path=None):
    ck = vlib.Check("C18", tier)
    seed = vlib.seed()
    if replay_path:
        case = json.load(open(replay_path))["case"]
        if "mismatch" in case:
            mism, total = replay([case["mismatch"]])
            for m in mism:
                ck.violation("memory history: step %d: %s" % (m["step"], m["why"]), m)
            ck.cov["evaluations"] = 1
            return ck.finish()
        return semcheck.replay_file(ck, replay_path, cmp=("value", "residue"))
    d11 = [f for f in ck.findings.get("findings", []) if f["id"] == "D11"]
    for fam in ("frames", "boundary", "closure", "clone", "clonedeep", "all"):
        r = vlib.run_tlc("Memory", "Memory_%s_%s.cfg" % (fam, tier), timeout=3000)
        if r.violation:
            raise vlib.Infra("Memory.tla invariant failed (specification defect): " + r.violation)
        ck.add_tlc(r, "Memory.tla exhaustive, family " + fam)
        hists = [json.loads(l[4:]) for l in r.lines if l.startswith("OBS ")]
        mism, total = replay(hists)
        ck.cov["evaluations"] += total
        ck.cov["traces_validated_against_impl"] += total
        ck.cov["distinct_nontrivial"] += sum(1 for h in hists if nontrivial(h))
        ck.part("replay " + fam, histories=total, mismatches=len(mism))
        if hists:
            ck.sample({"family": fam, "ops": [[o["op"], o["a"], o["b"], o["r"]] for o in hists[len(hists) // 2]["h"]]})
        for m in mism:
            if d11 and is_d11(m):
                ck.known_finding("D11", d11[0]["what"])
            else:
                ck.violation("memory history (%s): step %d (%s): %s: %s" % (fam, m["step"], m["mismatch"]["h"][m["step"]]["op"], m["why"],
                                                                             " ".join("%s:%s:%s" % (o["op"], o["a"], o["b"]) for o in m["mismatch"]["h"])[:400]), m)
    # binding self-test: one changed returned value in a history must be reported
    import copy
    bad = []
    for h in hists:
        idx = [i for i, o in enumerate(h["h"]) if o["op"] in ("get", "getg", "pop") and o["r"] > 0]
        if idx:
            h2 = copy.deepcopy(h)
            h2["h"][idx[0]]["r"] += 1
            bad.append(h2)
        if len(bad) >= 10:
            break
    if bad:
        bm, _ = replay(bad)
        if len(bm) != len(bad):
            raise vlib.Infra("binding self-test: %d corrupted histories, %d reported" % (len(bad), len(bm)))
        ck.part("binding self-test", corrupted=len(bad), rejected=len(bm))
    # seeded simulation of long histories over the full alphabet and more widths
    num = 300 if tier == "quick" else 4000
    r = vlib.run_tlc("Memory", "Memory_sim.cfg", simulate="num=%d" % num, depth=26, extra=["-seed", str(seed)], timeout=3000)
    if r.violation:
        raise vlib.Infra("Memory.tla invariant failed in simulation: " + r.violation)
    hists = [json.loads(l[4:]) for l in r.lines if l.startswith("OBS ")]
    ck.cov["states"] += sum(len(h["h"]) for h in hists)
    ck.cov["transitions"] += sum(len(h["h"]) for h in hists)
    mism, total = replay(hists)
    ck.cov["evaluations"] += total
    ck.cov["traces_validated_against_impl"] += total
    ck.cov["distinct_nontrivial"] += sum(1 for h in hists if nontrivial(h))
    ck.part("simulation, histories of 24 operations", histories=total, mismatches=len(mism))
    for m in mism:
        if d11 and is_d11(m):
            ck.known_finding("D11", d11[0]["what"])
        else:
            ck.violation("memory history (simulation): step %d (%s): %s: %s" % (m["step"], m["mismatch"]["h"][m["step"]]["op"], m["why"],
                                                                                 " ".join("%s:%s:%s" % (o["op"], o["a"], o["b"]) for o in m["mismatch"]["h"])[:500]), m)
    # program level
    fams = props.c18_families(tier, seed)
    vs = semcheck.run_families(ck, fams, props.c18_nontrivial, maxsteps=900000)
    sl = [v.session for v in vs if v.status == "accept" and "width" in v.session.get("meta", {})]
    n, agree, viol = vmcheck.validate(ck, sl[:60 if tier == "quick" else 400], "CalcVM: real instruction traces of wide-frame programs followed on frame objects", maxsteps=200000)
    for desc, case, kind in viol:
        ck.violation(desc, case)
    # the frame slot every name of these programs is compiled to (CalcScope.tla against the real rewriter)
    import scopecheck
    scoped = [s for fam in fams for s in fam[1] if "nested-frames" in s.get("meta", {}) or s.get("meta", {}).get("width", 999) <= 5]
    for desc, case in scopecheck.validate(ck, scoped, "CalcScope: storage class and frame slot of every name in nested function literals"):
        ck.violation(desc, case)
    ck.cov["rule"] = ("Memory.tla histories: all legal operation sequences up to the bound per family (stack+frames+globals / frames+closures / frames+closures+clone+recycle / all), widths {1,130} "
                      "and burst 129 around the 128-slot allocation unit, plus seeded simulation of 24-operation histories over widths {1,2,127,128,130} and bursts {3,127,129,300}; "
                      "non-trivial = a read or pop after a growth, clone or recycle event with at least one frame pushed.  Programs: frame widths 1..260 x 0-3 suspended generators x "
                      "stack-growing prefixes x call depths 0/3/140, recursion to depth 3000")
    ck.assumptions += ["Memory.tla and CalcSem.tla evaluated by TLC are the oracle", "VM protocol order for call/return is assumed (argument push, PushFrame, PushClosure, return address)",
                       "memory exhaustion itself is out of scope"]
    return ck.finish()
