#!/bin/bash
# run every registered check of one tier on /repo's working tree; one line per check; exit 0 only if all exit 0
#   tools/runall.sh quick|thorough [log directory]
tier=${1:-quick}; logs=${2:-}
here=$(cd "$(dirname "$0")/.." && pwd)
rc=0
for i in 01 02 03 04 05 06 07 08 09 10 11 12 13 14 15 16 17 18 19; do
  t0=$(date +%s)
  out=$($here/bin/check C$i $tier 2>&1); code=$?
  [ -n "$logs" ] && mkdir -p "$logs" && printf '%s\n' "$out" > "$logs/C$i.$tier.log"
  echo "C$i $tier exit $code ($(( $(date +%s) - t0 ))s): $(printf '%s\n' "$out" | tail -1 | cut -c1-200)"
  [ $code -ne 0 ] && rc=1
done
exit $rc
