----------------------------- MODULE TLexerInd -----------------------------
(* Inductive invariant of the transactional lexer model, for Apalache.              *)
(* TLC checks Refines / FreshScan / SnapsInRange over every history up to MaxOps     *)
(* operations; this module removes that bound: IndInv holds initially and is         *)
(* preserved by every action from ANY state satisfying it, hence after histories of  *)
(* any length (for scans of up to MaxTok tokens and snapshot stacks up to MaxDepth;  *)
(* the step appends at most one entry to each).  The invariants of TLexerCore alone  *)
(* are not inductive: a rollback needs every saved pointer to lie inside what has    *)
(* been scanned (PtrsScanned), which TLC's reachable states satisfy silently.        *)
(*   apalache-mc check --init=IndInit --inv=IndInv --next=CoreNext --length=1 --cinit=CInit TLexerInd.tla *)
(*   apalache-mc check --init=CoreInit --inv=IndInv --next=CoreNext --length=0 --cinit=CInit TLexerInd.tla *)
(*   apalache-mc check --init=IndInit --inv=Safe   --next=CoreNext --length=0 --cinit=CInit TLexerInd.tla *)
EXTENDS TLexerCore, Apalache

MaxTok == 8
MaxDepth == 6
CInit == NToks = 2..MaxTok /\ ErrModes = BOOLEAN

PtrsScanned == /\ Len(ptrs) = Len(snaps)
               /\ \A i \in DOMAIN ptrs : -1 <= ptrs[i] /\ ptrs[i] < writep
Bounds == /\ ntok \in NToks /\ haserr \in ErrModes
          /\ -1 <= readp /\ 0 <= under /\ under <= ntok
IndInv == Bounds /\ Refines /\ FreshScan /\ SnapsInRange /\ PtrsScanned
Safe == Refines /\ FreshScan /\ SnapsInRange

\* any state of the right shape satisfying IndInv
IndInit == /\ ntok \in NToks /\ haserr \in ErrModes
           /\ pos \in 0..MaxTok /\ readp \in -1..MaxTok /\ writep \in 0..MaxTok /\ under \in 0..MaxTok
           /\ snaps = Gen(MaxDepth) /\ ptrs = Gen(MaxDepth) /\ cache = Gen(MaxTok)
           /\ IndInv
\* self-tests of this proof (expected to FAIL, run by the check): the TLC invariants alone are not inductive, and IndInit is
\* not vacuous (it admits full snapshot stacks over fully scanned inputs)
WeakInv == Bounds /\ Refines /\ FreshScan /\ SnapsInRange
WeakInit == /\ ntok \in NToks /\ haserr \in ErrModes
            /\ pos \in 0..MaxTok /\ readp \in -1..MaxTok /\ writep \in 0..MaxTok /\ under \in 0..MaxTok
            /\ snaps = Gen(MaxDepth) /\ ptrs = Gen(MaxDepth) /\ cache = Gen(MaxTok)
            /\ WeakInv
NotFull == ~(Len(snaps) = MaxDepth /\ writep = MaxTok /\ pos = 3)
=============================================================================
