---------------------------- MODULE BytecodeEnc ----------------------------
(* The definitions of the instruction encoding of Bytecode.tla, on their own so that both TLC (Bytecode.tla, bounded *)
(* vectors replayed into the real encoder) and TLAPS (BytecodeProof.tla, every integer) read the same text.           *)
EXTENDS Integers, Sequences
W == 65536
Zero == <<0, 0, 0, 0>>
New(op) == <<(op % 128) * 512, 0, 0, 0>>
TempFlag == 64
BaseOps == 0..42                       \* NOP .. EXIT
TempOps == {1, 4, 5, 6, 7, 8, 10, 11, 12, 13, 14, 15, 16, 17, 18, 19, 20, 21, 24}   \* those with a TMP form
Admit(addr) == addr >= -(W \div 2) /\ addr < W \div 2
KindShift(sel) == CASE sel = 0 -> 1 [] sel = 1 -> 8 [] sel = 2 -> 64
EncodeSrc(sel, kind, addr) ==
  LET a == addr % W     \* two's complement truncation (TLA+ % is non-negative)
      h == (kind % 8) * KindShift(sel)
  IN CASE sel = 0 -> <<h, 0, 0, a>> [] sel = 1 -> <<h, 0, a, 0>> [] sel = 2 -> <<h, a, 0, 0>>
OpCode(w) == w[1] \div 512
Src(w, sel) == (w[1] \div KindShift(sel)) % 8
SignExt(n) == IF n >= W \div 2 THEN n - W ELSE n
SrcAddr(w, sel) == SignExt(CASE sel = 0 -> w[4] [] sel = 1 -> w[3] [] sel = 2 -> w[2])

\* function value: <<params, locals, entryHi, entryLo>>
NewFunction(entry, params, locals) == <<params % W, locals % W, (entry \div W) % W, entry % W>>
ToFunction(f) == [entry |-> f[3] * W + f[4], params |-> f[1], locals |-> f[2]]
FunAdmit(entry, params, locals) == entry >= 0 /\ entry \div W < 32768 /\ params >= 0 /\ params < W /\ locals >= 0 /\ locals < W

=============================================================================
