----------------------------- MODULE ValuesMC -----------------------------
(* Model-checking harness for CalcValues (property C11, and the contracts of C17 that  *)
(* are pure value functions): every initial state is one operator application over the  *)
(* bounded value domain; its single step evaluates the specification's operator and     *)
(* prints the tuple with the specified result ("OBS" line) for replay on types/value.   *)
(* The documented algebraic laws are invariants, so TLC checks them on every tuple.     *)
EXTENDS CalcValues, TLC, Json

CONSTANT Tier      \* "quick" | "thorough"

FnV == [k |-> "fn"]
Ints == IF Tier = "quick"
        THEN {IntV(i) : i \in {-7, -2, -1, 0, 1, 2, 3, 12}}
        ELSE {IntV(i) : i \in -9..9} \cup {IntV(1000), IntV(-1000), IntV(12), IntV(-13), IntV(255), IntV(-256), IntV(30000), IntV(-30000), IntV(1048576), IntV(-1048576)}
T(str) == str      \* decimal texts are written as tuples of one-character strings
BigInts == {BigV(<<"9", "2", "2", "3", "3", "7", "2", "0", "3", "6", "8", "5", "4", "7", "7", "5", "8", "0", "7">>),            \* 2^63 - 1
            BigV(<<"-", "9", "2", "2", "3", "3", "7", "2", "0", "3", "6", "8", "5", "4", "7", "7", "5", "8", "0", "8">>),       \* -2^63
            BigV(<<"-", "9", "2", "2", "3", "3", "7", "2", "0", "3", "6", "8", "5", "4", "7", "7", "5", "8", "0", "7">>),
            BigV(<<"4", "6", "1", "1", "6", "8", "6", "0", "1", "8", "4", "2", "7", "3", "8", "7", "9", "0", "4">>),            \* 2^62
            BigV(<<"2", "1", "4", "7", "4", "8", "3", "6", "4", "8">>), BigV(<<"-", "2", "1", "4", "7", "4", "8", "3", "6", "4", "9">>)} \cup
           (IF Tier = "quick" THEN {} ELSE {BigV(<<"4", "2", "9", "4", "9", "6", "7", "2", "9", "6">>), BigV(<<"-", "4", "6", "1", "1", "6", "8", "6", "0", "1", "8", "4", "2", "7", "3", "8", "7", "9", "0", "5">>),
                                            BigV(<<"9", "2", "2", "3", "3", "7", "2", "0", "3", "6", "8", "5", "4", "7", "7", "5", "8", "0", "6">>)})
Floats == IF Tier = "quick"
          THEN {Fin(neg, n, e) : neg \in BOOLEAN, n \in {0, 1, 3}, e \in {0, 1}} \cup {NaN, Inf(TRUE), Inf(FALSE)}
          ELSE {Fin(neg, n, e) : neg \in BOOLEAN, n \in {0, 1, 3, 5, 12, 1001}, e \in {0, 1, 2, 3}} \cup {NaN, Inf(TRUE), Inf(FALSE)}
Strs == IF Tier = "quick"
        THEN {StrV(<<>>), StrV(<<"a">>), StrV(<<"a", "b">>)}
        ELSE {StrV(<<>>), StrV(<<"a">>), StrV(<<"b">>), StrV(<<"a", "b">>), StrV(<<"b", "a">>), StrV(<<"b", "a", "b">>), StrV(<<"a", "a", "a">>), StrV(<<"1", "2">>)}
Arrs == IF Tier = "quick"
        THEN {ArrV(<<>>), ArrV(<<IntV(1)>>), ArrV(<<IntV(1), Fin(FALSE, 1, 0)>>), ArrV(<<ArrV(<<IntV(2)>>), StrV(<<"a">>)>>), ArrV(<<FnV>>)}
        ELSE {ArrV(<<>>), ArrV(<<IntV(1)>>), ArrV(<<Fin(FALSE, 1, 0)>>), ArrV(<<IntV(1), Fin(FALSE, 1, 0)>>), ArrV(<<Fin(FALSE, 1, 0), IntV(1)>>),
              ArrV(<<ArrV(<<IntV(2)>>), StrV(<<"a">>)>>), ArrV(<<ArrV(<<Fin(FALSE, 2, 0)>>), StrV(<<"a">>)>>), ArrV(<<ArrV(<<>>)>>),
              ArrV(<<FnV>>), ArrV(<<Nil>>), ArrV(<<IntV(1), Nil>>), ArrV(<<NaN>>), ArrV(<<BoolV(TRUE), BoolV(FALSE)>>),
              ArrV(<<IntV(1), IntV(2), IntV(3)>>), ArrV(<<IntV(3), IntV(2), IntV(1)>>), ArrV(<<StrV(<<"a">>), StrV(<<>>)>>)}
Vals == Ints \cup BigInts \cup Floats \cup Strs \cup Arrs \cup {Nil, FnV, BoolV(TRUE), BoolV(FALSE)}
Nums == Ints \cup Floats
Seqs == Strs \cup Arrs
BinOps == {"+", "-", "*", "/", "%", "<", ">", "<=", ">=", "==", "!=", "&", "|", "<<", ">>"}
UnOps == {"-", "#", "!", "~"}

VARIABLES kind, op, a, b, c, done
vars == <<kind, op, a, b, c, done>>

Init ==
  /\ done = FALSE
  /\ \/ kind = "bin" /\ op \in BinOps /\ a \in Vals /\ b \in Vals /\ c = Nil
     \/ kind = "un" /\ op \in UnOps /\ a \in Vals /\ b = Nil /\ c = Nil
     \/ kind = "ix1" /\ op = "ix1" /\ a \in Vals /\ b \in Ints \cup {Nil, FnV, BoolV(TRUE), Fin(FALSE, 1, 0), StrV(<<"a">>)} /\ c = Nil
     \/ kind = "ix2" /\ op = "ix2" /\ a \in Seqs \cup {Nil, IntV(1), FnV} /\ b \in {IntV(i) : i \in -2..5} \cup {Nil, BoolV(TRUE)}
                     /\ c \in {IntV(i) : i \in -2..5} \cup {Nil, Fin(FALSE, 1, 0)}
     \/ kind = "render" /\ op = "render" /\ a \in Vals /\ b = Nil /\ c = Nil
     \/ kind = "abbrev" /\ op = "abbrev" /\ a \in Arrs \cup Strs \cup {ArrV(<<IntV(1048576), IntV(1048576), IntV(1048576)>>), ArrV(<<IntV(1048576), IntV(1048576), IntV(104857)>>)}
                        /\ b = Nil /\ c = Nil

Result ==
  CASE kind = "bin" -> BinApply(op, a, b)
    [] kind = "un" -> UnApply(op, a)
    [] kind = "ix1" -> Index1(a, b)
    [] kind = "ix2" -> Index2(a, b, c)
    [] kind = "render" -> (LET r == Render(a) IN IF IsErr(r) THEN r ELSE Ok(StrV(r.val)))
    [] kind = "abbrev" -> (LET r == Render(a) IN IF IsErr(r) THEN r ELSE Ok(StrV(Abbrev(r.val))))

Next ==
  /\ ~done
  /\ done' = TRUE
  /\ PrintT("OBS " \o ToJson([op |-> IF kind = "un" THEN "un" \o op ELSE op, a |-> a, b |-> b, c |-> c, r |-> Result]))
  /\ UNCHANGED <<kind, op, a, b, c>>
Spec == Init /\ [][Next]_vars

-----------------------------------------------------------------------------
(* The documented laws (property C11), evaluated on every operand pair of the domain *)
BinState == kind = "bin" /\ ~done
V(r) == r.val.v
LawEqSymmetric == BinState /\ op = "==" => Eq("==", a, b) = Eq("==", b, a)
LawNeNegation == BinState /\ op = "==" => LET e == Eq("==", a, b) n == Eq("!=", a, b) IN
                   IF IsErr(e) THEN n = e ELSE V(n) = ~V(e)
LawNilAlwaysError == BinState /\ (a.k = "nil" \/ b.k = "nil") => IsErr(BinApply(op, a, b))
LawFunctionsNeverEqual == BinState /\ op = "==" /\ a.k = "fn" /\ b.k = "fn" => Eq("==", a, b) = Ok(BoolV(FALSE))
LawRelConsistent == BinState /\ op = "<" /\ IsNum(a) /\ IsNum(b) =>
    LET lt == V(Rel("<", a, b)) gt == V(Rel(">", a, b)) le == V(Rel("<=", a, b)) ge == V(Rel(">=", a, b)) eq == V(Eq("==", a, b)) IN
    /\ lt = V(Rel(">", b, a)) /\ le = V(Rel(">=", b, a))
    /\ le = (lt \/ eq) /\ ge = (gt \/ eq) /\ ~(lt /\ gt)
LawIntEqualsFloat == BinState /\ op = "==" /\ a.k = "int" /\ b = ToF(a) => Eq("==", a, b) = Ok(BoolV(TRUE))
LawZeroDivision == BinState /\ op \in {"/", "%"} /\ a.k = "int" /\ b = IntV(0) => BinApply(op, a, b) = Err("zerodiv")
LawMixedPromotes == BinState /\ op \in {"+", "-", "*", "/"} /\ IsNum(a) /\ IsNum(b) /\ a.k # b.k =>
    LET r == BinApply(op, a, b) IN IsErr(r) => r = Unspec
LawPromotedIsFloat == BinState /\ op \in {"+", "-", "*", "/"} /\ IsNum(a) /\ IsNum(b) /\ a.k # b.k =>
    LET r == BinApply(op, a, b) IN ~IsErr(r) => r.val.k = "float"
LawIntDivTruncates == BinState /\ op = "/" /\ a.k = "int" /\ b.k = "int" /\ b.v # 0 /\ ~Big(a.v) /\ ~Big(b.v) =>
    LET q == V(Arith("/", a, b)) r == V(Mod(a, b)) IN
    /\ a.v = q * b.v + r /\ Abs(r) < Abs(b.v) /\ (r = 0 \/ (r < 0) = (a.v < 0))
LawConcatLength == BinState /\ op = "+" /\ a.k = b.k /\ a.k \in {"str", "arr"} =>
    V(LenOf(Arith("+", a, b).val)) = Len(a.v) + Len(b.v)
LawSlice == kind = "ix2" /\ ~done /\ a.k \in {"str", "arr"} /\ b.k = "int" /\ c.k = "int" =>
    LET r == Index2(a, b, c) IN
    IF 0 <= b.v /\ b.v <= c.v /\ c.v <= Len(a.v)
    THEN /\ ~IsErr(r) /\ Len(r.val.v) = c.v - b.v
         /\ (b.v = 0 => Arith("+", r.val, Index2(a, c, IntV(Len(a.v))).val).val = a)
    ELSE r = Err("index")
LawIndex == kind = "ix1" /\ ~done /\ a.k \in {"str", "arr"} /\ b.k = "int" =>
    LET r == Index1(a, b) IN IF 0 <= b.v /\ b.v < Len(a.v) THEN ~IsErr(r) ELSE r = Err("index")
\* order and equality of integers of any size: a strict total order, consistent under swapping the operands
LawBigOrder == BinState /\ op = "<" /\ IntLike(a) /\ IntLike(b) /\ (a.k = "bigint" \/ b.k = "bigint") =>
    LET lt == V(BinApply("<", a, b)) gt == V(BinApply(">", a, b)) le == V(BinApply("<=", a, b)) ge == V(BinApply(">=", a, b)) eq == V(BinApply("==", a, b)) ne == V(BinApply("!=", a, b)) IN
    /\ lt = V(BinApply(">", b, a)) /\ le = V(BinApply(">=", b, a)) /\ le = (lt \/ eq) /\ ge = (gt \/ eq) /\ ne = ~eq
    /\ (IF eq THEN ~lt /\ ~gt /\ a = b ELSE lt # gt)
    /\ (a.k = "int" => lt = (b.txt[1] # "-")) /\ (b.k = "int" => lt = (a.txt[1] = "-"))       \* a big integer lies beyond every small one, on the side of its sign
LawTotal == ~done => (LET r == Result IN IsErr(r) \/ "val" \in DOMAIN r)
=============================================================================
