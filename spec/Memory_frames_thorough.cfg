SPECIFICATION Spec
CONSTANTS MaxOps = 6
Widths = {1, 130}
Bursts = {129}
Fam = {"stack", "frame", "global"}
INVARIANT FramesDistinct
CHECK_DEADLOCK FALSE
