SPECIFICATION Spec
CONSTANT MaxStmts = 2
CONSTANT LongN = 7000
CONSTANT OnlyLong = TRUE
INVARIANT EndsSane
CHECK_DEADLOCK FALSE
