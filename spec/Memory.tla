------------------------------- MODULE Memory -------------------------------
(* Intended behaviour of memory.Type (property C18): frames are objects with        *)
(* identity; a variable holds the value most recently written to it in its own      *)
(* activation whatever is pushed, popped, grown, cloned or recycled around it; a    *)
(* closure reference reads the referenced frame's current contents; a clone gets a  *)
(* copy of the top frame and a private closure stack; globals are shared.  Frame    *)
(* widths and burst sizes are abstract symbols chosen around the 128-slot           *)
(* allocation unit; slots are addressed as first/last.  Histories carry the value   *)
(* every read must return and are replayed on the real package.                     *)
EXTENDS Integers, Sequences, TLC, Json, FiniteSets
CONSTANTS MaxOps, Widths, Bursts,
          Fam,     \* enabled operation families: subset of {"stack", "frame", "global", "closure", "clone", "mini"}
                   \* ("mini": calls through captured frames, return, clone, switch, captured read only -- a narrow alphabet for long histories)
          Deep     \* BOOLEAN: start from three nested calls with a captured frame (closure stack of length 3, so that its storage has spare capacity)
VARIABLES mems,   \* Seq of [frames: Seq(frameId), base: Seq(val), clos: Seq(ref), dead: BOOLEAN]
          fr,     \* frameId -> [w, first, last, scratch: Seq(val)]
          globals, \* "ga"/"gb" -> value, shared by all memories
          cur, refs, nextv, hist
vars == <<mems, fr, globals, cur, refs, nextv, hist>>
Last(s) == s[Len(s)]
Front(s) == SubSeq(s, 1, Len(s) - 1)
NilV == 0
F1(a) == [w |-> 1, first |-> a, second |-> a, last |-> a, scratch |-> <<-1>>]
Init == IF ~Deep
        THEN /\ mems = << [frames |-> <<>>, base |-> <<>>, clos |-> <<>>, dead |-> FALSE] >>
             /\ fr = <<>> /\ globals = [g \in {"ga", "gb"} |-> 0] /\ cur = 1 /\ refs = <<>> /\ nextv = 1 /\ hist = <<>>
        ELSE /\ mems = << [frames |-> <<1, 2, 3>>, base |-> <<>>, clos |-> <<0, 1, 1>>, dead |-> FALSE] >>
             /\ fr = << F1(1), F1(2), F1(3) >> /\ globals = [g \in {"ga", "gb"} |-> 0] /\ cur = 1 /\ refs = <<1>> /\ nextv = 4
             /\ hist = << [op |-> "call", a |-> 1, b |-> 0, r |-> 1], [op |-> "capture", a |-> 1, b |-> 0, r |-> 0],
                          [op |-> "call", a |-> 1, b |-> 1, r |-> 2], [op |-> "call", a |-> 1, b |-> 1, r |-> 3] >>
M == mems[cur]
HasFrame == Len(M.frames) > 0
TopId == Last(M.frames)
Scratch == IF HasFrame THEN fr[TopId].scratch ELSE M.base
SetScratch(s) == IF HasFrame THEN /\ fr' = [fr EXCEPT ![TopId].scratch = s] /\ mems' = mems
                 ELSE /\ mems' = [mems EXCEPT ![cur].base = s] /\ fr' = fr
H(op, a, b, r) == hist' = Append(hist, [op |-> op, a |-> a, b |-> b, r |-> r])
Can == Len(hist) < MaxOps

Push == /\ Can /\ SetScratch(Append(Scratch, nextv)) /\ nextv' = nextv + 1
        /\ H("push", nextv, 0, 0) /\ UNCHANGED <<cur, refs, globals>>
Pop == /\ Can /\ Len(Scratch) > 0
       /\ Last(Scratch) > 0                    \* never pop the return address or burst filler
       /\ SetScratch(Front(Scratch)) /\ H("pop", 0, 0, Last(Scratch)) /\ UNCHANGED <<cur, refs, nextv, globals>>
PushBurst(n) == /\ Can /\ SetScratch(Scratch \o <<-2, nextv, nextv + 1>>) /\ nextv' = nextv + 2
                /\ H("burst", n, nextv, 0) /\ UNCHANGED <<cur, refs, globals>>   \* n values; only first and last are distinguished
\* call protocol: one argument, frame of width w, closure ref (or none), return address
Call(w, r) ==
  /\ Can /\ Len(hist) + 1 < MaxOps
  /\ LET id == Len(fr) + 1
         arg == nextv
     IN /\ fr' = Append(fr, [w |-> w, first |-> arg, second |-> IF w = 1 THEN arg ELSE NilV, last |-> IF w = 1 THEN arg ELSE NilV, scratch |-> <<-1>>])
        /\ mems' = [mems EXCEPT ![cur].frames = Append(@, id), ![cur].clos = Append(@, r)]
        /\ nextv' = nextv + 1
        /\ H("call", w, r, arg)
  /\ UNCHANGED <<cur, refs, globals>>
Ret == /\ Can /\ HasFrame /\ Len(M.frames) > (IF cur = 1 THEN 0 ELSE 1)   \* a clone never returns from its base frame
       /\ mems' = [mems EXCEPT ![cur].frames = Front(@), ![cur].clos = Front(@)]
       /\ H("ret", 0, 0, 0) /\ UNCHANGED <<fr, cur, refs, nextv, globals>>
\* slots: first = index 0 (the argument), second = index 1 (the first local proper), last = index w-1; they coincide for narrow frames
Slot(f, s) == IF s = "first" \/ f.w = 1 THEN f.first ELSE IF s = "second" THEN (IF f.w = 2 THEN f.last ELSE f.second) ELSE f.last
SetL(s) == /\ Can /\ HasFrame
           /\ LET f == fr[TopId]
                  f2 == IF f.w = 1 THEN [f EXCEPT !.first = nextv, !.second = nextv, !.last = nextv]
                        ELSE IF s = "first" THEN [f EXCEPT !.first = nextv]
                        ELSE IF s = "second" THEN (IF f.w = 2 THEN [f EXCEPT !.second = nextv, !.last = nextv] ELSE [f EXCEPT !.second = nextv])
                        ELSE (IF f.w = 2 THEN [f EXCEPT !.second = nextv, !.last = nextv] ELSE [f EXCEPT !.last = nextv])
              IN fr' = [fr EXCEPT ![TopId] = f2]
           /\ nextv' = nextv + 1 /\ H("set", s, nextv, 0) /\ UNCHANGED <<mems, cur, refs, globals>>
GetL(s) == /\ Can /\ HasFrame /\ H("get", s, 0, Slot(fr[TopId], s)) /\ UNCHANGED <<mems, fr, cur, refs, nextv, globals>>
\* Top(): capture a live reference to the current frame
Capture == /\ Can /\ HasFrame /\ Len(refs) < 2
           /\ refs' = Append(refs, TopId) /\ H("capture", Len(refs) + 1, 0, 0) /\ UNCHANGED <<mems, fr, cur, nextv, globals>>
\* a reference may be used only while its frame is still on some memory's frame list
LiveRef(r) == IF r = 0 THEN TRUE ELSE \E m \in 1..Len(mems) : ~mems[m].dead /\ \E i \in 1..Len(mems[m].frames) : mems[m].frames[i] = refs[r]
GetC(s) == /\ Can /\ Len(M.clos) > 0 /\ Last(M.clos) # 0 /\ LiveRef(Last(M.clos))
           /\ H("getc", s, 0, Slot(fr[refs[Last(M.clos)]], s)) /\ UNCHANGED <<mems, fr, cur, refs, nextv, globals>>
\* Clone(nil): a new memory with a copy of the top frame (new identity), a private copy of the closure stack, shared globals
Clone == /\ Can /\ HasFrame /\ Len(mems) < 3
         /\ LET id == Len(fr) + 1 IN
            /\ fr' = Append(fr, fr[TopId])
            /\ mems' = Append(mems, [frames |-> <<id>>, base |-> <<>>, clos |-> M.clos, dead |-> FALSE])
         /\ H("clone", Len(mems) + 1, 0, 0) /\ UNCHANGED <<cur, refs, nextv, globals>>
\* the VM puts a finished iterator context on its free list ...
Kill(m) == /\ Can /\ m # cur /\ m > 1 /\ ~mems[m].dead
           /\ mems' = [mems EXCEPT ![m].dead = TRUE]
           /\ H("kill", m, 0, 0) /\ UNCHANGED <<fr, cur, refs, nextv, globals>>
\* ... and Clone(reuse) recycles it: exactly a fresh clone, whatever the recycled memory held
Recycle(m) == /\ Can /\ HasFrame /\ mems[m].dead
              /\ LET id == Len(fr) + 1 IN
                 /\ fr' = Append(fr, fr[TopId])
                 /\ mems' = [mems EXCEPT ![m] = [frames |-> <<id>>, base |-> <<>>, clos |-> M.clos, dead |-> FALSE]]
              /\ H("recycle", m, 0, 0) /\ UNCHANGED <<cur, refs, nextv, globals>>
Switch(m) == /\ Can /\ m # cur /\ ~mems[m].dead /\ cur' = m /\ H("switch", m, 0, 0) /\ UNCHANGED <<mems, fr, refs, nextv, globals>>
SetG(g) == /\ Can /\ globals' = [globals EXCEPT ![g] = nextv] /\ nextv' = nextv + 1
           /\ H("setg", g, nextv, 0) /\ UNCHANGED <<mems, fr, cur, refs>>
GetG(g) == /\ Can /\ H("getg", g, 0, globals[g]) /\ UNCHANGED <<mems, fr, cur, refs, nextv, globals>>
Emit == /\ Len(hist) = MaxOps /\ hist' = Append(hist, [op |-> "end", a |-> 0, b |-> 0, r |-> 0])
        /\ PrintT("OBS " \o ToJson([h |-> hist])) /\ UNCHANGED <<mems, fr, cur, refs, nextv, globals>>
Next == \/ Emit
        \/ ("stack" \in Fam /\ (Push \/ Pop \/ \E n \in Bursts : PushBurst(n)))
        \/ ("frame" \in Fam /\ (Ret \/ (\E w \in Widths, r \in 0..2 : (r <= Len(refs) /\ (r = 0 \/ "closure" \in Fam) /\ LiveRef(r) /\ Call(w, r)))
                                   \/ \E s \in {"first", "second", "last"} : SetL(s) \/ GetL(s)))
        \/ ("global" \in Fam /\ \E g \in {"ga", "gb"} : SetG(g) \/ GetG(g))
        \/ ("closure" \in Fam /\ (Capture \/ \E s \in {"first", "second", "last"} : GetC(s)))
        \/ ("mini" \in Fam /\ (Ret \/ Clone \/ Capture \/ GetC("first") \/ (Len(refs) >= 1 /\ LiveRef(1) /\ Call(1, 1))
                                  \/ (Len(refs) >= 2 /\ LiveRef(2) /\ Call(1, 2)) \/ \E m \in 1..3 : (m <= Len(mems) /\ Switch(m))))
        \/ ("clone" \in Fam /\ (Clone \/ \E m \in 1..3 : (m <= Len(mems) /\ (Switch(m) \/ Kill(m) \/ Recycle(m)))))
Spec == Init /\ [][Next]_vars
\* the contract, as invariants of the model itself: reads return the last value written to that variable of that activation
FramesDistinct == \A a, b \in 1..Len(mems) : \A i \in 1..Len(mems[a].frames), j \in 1..Len(mems[b].frames) :
                     (mems[a].frames[i] = mems[b].frames[j]) => (a = b /\ i = j)
=============================================================================
