--------------------------- MODULE BytecodeProof ---------------------------
(* TLAPS proofs about the encoding of BytecodeEnc.tla for EVERY integer, where TLC enumerates boundary vectors:    *)
(* an admitted address survives truncation to the 16-bit field and sign extension; an address outside the admitted *)
(* range never does (so refusing it is the only correct behaviour); an admitted function value round-trips.         *)
EXTENDS BytecodeEnc, TLAPS

THEOREM AddrRoundTrip == \A a \in Int : Admit(a) => SignExt(a % W) = a
  BY DEF Admit, SignExt, W

THEOREM AddrWraps == SignExt(32768 % W) = -32768 /\ SignExt((-32769) % W) = 32767
  BY DEF SignExt, W

THEOREM OutOfRangeNeverRoundTrips == \A a \in Int : ~Admit(a) => SignExt(a % W) # a
  <1>1. \A n \in 0..(W - 1) : Admit(SignExt(n))
        BY DEF Admit, SignExt, W
  <1>2. \A a \in Int : a % W \in 0..(W - 1)
        BY DEF W
  <1> QED BY <1>1, <1>2

\* the three operand fields: what SrcAddr reads from the word EncodeSrc builds is the admitted address
THEOREM FieldRoundTrip == \A a \in Int, k \in 0..7, sel \in 0..2 : Admit(a) => SrcAddr(EncodeSrc(sel, k, a), sel) = a
  <1> SUFFICES ASSUME NEW a \in Int, NEW k \in 0..7, NEW sel \in 0..2, Admit(a) PROVE SrcAddr(EncodeSrc(sel, k, a), sel) = a
      OBVIOUS
  <1>1. SignExt(a % W) = a BY AddrRoundTrip
  <1>2. CASE sel = 0 BY <1>1, <1>2 DEF SrcAddr, EncodeSrc
  <1>3. CASE sel = 1 BY <1>1, <1>3 DEF SrcAddr, EncodeSrc
  <1>4. CASE sel = 2 BY <1>1, <1>4 DEF SrcAddr, EncodeSrc
  <1> QED BY <1>2, <1>3, <1>4

THEOREM FunctionRoundTrips == \A e \in Int, p \in Int, l \in Int : FunAdmit(e, p, l) =>
                                 ToFunction(NewFunction(e, p, l)) = [entry |-> e, params |-> p, locals |-> l]
  <1> SUFFICES ASSUME NEW e \in Int, NEW p \in Int, NEW l \in Int, FunAdmit(e, p, l)
               PROVE ToFunction(NewFunction(e, p, l)) = [entry |-> e, params |-> p, locals |-> l]
      OBVIOUS
  <1>1. p % W = p /\ l % W = l BY DEF FunAdmit, W
  <1>2. (e \div W) % W = e \div W BY DEF FunAdmit, W
  <1>3. (e \div W) * W + (e % W) = e BY DEF W
  <1> QED BY <1>1, <1>2, <1>3 DEF ToFunction, NewFunction
=============================================================================
