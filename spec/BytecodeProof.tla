--------------------------- MODULE BytecodeProof ---------------------------
(* TLAPS proof of the operand-field contract of Bytecode.tla for the WHOLE 16-bit field (not only  *)
(* the boundary vectors TLC enumerates): an admitted address survives truncation to 16 bits and    *)
(* sign extension; the first address beyond the admitted range does not.                           *)
EXTENDS Integers, TLAPS
W == 65536
Enc(a) == a % W
SignExt(n) == IF n >= W \div 2 THEN n - W ELSE n
Dec(n) == SignExt(n)
Admit(a) == a >= -(W \div 2) /\ a < W \div 2

THEOREM RoundTrip == \A a \in Int : Admit(a) => Dec(Enc(a)) = a
  BY DEF Admit, Dec, Enc, SignExt, W

THEOREM Wraps == Dec(Enc(32768)) = -32768 /\ Dec(Enc(-32769)) = 32767
  BY DEF Dec, Enc, SignExt, W

THEOREM OutOfRangeNeverRoundTrips == \A a \in Int : ~Admit(a) => Dec(Enc(a)) # a
  <1>1. \A n \in 0..(W - 1) : Admit(SignExt(n))
        BY DEF Admit, SignExt, W
  <1>2. \A a \in Int : Enc(a) \in 0..(W - 1)
        BY DEF Enc, W
  <1> QED BY <1>1, <1>2 DEF Dec
=============================================================================
