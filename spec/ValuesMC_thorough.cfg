SPECIFICATION Spec
CONSTANT Tier = "thorough"
INVARIANTS LawEqSymmetric LawNeNegation LawNilAlwaysError LawFunctionsNeverEqual LawRelConsistent LawIntEqualsFloat
  LawZeroDivision LawMixedPromotes LawPromotedIsFloat LawIntDivTruncates LawConcatLength LawSlice LawIndex LawBigOrder LawTotal
CHECK_DEADLOCK FALSE
