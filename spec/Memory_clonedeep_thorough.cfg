SPECIFICATION Spec
CONSTANTS MaxOps = 12
Widths = {1}
Bursts = {3}
Fam = {"mini"}
Deep = TRUE
INVARIANT FramesDistinct
CHECK_DEADLOCK FALSE
