------------------------------ MODULE ReplLoop ------------------------------
(* Statement grouping of a script (property C16): as documented -- a statement is a line, or a *)
(* multi-line block / array literal / string; braces, brackets, quotes and semicolons inside   *)
(* string literals and comments do not count; the last line counts with or without a final     *)
(* line break -- versus as coded in node.Loop by raw character counts (ImplEnds), so that TLC  *)
(* itself exhibits the scripts on which the two differ.  Each statement shape carries what it   *)
(* writes and the value the REPL shows for it; the expected output of a script in file mode is  *)
(* the concatenation of what its statements write, in REPL mode the transcript.                 *)
EXTENDS Integers, Sequences, TLC, Json, FiniteSets
CONSTANTS MaxStmts,   \* scripts of up to this many statements
          LongN,      \* the long line is 10 * LongN characters (500: longer than any terminal line; 7000: longer than 64 KiB)
          OnlyLong    \* TRUE: only scripts that contain a long line
\* a line with the raw counts Loop looks at: { } [ ] " and \"
L(txt, lb, rb, lk, rk, q, eq) == [txt |-> txt, lb |-> lb, rb |-> rb, lk |-> lk, rk |-> rk, q |-> q, eq |-> eq]
RECURSIVE Rep(_, _)
Rep(str, n) == IF n = 0 THEN "" ELSE IF n % 2 = 0 THEN LET h == Rep(str, n \div 2) IN h \o h ELSE str \o Rep(str, n - 1)
Long == Rep("abcdefghij", LongN)
Shapes == <<
  [name |-> "longline",  lines |-> << L("write(\"" \o Long \o "\")", 0, 0, 0, 0, 2, 0) >>, out |-> Long, val |-> "nil"],
  [name |-> "longexpr",  lines |-> << L("1" \o Rep("    +    1", LongN), 0, 0, 0, 0, 0, 0) >>, out |-> "", val |-> ToString(LongN + 1)],
  [name |-> "plain",     lines |-> << L("write(\"A\")", 0, 0, 0, 0, 2, 0) >>, out |-> "A", val |-> "nil"],
  [name |-> "value",     lines |-> << L("1 + 2", 0, 0, 0, 0, 0, 0) >>, out |-> "", val |-> "3"],
  [name |-> "strLB",     lines |-> << L("write(\"{\")", 1, 0, 0, 0, 2, 0) >>, out |-> "{", val |-> "nil"],
  [name |-> "strRB",     lines |-> << L("write(\"}\")", 0, 1, 0, 0, 2, 0) >>, out |-> "}", val |-> "nil"],
  [name |-> "strLK",     lines |-> << L("write(\"[\")", 0, 0, 1, 0, 2, 0) >>, out |-> "[", val |-> "nil"],
  [name |-> "strRK",     lines |-> << L("write(\"]\")", 0, 0, 0, 1, 2, 0) >>, out |-> "]", val |-> "nil"],
  [name |-> "cmtLB",     lines |-> << L("write(\"B\") ; {", 1, 0, 0, 0, 2, 0) >>, out |-> "B", val |-> "nil"],
  [name |-> "cmtLK",     lines |-> << L("write(\"E\") ; [", 0, 0, 1, 0, 2, 0) >>, out |-> "E", val |-> "nil"],
  [name |-> "cmtQ",      lines |-> << L("write(\"C\") ; \"", 0, 0, 0, 0, 3, 0) >>, out |-> "C", val |-> "nil"],
  [name |-> "escQ",      lines |-> << L("write(\"q\\\"\")", 0, 0, 0, 0, 3, 1) >>, out |-> "q\"", val |-> "nil"],
  [name |-> "block",     lines |-> << L("if true {", 1, 0, 0, 0, 0, 0), L("write(\"D\")", 0, 0, 0, 0, 2, 0), L("}", 0, 1, 0, 0, 0, 0) >>, out |-> "D", val |-> "nil"],
  [name |-> "blockstr",  lines |-> << L("if true {", 1, 0, 0, 0, 0, 0), L("write(\"}\")", 0, 1, 0, 0, 2, 0), L("write(\"F\")", 0, 0, 0, 0, 2, 0), L("}", 0, 1, 0, 0, 0, 0) >>, out |-> "}F", val |-> "nil"],
  [name |-> "array",     lines |-> << L("x = [1,", 0, 0, 1, 0, 0, 0), L("2]", 0, 0, 0, 1, 0, 0) >>, out |-> "", val |-> "[1, 2]"],
  [name |-> "mlstr",     lines |-> << L("write(\"a", 0, 0, 0, 0, 1, 0), L("b\")", 0, 0, 0, 0, 1, 0) >>, out |-> "a\nb", val |-> "nil"],
  [name |-> "mlstrblank", lines |-> << L("write(\"a", 0, 0, 0, 0, 1, 0), L("", 0, 0, 0, 0, 0, 0), L("  ", 0, 0, 0, 0, 0, 0), L("b\")", 0, 0, 0, 0, 1, 0) >>, out |-> "a\n\n  \nb", val |-> "nil"],
  [name |-> "arrayblank", lines |-> << L("y = [1,", 0, 0, 1, 0, 0, 0), L("", 0, 0, 0, 0, 0, 0), L("2]", 0, 0, 0, 1, 0, 0) >>, out |-> "", val |-> "[1, 2]"],
  [name |-> "blockblank", lines |-> << L("if true {", 1, 0, 0, 0, 0, 0), L("", 0, 0, 0, 0, 0, 0), L("write(\"G\")", 0, 0, 0, 0, 2, 0), L("", 0, 0, 0, 0, 0, 0), L("}", 0, 1, 0, 0, 0, 0) >>, out |-> "G", val |-> "nil"],
  [name |-> "blockmlstr", lines |-> << L("if true {", 1, 0, 0, 0, 0, 0), L("write(\"p", 0, 0, 0, 0, 1, 0), L("q\")", 0, 0, 0, 0, 1, 0), L("}", 0, 1, 0, 0, 0, 0) >>, out |-> "p\nq", val |-> "nil"],
  [name |-> "arraymlstr", lines |-> << L("write([\"one", 0, 0, 1, 0, 1, 0), L("two\", 1][0])", 0, 0, 1, 2, 1, 0) >>, out |-> "one\ntwo", val |-> "nil"],
  [name |-> "ifelseFa",  lines |-> << L("if 1 > 2 write(\"T\") else od = 5", 0, 0, 0, 0, 2, 0) >>, out |-> "", val |-> "5"],
  [name |-> "ifelseTa",  lines |-> << L("if 2 > 1 write(\"T\") else od = 5", 0, 0, 0, 0, 2, 0) >>, out |-> "T", val |-> "nil"],
  [name |-> "ifelseFw",  lines |-> << L("if 1 > 2 oe = 6 else write(\"U\")", 0, 0, 0, 0, 2, 0) >>, out |-> "U", val |-> "nil"],
  [name |-> "ifelseTw",  lines |-> << L("if 2 > 1 oe = 6 else write(\"U\")", 0, 0, 0, 0, 2, 0) >>, out |-> "", val |-> "6"],
  [name |-> "ifelseFl",  lines |-> << L("if 1 > 2 3 + 4 else 8", 0, 0, 0, 0, 0, 0) >>, out |-> "", val |-> "8"],
  [name |-> "ifelseTl",  lines |-> << L("if 2 > 1 9 else [1, 2][0]", 0, 0, 2, 2, 0, 0) >>, out |-> "", val |-> "9"],
  [name |-> "blank",     lines |-> << L("", 0, 0, 0, 0, 0, 0) >>, out |-> "", val |-> ""],
  [name |-> "comment",   lines |-> << L("; just a note", 0, 0, 0, 0, 0, 0) >>, out |-> "", val |-> ""],
  [name |-> "semi",      lines |-> << L("write(\";\")", 0, 0, 0, 0, 2, 0) >>, out |-> ";", val |-> "nil"]
>>
NS == Len(Shapes)
RECURSIVE Scripts(_)
Scripts(n) == IF n = 0 THEN {<<>>} ELSE Scripts(n - 1) \cup {Append(s, i) : s \in {t \in Scripts(n - 1) : Len(t) = n - 1}, i \in 1..NS}
RECURSIVE Flat(_)
Flat(s) == IF Len(s) = 0 THEN <<>> ELSE Shapes[s[1]].lines \o Flat(Tail(s))
\* documented grouping: statement boundaries are the ends of the shapes (indices of their last lines)
RECURSIVE Ends(_, _)
Ends(s, base) == IF Len(s) = 0 THEN <<>> ELSE <<base + Len(Shapes[s[1]].lines)>> \o Ends(Tail(s), base + Len(Shapes[s[1]].lines))
\* as coded: counters over raw characters; a group closes when all are balanced
RECURSIVE ImplEnds(_, _, _, _, _)
ImplEnds(ls, i, b, q, k) ==
  IF i > Len(ls) THEN <<>>
  ELSE LET l == ls[i]
           b2 == b + l.lb - l.rb  q2 == q + l.q - l.eq  k2 == k + l.lk - l.rk
       IN IF b2 = 0 /\ q2 % 2 = 0 /\ k2 = 0 THEN <<i>> \o ImplEnds(ls, i + 1, 0, q2, 0)
          ELSE ImplEnds(ls, i + 1, b2, q2, k2)
RawCountsAgree(s) == ImplEnds(Flat(s), 1, 0, 0, 0) = Ends(s, 0)
RECURSIVE Cat(_)
Cat(ss) == IF Len(ss) = 0 THEN "" ELSE ss[1] \o Cat(Tail(ss))
FileOut(s) == Cat([i \in 1..Len(s) |-> Shapes[s[i]].out])
ReplOut(s) == Cat([i \in 1..Len(s) |-> Shapes[s[i]].out \o (IF Shapes[s[i]].val = "" THEN "" ELSE "> " \o Shapes[s[i]].val \o "\n")])
VARIABLES sc, done
vars == <<sc, done>>
Init == sc \in {s \in (Scripts(MaxStmts) \ {<<>>}) : ~OnlyLong \/ \E i \in 1..Len(s) : s[i] \in {1, 2}} /\ done = FALSE
Next == /\ ~done /\ done' = TRUE /\ UNCHANGED sc
        /\ PrintT("OBS " \o ToJson([names |-> [i \in 1..Len(sc) |-> Shapes[sc[i]].name],
                                    lines |-> [i \in 1..Len(Flat(sc)) |-> Flat(sc)[i].txt],
                                    file |-> FileOut(sc), repl |-> ReplOut(sc), rawcounts |-> RawCountsAgree(sc)]))
Spec == Init /\ [][Next]_vars
\* sanity of the documented grouping: every statement ends exactly once, in order, and the last line ends the last one
EndsSane == LET e == Ends(sc, 0) IN Len(e) = Len(sc) /\ (\A i \in 1..(Len(e) - 1) : e[i] < e[i + 1]) /\ e[Len(e)] = Len(Flat(sc))
=============================================================================
