------------------------------- MODULE CalcVM -------------------------------
(* The intended virtual machine: instruction semantics of vm.go over frame objects, *)
(* a context tree for generators and a temp register that is saved across yields.   *)
(* It executes the bytecode emitted by the REAL compiler (read from ProgramsFile),   *)
(* statement by statement, and reports value / output / error / residue: comparing  *)
(* its observations with CalcSem's is translation validation of the compiler.  If a *)
(* program carries the per-instruction trace recorded from the real VM (ip, sp,     *)
(* frames, closures, and signatures of the temp register and of the stack top), each *)
(* step must be exactly the recorded one, the temp register must hold the specified  *)
(* value whenever an instruction reads it and a stack operand must be the specified  *)
(* value whenever an instruction pops one (VMDIVERGE names the first instruction     *)
(* where the real machine cannot be followed, and in which respect).                 *)
EXTENDS CalcValues, TLC, Json
CONSTANTS ProgramsFile, MaxSteps
Programs == ndJsonDeserialize(ProgramsFile)

VARIABLES pi, si, ctxs, cur, heap, globals, out, tmp, obs, status, stepno, tk
vars == <<pi, si, ctxs, cur, heap, globals, out, tmp, obs, status, stepno, tk>>
View == <<pi, stepno>>

Code == Programs[pi].code
DS == Programs[pi].ds
Entries == Programs[pi].entries
Last(s) == s[Len(s)]
Front(s) == SubSeq(s, 1, Len(s) - 1)
EndOf(k) == IF k < Len(Entries) THEN Entries[k + 1] ELSE Len(Code)     \* code length while statement k runs
StartOf(k) == IF k = 1 THEN 0 ELSE Entries[k]                          \* the first Run also executes the built-in definitions

NewCtx(parent) == [ip |-> 0, ops |-> <<>>, frames |-> <<>>, clos |-> <<>>, parent |-> parent, kids |-> <<>>, alive |-> TRUE, tmp |-> Nil]
Init == /\ pi \in 1..Len(Programs)
        /\ si = 1
        /\ ctxs = << [NewCtx(0) EXCEPT !.ip = 0] >> /\ cur = 1
        /\ heap = <<>> /\ globals = <<>> /\ out = <<>> /\ tmp = Nil /\ obs = <<>>
        /\ status = IF Len(Entries) = 0 THEN "done" ELSE "run"
        /\ stepno = 0 /\ tk = 0

C == ctxs[cur]
Ins == Code[C.ip + 1]
Const(d) == IF d.k = "fn" THEN [k |-> "fn", entry |-> d.entry, params |-> d.params, locals |-> d.locals, fr |-> 0]
            ELSE IF d.k = "str" THEN StrV(d.v) ELSE d
TopFrame(c) == Last(c.frames)

\* machine state record threaded through the step function
M == [ctxs |-> ctxs, cur |-> cur, heap |-> heap, globals |-> globals, out |-> out, tmp |-> tmp]
Go(m) == [m |-> m]
Stuck(why) == [stuck |-> why]
RaiseR(cls, alt) == [raise |-> cls, alt |-> alt]
FromErr(r) == IF r.err = "unspec" THEN [unspec |-> TRUE] ELSE RaiseR(r.err, IF "alt" \in DOMAIN r THEN r.alt ELSE r.err)

\* fetch an operand: returns [v, m] (stack operands are popped) or [stuck]
Fetch(m, kind, addr) ==
  LET c == m.ctxs[m.cur] IN
  CASE kind = "stck" -> IF Len(c.ops) = 0 THEN [stuck |-> "operand stack underflow"]
                        ELSE [v |-> Last(c.ops), m |-> [m EXCEPT !.ctxs[m.cur].ops = Front(@)]]
    [] kind = "ds" -> [v |-> Const(DS[addr + 1]), m |-> m]
    [] kind = "lcl" -> IF Len(c.frames) = 0 THEN [stuck |-> "local without frame"]
                       ELSE [v |-> m.heap[TopFrame(c).fid][addr + 1], m |-> m]
    [] kind = "cls" -> IF Len(c.clos) = 0 \/ Last(c.clos) = 0 \/ addr + 1 > Len(m.heap[Last(c.clos)])
                       THEN [stuck |-> "closure variable without captured frame"]
                       ELSE [v |-> m.heap[Last(c.clos)][addr + 1], m |-> m]
    [] kind = "gbl" -> LET nm == DS[addr + 1].s IN [v |-> IF nm \in DOMAIN m.globals THEN m.globals[nm] ELSE Nil, m |-> m]
    [] OTHER -> [stuck |-> "operand source " \o kind]
Push(m, v) == [m EXCEPT !.ctxs[m.cur].ops = Append(@, v)]
Adv(m) == [m EXCEPT !.ctxs[m.cur].ip = @ + 1]
Jump(m, off) == [m EXCEPT !.ctxs[m.cur].ip = @ + off]

BinName(op) == CASE op = "ADD" -> "+" [] op = "SUB" -> "-" [] op = "MUL" -> "*" [] op = "DIV" -> "/" [] op = "MOD" -> "%"
                 [] op = "AND" -> "&" [] op = "OR" -> "|" [] op = "LT" -> "<" [] op = "GT" -> ">" [] op = "LE" -> "<="
                 [] op = "GE" -> ">=" [] op = "EQ" -> "==" [] op = "NE" -> "!=" [] op = "LSH" -> "<<" [] op = "RSH" -> ">>"
UnName(op) == CASE op = "NOT" -> "!" [] op = "FLIP" -> "~" [] op = "LEN" -> "#"
BinOps == {"ADD", "SUB", "MUL", "DIV", "MOD", "AND", "OR", "LT", "GT", "LE", "GE", "EQ", "NE", "LSH", "RSH"}
UnOps == {"NOT", "FLIP", "LEN"}

Key(c, id) == <<Len(c.frames), id>>
KidOf(c, key) == LET hits == {i \in 1..Len(c.kids) : c.kids[i].key = key} IN
                 IF hits = {} THEN 0 ELSE c.kids[CHOOSE i \in hits : \A j \in hits : j <= i].ctx
RECURSIVE Descendants(_, _)
Descendants(cs, ids) == LET more == {i \in 1..Len(cs) : cs[i].parent \in ids} \ ids IN
                        IF more = {} THEN ids ELSE Descendants(cs, ids \cup more)
\* delete the children of context cid registered under ids lo..hi at the current call depth
DeleteKids(m, cid, lo, hi) ==
  LET c == m.ctxs[cid]
      keys == {Key(c, i) : i \in lo..hi}
      gone == {c.kids[i].ctx : i \in {j \in 1..Len(c.kids) : c.kids[j].key \in keys}}
      dead == Descendants(m.ctxs, gone)
      keep == SelectSeq(c.kids, LAMBDA k : k.key \notin keys)
  IN [m EXCEPT !.ctxs = [i \in 1..Len(m.ctxs) |-> IF i \in dead THEN [m.ctxs[i] EXCEPT !.alive = FALSE]
                                                   ELSE IF i = cid THEN [m.ctxs[i] EXCEPT !.kids = keep] ELSE m.ctxs[i]]]

\* function values leaving an activation take a private copy of the frame they captured (deep)
RECURSIVE Detach(_, _)
Detach(v, h) ==   \* returns <<value', heap'>>
  IF v.k = "fn" /\ v.fr # 0 THEN << [v EXCEPT !.fr = Len(h) + 1], Append(h, h[v.fr]) >>
  ELSE IF v.k = "arr" THEN
       LET RECURSIVE Walk(_, _, _)
           Walk(i, acc, hh) == IF i > Len(v.v) THEN << [v EXCEPT !.v = acc], hh >>
                               ELSE LET r == Detach(v.v[i], hh) IN Walk(i + 1, Append(acc, r[1]), r[2])
       IN Walk(1, <<>>, h)
  ELSE << v, h >>

StepFn(m) ==
  LET c == m.ctxs[m.cur]  i == Code[c.ip + 1]  op == i.op IN
  IF op \in BinOps /\ ~i.t THEN
       LET f0 == Fetch(m, i.k0, i.a0) IN IF "stuck" \in DOMAIN f0 THEN f0 ELSE
       LET f1 == Fetch(f0.m, i.k1, i.a1) IN IF "stuck" \in DOMAIN f1 THEN f1 ELSE
       LET r == BinApply(BinName(op), f1.v, f0.v) IN
       IF IsErr(r) THEN FromErr(r) ELSE Go(Adv(Push(f1.m, r.val)))
  ELSE IF op \in BinOps /\ i.t THEN
       LET f0 == Fetch(m, i.k0, i.a0) IN IF "stuck" \in DOMAIN f0 THEN f0 ELSE
       LET r == BinApply(BinName(op), m.tmp, f0.v) IN
       IF IsErr(r) THEN FromErr(r) ELSE Go(Adv([f0.m EXCEPT !.tmp = r.val]))
  ELSE IF op \in UnOps /\ ~i.t THEN
       LET f0 == Fetch(m, i.k0, i.a0) IN IF "stuck" \in DOMAIN f0 THEN f0 ELSE
       LET r == UnApply(UnName(op), f0.v) IN IF IsErr(r) THEN FromErr(r) ELSE Go(Adv(Push(f0.m, r.val)))
  ELSE IF op \in UnOps /\ i.t THEN
       LET r == UnApply(UnName(op), m.tmp) IN IF IsErr(r) THEN FromErr(r) ELSE Go(Adv([m EXCEPT !.tmp = r.val]))
  ELSE CASE op = "PUSH" /\ ~i.t -> LET f0 == Fetch(m, i.k0, i.a0) IN IF "stuck" \in DOMAIN f0 THEN f0 ELSE Go(Adv(Push(f0.m, f0.v)))
    [] op = "PUSH" /\ i.t -> Go(Adv(Push(m, m.tmp)))
    [] op = "POP" -> IF Len(c.ops) = 0 THEN Stuck("pop of empty stack") ELSE Go(Adv([m EXCEPT !.ctxs[m.cur].ops = Front(@)]))
    [] op \in {"MOV", "INC"} ->
         LET f0 == IF op = "MOV" /\ i.k0 = "tmp" THEN [v |-> m.tmp, m |-> m] ELSE Fetch(m, i.k0, i.a0) IN
         IF "stuck" \in DOMAIN f0 THEN f0 ELSE
         LET r == IF op = "INC" THEN Arith("+", f0.v, IntV(1)) ELSE Ok(f0.v)
             dk == IF op = "INC" THEN i.k0 ELSE i.k1
             da == IF op = "INC" THEN i.a0 ELSE i.a1 IN
         IF IsErr(r) THEN FromErr(r)
         ELSE IF r.val.k = "nil" THEN RaiseR("nil", "nil")
         ELSE CASE dk = "lcl" -> Go(Adv([f0.m EXCEPT !.heap[TopFrame(c).fid][da + 1] = r.val]))
                [] dk = "gbl" -> Go(Adv([f0.m EXCEPT !.globals = (DS[da + 1].s :> r.val) @@ @]))
                [] dk = "tmp" -> Go(Adv([f0.m EXCEPT !.tmp = r.val]))
                [] OTHER -> Stuck("destination " \o dk)
    [] op = "JMP" -> Go(Jump(m, i.a0))
    [] op \in {"JMPF", "JMPT"} ->
         LET f0 == Fetch(m, i.k0, i.a0) IN IF "stuck" \in DOMAIN f0 THEN f0 ELSE
         IF f0.v.k # "bool" THEN RaiseR("type", IF f0.v.k = "nil" THEN "nil" ELSE "type")
         ELSE IF (op = "JMPF") = (~f0.v.v) THEN Go(Jump(f0.m, i.a1)) ELSE Go(Adv(f0.m))
    [] op = "IX1" ->
         LET f0 == Fetch(m, i.k0, i.a0) IN IF "stuck" \in DOMAIN f0 THEN f0 ELSE
         LET f1 == Fetch(f0.m, i.k1, i.a1) IN IF "stuck" \in DOMAIN f1 THEN f1 ELSE
         LET r == Index1(f1.v, f0.v) IN IF IsErr(r) THEN FromErr(r) ELSE Go(Adv(Push(f1.m, r.val)))
    [] op = "IX2" ->
         LET f0 == Fetch(m, i.k0, i.a0) IN IF "stuck" \in DOMAIN f0 THEN f0 ELSE
         LET f1 == Fetch(f0.m, i.k1, i.a1) IN IF "stuck" \in DOMAIN f1 THEN f1 ELSE
         LET f2 == Fetch(f1.m, i.k2, i.a2) IN IF "stuck" \in DOMAIN f2 THEN f2 ELSE
         LET r == Index2(f2.v, f1.v, f0.v) IN IF IsErr(r) THEN FromErr(r) ELSE Go(Adv(Push(f2.m, r.val)))
    [] op = "ARR" ->
         LET f0 == Fetch(m, i.k0, i.a0) IN IF "stuck" \in DOMAIN f0 THEN f0 ELSE
         LET f1 == Fetch(f0.m, i.k1, i.a1) IN IF "stuck" \in DOMAIN f1 THEN f1 ELSE
         IF f1.v.k # "arr" THEN Stuck("ARR on a non array")
         ELSE IF f0.v.k = "nil" THEN [unspec |-> TRUE]
         ELSE Go(Adv(Push(f1.m, ArrV(Append(f1.v.v, f0.v)))))
    [] op = "FUNC" ->
         LET f0 == Fetch(m, i.k0, i.a0) IN IF "stuck" \in DOMAIN f0 THEN f0 ELSE
         Go(Adv(Push(f0.m, [f0.v EXCEPT !.fr = IF Len(c.frames) = 0 THEN 0 ELSE TopFrame(c).fid])))
    [] op = "CALL" ->
         LET f0 == Fetch(m, i.k0, i.a0) IN IF "stuck" \in DOMAIN f0 THEN f0 ELSE
         LET fv == f0.v  n == i.a1  c0 == f0.m.ctxs[m.cur] IN
         IF fv.k # "fn" THEN RaiseR("type", IF fv.k = "nil" THEN "nil" ELSE "type")
         ELSE IF fv.params # n THEN RaiseR("arity", "arity")
         ELSE IF Len(c0.ops) < n THEN Stuck("arguments missing")
         ELSE LET args == SubSeq(c0.ops, Len(c0.ops) - n + 1, Len(c0.ops))
                  slots == [j \in 1..fv.locals |-> IF j <= n THEN args[j] ELSE Nil]
                  fid == Len(f0.m.heap) + 1
                  c1 == [c0 EXCEPT !.ops = SubSeq(c0.ops, 1, Len(c0.ops) - n),
                                   !.frames = Append(@, [fid |-> fid, base |-> Len(c0.ops) - n, ret |-> c0.ip, locals |-> fv.locals]),
                                   !.clos = Append(@, fv.fr), !.ip = fv.entry]
              IN Go([f0.m EXCEPT !.heap = Append(@, slots), !.ctxs[m.cur] = c1])
    [] op = "RET" ->
         LET f0 == Fetch(m, i.k0, i.a0) IN IF "stuck" \in DOMAIN f0 THEN f0 ELSE
         LET d == Detach(f0.v, f0.m.heap)  c0 == f0.m.ctxs[m.cur] IN
         IF Len(c0.frames) = 0 THEN
              Go([f0.m EXCEPT !.heap = d[2], !.ctxs[m.cur] = [c0 EXCEPT !.ops = <<d[1]>>, !.ip = EndOf(si)]])
         ELSE LET fr == TopFrame(c0) IN
              Go([f0.m EXCEPT !.heap = d[2],
                              !.ctxs[m.cur] = [c0 EXCEPT !.ops = Append(SubSeq(c0.ops, 1, fr.base), d[1]),
                                                         !.frames = Front(@), !.clos = Front(@), !.ip = fr.ret + 1]])
    [] op = "CCONT" ->
         LET kid == Len(m.ctxs) + 1
             hasF == Len(c.frames) > 0
             fr == IF hasF THEN TopFrame(c) ELSE [fid |-> 0, base |-> 0, ret |-> 0, locals |-> 0]
             nfid == Len(m.heap) + 1
             child == [NewCtx(m.cur) EXCEPT !.ip = c.ip + 1,
                                            !.ops = IF hasF THEN SubSeq(c.ops, fr.base + 1, Len(c.ops)) ELSE <<>>,
                                            !.frames = IF hasF THEN << [fr EXCEPT !.fid = nfid, !.base = 0] >> ELSE <<>>,
                                            !.clos = c.clos]
             par == [c EXCEPT !.ip = c.ip + i.a0 - 1, !.kids = Append(@, [key |-> Key(c, i.a1), ctx |-> kid])]
         IN Go([m EXCEPT !.ctxs = Append([@ EXCEPT ![m.cur] = par], child), !.cur = kid,
                         !.heap = IF hasF THEN Append(@, @[fr.fid]) ELSE @])
    [] op = "YIELD" ->
         LET f0 == Fetch(m, i.k0, i.a0) IN IF "stuck" \in DOMAIN f0 THEN f0 ELSE
         IF c.parent = 0 THEN Go(Adv([f0.m EXCEPT !.tmp = f0.v]))
         ELSE LET me == [f0.m.ctxs[m.cur] EXCEPT !.tmp = f0.v]       \* resumes at ip + 1 with its own tmp
                  m1 == [f0.m EXCEPT !.ctxs[m.cur] = [me EXCEPT !.ip = @ + 1], !.cur = c.parent, !.tmp = f0.v]
              IN Go(Adv(Push(m1, f0.v)))       \* the parent continues after the instruction it was parked on
    [] op = "SCONT" ->
         LET kid == KidOf(c, Key(c, i.a0)) IN
         IF kid = 0 THEN Stuck("context not found")
         ELSE Go([m EXCEPT !.cur = kid, !.tmp = m.ctxs[kid].tmp])    \* parent stays parked on SCONT
    [] op = "DCONT" ->
         LET target == IF c.parent # 0 THEN c.parent ELSE m.cur
             m1 == [m EXCEPT !.ctxs[target].ip = c.ip + 1, !.cur = target] IN   \* the parent carries on after DCONT, on its own memory
         Go(DeleteKids(m1, target, i.a0, i.a1))
    [] op = "RCONT" -> Go(Adv(DeleteKids(m, m.cur, i.a0, i.a1)))
    [] op = "WRITE" ->
         LET f0 == Fetch(m, i.k0, i.a0) IN IF "stuck" \in DOMAIN f0 THEN f0 ELSE
         LET r == Render(f0.v) IN IF IsErr(r) THEN [unspec |-> TRUE] ELSE Go(Adv(Push([f0.m EXCEPT !.out = @ \o r.val], Nil)))
    [] op = "TOA" ->
         LET f0 == Fetch(m, i.k0, i.a0) IN IF "stuck" \in DOMAIN f0 THEN f0 ELSE
         LET r == Render(f0.v) IN IF IsErr(r) THEN [unspec |-> TRUE] ELSE Go(Adv(Push(f0.m, StrV(r.val))))
    [] op = "ATON" ->
         LET f0 == Fetch(m, i.k0, i.a0) IN IF "stuck" \in DOMAIN f0 THEN f0 ELSE
         LET r == Aton(f0.v) IN IF IsErr(r) THEN FromErr(r) ELSE Go(Adv(Push(f0.m, r.val)))
    [] op = "READ" -> RaiseR("read", "read")
    [] OTHER -> Stuck("opcode " \o op)

\* value signatures, as the harness computes them for the recorded events (valSig in common.go)
RECURSIVE JoinS(_)
JoinS(cs) == IF Len(cs) = 0 THEN "" ELSE cs[1] \o JoinS(Tail(cs))
Sig(v) == CASE v.k = "nil" -> "n" [] v.k = "int" -> "i" \o ToString(v.v) [] v.k = "bigint" -> "i" \o JoinS(v.txt)
            [] v.k = "bool" -> (IF v.v THEN "bt" ELSE "bf") [] v.k = "str" -> "s" \o ToString(Len(v.v))
            [] v.k = "arr" -> "a" \o ToString(Len(v.v)) [] v.k = "fn" -> "f" [] OTHER -> "x"
\* instructions that read the temp register / whose first operand fetch may pop the stack
ReadsTmp(i) == (i.op \in BinOps \cup UnOps /\ i.t) \/ (i.op = "PUSH" /\ i.t) \/ (i.op = "MOV" /\ i.k0 = "tmp")
PopsFirst(i) == /\ i.k0 = "stck"
                /\ \/ i.op \in BinOps
                   \/ (i.op \in UnOps /\ ~i.t) \/ (i.op = "PUSH" /\ ~i.t)
                   \/ i.op \in {"MOV", "INC", "JMPF", "JMPT", "IX1", "IX2", "ARR", "FUNC", "CALL", "RET", "YIELD", "WRITE", "TOA", "ATON"}

\* residue as the real accessors would see it on the main context
SpOf(c) == Len(c.ops) + (IF Len(c.frames) = 0 THEN 0 ELSE
             LET RECURSIVE Sum(_) Sum(j) == IF j = 0 THEN 0 ELSE c.frames[j].locals + 1 + Sum(j - 1) IN Sum(Len(c.frames)))
LiveKids(m) == Cardinality({j \in 2..Len(m.ctxs) : m.ctxs[j].alive})
RECURSIVE Plain(_)
Plain(v) == IF v.k = "fn" THEN [k |-> "fn"]
            ELSE IF v.k = "arr" THEN [k |-> "arr", v |-> [j \in 1..Len(v.v) |-> Plain(v.v[j])]] ELSE v

Set(m) == /\ ctxs' = m.ctxs /\ cur' = m.cur /\ heap' = m.heap /\ globals' = m.globals /\ out' = m.out /\ tmp' = m.tmp
\* after a statement: fresh main context (the real error path resets memory; the normal path must already be clean)
NextStmt(o) ==
  /\ obs' = Append(obs, o) /\ tk' = 0
  /\ IF si < Len(Entries) /\ ~("unspec" \in DOMAIN o)
     THEN /\ si' = si + 1 /\ status' = "run" /\ out' = <<>> /\ cur' = 1
          /\ IF "err" \in DOMAIN o \/ "stuck" \in DOMAIN o
             THEN ctxs' = << [NewCtx(0) EXCEPT !.ip = StartOf(si + 1)] >>
             ELSE ctxs' = [ctxs EXCEPT ![1].ip = StartOf(si + 1), ![1].ops = IF cur = 1 THEN Front(@) ELSE @]
     ELSE /\ si' = si /\ status' = "done" /\ UNCHANGED <<ctxs, cur, out>>
          /\ PrintT("OBS " \o ToJson([id |-> Programs[pi].id, obs |-> Append(obs, o)]))

Step ==
  /\ status = "run" /\ stepno' = stepno + 1 /\ UNCHANGED pi
  /\ IF stepno > MaxSteps THEN NextStmt([unspec |-> TRUE, budget |-> TRUE]) /\ UNCHANGED <<heap, globals, tmp>>
     ELSE IF Entries[si] = -1 THEN NextStmt([perr |-> TRUE]) /\ UNCHANGED <<heap, globals, tmp>>
     ELSE IF C.ip >= EndOf(si) THEN
          \* end of Run: the result is popped from the current memory
          (IF Len(C.ops) = 0 THEN NextStmt([stuck |-> "no result on the stack"])
           ELSE NextStmt([val |-> Plain(Last(C.ops)), out |-> out,
                          sp |-> IF cur = 1 THEN SpOf(C) - 1 ELSE SpOf(ctxs[1]), frames |-> Len(ctxs[1].frames),
                          clos |-> Len(ctxs[1].clos), live |-> LiveKids(M), incur |-> cur]))
          /\ UNCHANGED <<heap, globals, tmp>>
     ELSE LET r == StepFn(M)
              mine == <<C.ip, SpOf(C), Len(C.frames), Len(C.clos)>>
              hasTr == "trace" \in DOMAIN Programs[pi]
              ev == IF hasTr /\ tk + 1 <= Len(Programs[pi].trace[si]) THEN Programs[pi].trace[si][tk + 1] ELSE <<>>
              \* an event is <<ip, sp, frames, closures, signature of the temp register, signature of the stack top>>
              what == IF ~hasTr THEN ""
                      ELSE IF Len(ev) < 4 THEN "trace ended"
                      ELSE IF <<ev[1], ev[2], ev[3], ev[4]>> # mine THEN "state"
                      ELSE IF Len(ev) >= 5 /\ ReadsTmp(Ins) /\ ev[5] # Sig(tmp) THEN "temp register"
                      ELSE IF Len(ev) >= 6 /\ PopsFirst(Ins) /\ Len(C.ops) > 0 /\ ev[6] # Sig(Last(C.ops)) THEN "operand"
                      ELSE ""
              shown == IF what = "temp register" THEN Sig(tmp) ELSE IF what = "operand" THEN Sig(Last(C.ops)) ELSE ""
          IN
          IF what # "" THEN
               /\ PrintT("VMDIVERGE " \o ToJson([id |-> Programs[pi].id, stmt |-> si, step |-> tk + 1, what |-> what, spec |-> mine, specval |-> shown,
                                                 real |-> ev, op |-> Ins.op]))
               /\ status' = "done" /\ UNCHANGED <<si, ctxs, cur, heap, globals, out, tmp, obs, tk>>
          ELSE IF "m" \in DOMAIN r THEN Set(r.m) /\ tk' = tk + 1 /\ UNCHANGED <<si, obs, status>>
          ELSE IF "raise" \in DOMAIN r THEN NextStmt([err |-> r.raise, alt |-> r.alt, out |-> out, ip |-> C.ip]) /\ UNCHANGED <<heap, globals, tmp>>
          ELSE IF "unspec" \in DOMAIN r THEN NextStmt([unspec |-> TRUE]) /\ UNCHANGED <<heap, globals, tmp>>
          ELSE NextStmt([stuck |-> r.stuck, ip |-> C.ip, op |-> Ins.op]) /\ UNCHANGED <<heap, globals, tmp>>
Next == Step
Spec == Init /\ [][Next]_vars
\* the compiler's output keeps the intended machine clean after every normally finished statement
Clean == \A j \in 1..Len(obs) : ("val" \in DOMAIN obs[j]) => (obs[j].sp = 0 /\ obs[j].frames = 0 /\ obs[j].clos = 0 /\ obs[j].live = 0 /\ obs[j].incur = 1)
=============================================================================
