SPECIFICATION Spec
CONSTANT AddrSet = "quick"
INVARIANTS RoundTrip OutOfRangeWraps FunctionRoundTrip TempFlagDistinct
CHECK_DEADLOCK FALSE
