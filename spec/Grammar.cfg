SPECIFICATION Spec
CONSTANT CasesFile = "cases.ndjson"
INVARIANT RoundTripTheorem
CHECK_DEADLOCK FALSE
