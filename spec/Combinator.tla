---------------------------- MODULE Combinator ----------------------------
(* Operational semantics of the parser combinators over a transactional token     *)
(* stream (position + snapshot stack), mirroring combinator.go one to one.        *)
EXTENDS Integers, Sequences, TLC, Json, FiniteSets

\* parser terms
Acc(x) == [c |-> "acc", x |-> x]
OkP == [c |-> "ok"]
And(a, b) == [c |-> "and", a |-> a, b |-> b]
OneOf(ps) == [c |-> "oneof", ps |-> ps]
SeqP(ps) == [c |-> "seq", ps |-> ps]
Cond(g, s) == [g |-> g, s |-> s]
Choose(cs) == [c |-> "choose", cs |-> cs]
AnyP(g, s) == [c |-> "any", g |-> g, s |-> s]
SepBy(a, b) == [c |-> "sepby", a |-> a, b |-> b]
Surr(a, b, cc) == [c |-> "surr", a |-> a, b |-> b, cc |-> cc]
AssertP(p) == [c |-> "assert", p |-> p]
NotP(p) == [c |-> "not", p |-> p]
Drop(p) == [c |-> "drop", p |-> p]
Fmap(f, p) == [c |-> "fmap", f |-> f, p |-> p]

Last(s) == s[Len(s)]
Front(s) == SubSeq(s, 1, Len(s) - 1)
\* state: [pos, snaps]; T: token sequence (strings); result: [ok, nodes, st]
R(ok, nodes, st) == [ok |-> ok, nodes |-> nodes, st |-> st]
Snap(st) == [st EXCEPT !.snaps = Append(@, st.pos)]
Roll(st) == [pos |-> Last(st.snaps), snaps |-> Front(st.snaps)]
Comm(st) == [st EXCEPT !.snaps = Front(@)]
ApplyF(f, nodes) == CASE f = "wrap" -> << <<"(">> \o nodes \o <<")">> >>    \* one node holding the list
                      [] f = "count" -> << Len(nodes) >>
                      [] f = "drop" -> <<>>

RECURSIVE Run(_, _, _)
Run(p, T, st) ==
  CASE p.c = "ok" -> R(TRUE, <<>>, st)
    [] p.c = "acc" ->
         IF st.pos >= Len(T) THEN R(FALSE, <<>>, st)
         ELSE LET st1 == [st EXCEPT !.pos = @ + 1] IN
              IF T[st1.pos] = p.x THEN R(TRUE, <<T[st1.pos]>>, st1) ELSE R(FALSE, <<>>, st1)
    [] p.c = "and" ->
         LET a == Run(p.a, T, st) IN
         IF ~a.ok THEN a
         ELSE LET b == Run(p.b, T, a.st) IN R(b.ok, a.nodes \o b.nodes, b.st)
    [] p.c = "seq" ->          \* Seq is And folded over its arguments
         LET RECURSIVE Go(_, _, _)
             Go(k, acc, s) == IF k > Len(p.ps) THEN R(TRUE, acc, s)
                              ELSE LET r == Run(p.ps[k], T, s) IN IF r.ok THEN Go(k + 1, acc \o r.nodes, r.st) ELSE R(FALSE, acc \o r.nodes, r.st)
         IN Go(1, <<>>, st)
    [] p.c = "oneof" ->
         LET RECURSIVE Try(_, _)
             Try(i, s) == LET r == Run(p.ps[i], T, Snap(s)) IN
                          IF r.ok THEN R(TRUE, r.nodes, Comm(r.st))
                          ELSE IF i = Len(p.ps) THEN R(FALSE, <<>>, Roll(r.st))
                          ELSE Try(i + 1, Roll(r.st))
         IN Try(1, st)
    [] p.c = "choose" ->
         LET RECURSIVE Try(_, _)
             Try(i, s) == IF i > Len(p.cs) THEN [ok |-> FALSE, nodes |-> <<>>, st |-> s, panic |-> TRUE]
                          ELSE LET g == Run(p.cs[i].g, T, Snap(s)) IN
                               IF g.ok THEN LET r == Run(p.cs[i].s, T, Comm(g.st)) IN R(r.ok, g.nodes \o r.nodes, r.st)
                               ELSE Try(i + 1, Roll(g.st))
         IN Try(1, st)
    [] p.c = "any" ->
         LET RECURSIVE Loop(_, _)
             Loop(acc, s) == LET g == Run(p.g, T, Snap(s)) IN
                             IF ~g.ok THEN R(TRUE, acc, Roll(g.st))
                             ELSE LET r == Run(p.s, T, Comm(g.st)) IN
                                  IF ~r.ok THEN R(FALSE, acc \o g.nodes \o r.nodes, r.st)
                                  ELSE Loop(acc \o g.nodes \o r.nodes, r.st)
         IN Loop(<<>>, st)
    [] p.c = "sepby" ->
         LET a0 == Run(p.a, T, Snap(st)) IN
         IF ~a0.ok THEN R(TRUE, <<>>, Roll(a0.st))
         ELSE LET RECURSIVE Loop(_, _)
                  Loop(acc, s) == LET b == Run(p.b, T, Snap(s)) IN
                                  IF ~b.ok THEN R(TRUE, acc, Roll(b.st))
                                  ELSE LET a == Run(p.a, T, b.st) IN
                                       IF ~a.ok THEN R(TRUE, acc, Roll(a.st))
                                       ELSE Loop(acc \o a.nodes, Comm(a.st))
              IN Loop(a0.nodes, Comm(a0.st))
    [] p.c = "surr" ->
         LET a == Run(p.a, T, st) IN
         IF ~a.ok THEN R(FALSE, <<>>, a.st)
         ELSE LET b == Run(p.b, T, a.st) IN
              IF ~b.ok THEN R(FALSE, <<>>, b.st)
              ELSE LET cc == Run(p.cc, T, b.st) IN R(cc.ok, b.nodes, cc.st)
    [] p.c = "assert" -> LET r == Run(p.p, T, Snap(st)) IN R(r.ok, <<>>, Roll(r.st))
    [] p.c = "not" -> LET r == Run(p.p, T, st) IN R(~r.ok, <<>>, r.st)
    [] p.c = "drop" -> LET r == Run(p.p, T, st) IN R(r.ok, <<>>, r.st)
    [] p.c = "fmap" -> LET r == Run(p.p, T, st) IN IF r.ok THEN R(TRUE, ApplyF(p.f, r.nodes), r.st) ELSE R(FALSE, <<>>, r.st)

(* Declarative ordered-choice (PEG) recogniser over the token list: [ok, nodes, j] where j is  *)
(* the number of tokens consumed on success.  No snapshot stack, no partial consumption:       *)
(* a failing alternative simply does not count.  Not is only meaningful as a look-ahead        *)
(* (under Assert), which is how the grammar uses it.                                            *)
P(ok, nodes, j) == [ok |-> ok, nodes |-> nodes, j |-> j]
RECURSIVE Peg(_, _, _)
Peg(p, T, i) ==
  CASE p.c = "ok" -> P(TRUE, <<>>, i)
    [] p.c = "acc" -> IF i < Len(T) /\ T[i + 1] = p.x THEN P(TRUE, <<T[i + 1]>>, i + 1) ELSE P(FALSE, <<>>, i)
    [] p.c = "and" -> LET a == Peg(p.a, T, i) IN
                      IF ~a.ok THEN P(FALSE, <<>>, i)
                      ELSE LET b == Peg(p.b, T, a.j) IN IF b.ok THEN P(TRUE, a.nodes \o b.nodes, b.j) ELSE P(FALSE, <<>>, i)
    [] p.c = "seq" -> LET RECURSIVE Go(_, _, _)
                          Go(k, acc, j) == IF k > Len(p.ps) THEN P(TRUE, acc, j)
                                           ELSE LET r == Peg(p.ps[k], T, j) IN IF r.ok THEN Go(k + 1, acc \o r.nodes, r.j) ELSE P(FALSE, <<>>, i)
                      IN Go(1, <<>>, i)
    [] p.c = "oneof" -> LET RECURSIVE Try(_)
                            Try(k) == IF k > Len(p.ps) THEN P(FALSE, <<>>, i)
                                      ELSE LET r == Peg(p.ps[k], T, i) IN IF r.ok THEN r ELSE Try(k + 1)
                        IN Try(1)
    [] p.c = "choose" -> LET RECURSIVE Try(_)
                             Try(k) == IF k > Len(p.cs) THEN [ok |-> FALSE, nodes |-> <<>>, j |-> i, panic |-> TRUE]
                                       ELSE LET g == Peg(p.cs[k].g, T, i) IN
                                            IF ~g.ok THEN Try(k + 1)
                                            ELSE LET r == Peg(p.cs[k].s, T, g.j) IN      \* committed: no later alternative is tried
                                                 IF r.ok THEN P(TRUE, g.nodes \o r.nodes, r.j) ELSE P(FALSE, <<>>, i)
                         IN Try(1)
    [] p.c = "any" -> LET RECURSIVE Loop(_, _)
                          Loop(acc, j) == LET g == Peg(p.g, T, j) IN
                                          IF ~g.ok THEN P(TRUE, acc, j)
                                          ELSE LET r == Peg(p.s, T, g.j) IN
                                               IF ~r.ok THEN P(FALSE, <<>>, i)           \* committed after the gate
                                               ELSE Loop(acc \o g.nodes \o r.nodes, r.j)
                      IN Loop(<<>>, i)
    [] p.c = "sepby" -> LET a0 == Peg(p.a, T, i) IN
                        IF ~a0.ok THEN P(TRUE, <<>>, i)
                        ELSE LET RECURSIVE Loop(_, _)
                                 Loop(acc, j) == LET b == Peg(p.b, T, j) IN
                                                 IF ~b.ok THEN P(TRUE, acc, j)
                                                 ELSE LET a == Peg(p.a, T, b.j) IN
                                                      IF ~a.ok THEN P(TRUE, acc, j) ELSE Loop(acc \o a.nodes, a.j)
                             IN Loop(a0.nodes, a0.j)
    [] p.c = "surr" -> LET a == Peg(p.a, T, i) IN
                       IF ~a.ok THEN P(FALSE, <<>>, i)
                       ELSE LET b == Peg(p.b, T, a.j) IN
                            IF ~b.ok THEN P(FALSE, <<>>, i)
                            ELSE LET cc == Peg(p.cc, T, b.j) IN IF cc.ok THEN P(TRUE, b.nodes, cc.j) ELSE P(FALSE, <<>>, i)
    [] p.c = "assert" -> LET r == Peg(p.p, T, i) IN P(r.ok, <<>>, i)
    [] p.c = "not" -> LET r == Peg(p.p, T, i) IN P(~r.ok, <<>>, i)
    [] p.c = "drop" -> LET r == Peg(p.p, T, i) IN P(r.ok, <<>>, IF r.ok THEN r.j ELSE i)
    [] p.c = "fmap" -> LET r == Peg(p.p, T, i) IN IF r.ok THEN P(TRUE, ApplyF(p.f, r.nodes), r.j) ELSE P(FALSE, <<>>, i)

RECURSIVE Nullable(_)
Nullable(p) ==
  CASE p.c = "ok" -> TRUE [] p.c = "acc" -> FALSE
    [] p.c = "and" -> Nullable(p.a) /\ Nullable(p.b)
    [] p.c = "oneof" -> \E i \in 1..Len(p.ps) : Nullable(p.ps[i])
    [] p.c = "seq" -> \A i \in 1..Len(p.ps) : Nullable(p.ps[i])
    [] p.c = "choose" -> \E i \in 1..Len(p.cs) : Nullable(p.cs[i].g) /\ Nullable(p.cs[i].s)
    [] p.c \in {"any", "sepby", "assert", "not"} -> TRUE
    [] p.c = "surr" -> Nullable(p.a) /\ Nullable(p.b) /\ Nullable(p.cc)
    [] p.c \in {"drop", "fmap"} -> Nullable(p.p)
\* restoring combinators must leave the position untouched when they fail; snapshots must balance
Restoring(p) == p.c \in {"oneof", "assert"}
=============================================================================
