---------------------------- MODULE CalcValues ----------------------------
(* Value domain and operator algebra of calc, as documented (Readme.md), over an     *)
(* exactly representable sub-domain: ints of small magnitude, floats as signed       *)
(* dyadic rationals n/2^e with signed zero plus NaN/+Inf/-Inf, bool, nil, function,  *)
(* strings as sequences of 1-character strings, arrays.  Results are records         *)
(* [val |-> v] or [err |-> class]; class "unspec" means: outside what this model     *)
(* (or the documentation) defines -- never compared against the implementation.      *)
EXTENDS Integers, Sequences, FiniteSets

Nil == [k |-> "nil"]
IntV(i) == [k |-> "int", v |-> i]
BoolV(b) == [k |-> "bool", v |-> b]
StrV(s) == [k |-> "str", v |-> s]
ArrV(s) == [k |-> "arr", v |-> s]
Fl(c, neg, n, e) == [k |-> "float", c |-> c, neg |-> neg, n |-> n, e |-> e]
\* integers beyond the model's arithmetic range (|v| > 2^30) are carried as their decimal text: they can be written,
\* rendered, parsed back and compared with each other; arithmetic on them is Unspecified
BigV(txt) == [k |-> "bigint", txt |-> txt]
\* A finite float outside the exact (dyadic, small) sub-domain is carried opaquely, identified by the bits of the
\* float64 it is (hex text): the specification cannot compute with it, but it knows its identity, so equality between
\* floats and the contract aton(toa(x)) = x are still decided.  Its rendering is an opaque string (OpqS).
OpqF(bits) == [k |-> "float", c |-> "opq", neg |-> FALSE, n |-> 0, e |-> 0, bits |-> bits]
OpqS(bits) == [k |-> "str", v |-> <<>>, of |-> bits]
IsOpqF(v) == v.k = "float" /\ v.c = "opq"
IsOpqS(v) == v.k = "str" /\ "of" \in DOMAIN v
\* A symbolic float (trace mode of CalcSem only): the result of an arithmetic operation this model cannot compute, identified by the
\* operation and its operands (`term`).  Like an opaque float it cannot be computed with; unlike it, its float64 is not known
\* until an observation shows it.
IsSymF(v) == v.k = "float" /\ v.c = "sym"
Opq(v) == IsOpqF(v) \/ IsOpqS(v) \/ IsSymF(v)
NaN == Fl("nan", FALSE, 0, 0)
Inf(neg) == Fl("inf", neg, 0, 0)

Ok(v) == [val |-> v]
Err(c) == [err |-> c]
Unspec == [err |-> "unspec"]
IsErr(r) == "err" \in DOMAIN r

Abs(x) == IF x < 0 THEN -x ELSE x
Max(a, b) == IF a > b THEN a ELSE b
IntLimit == 30000        \* operands beyond this make products leave TLC's 32-bit range
Big(x) == Abs(x) > IntLimit
MaxExp == 12

RECURSIVE Pow2(_)
Pow2(e) == IF e = 0 THEN 1 ELSE 2 * Pow2(e - 1)
RECURSIVE Pow10(_)
Pow10(e) == IF e = 0 THEN 1 ELSE 10 * Pow10(e - 1)
RECURSIVE Pow5(_)
Pow5(e) == IF e = 0 THEN 1 ELSE 5 * Pow5(e - 1)
RECURSIVE Norm(_, _)
Norm(n, e) == IF e > 0 /\ n % 2 = 0 THEN Norm(n \div 2, e - 1) ELSE <<n, e>>
Fin(neg, n, e) == LET ne == Norm(n, e) IN Fl("fin", neg, ne[1], ne[2])
FromInt(i) == Fin(i < 0, Abs(i), 0)
Sgn(f) == IF f.neg THEN -f.n ELSE f.n
IsZeroF(f) == f.c = "fin" /\ f.n = 0

-----------------------------------------------------------------------------
(* IEEE arithmetic, exact on the dyadic sub-domain *)
FAdd(a, b) ==
  IF a.c = "nan" \/ b.c = "nan" THEN Ok(NaN)
  ELSE IF a.c = "inf" /\ b.c = "inf" THEN (IF a.neg = b.neg THEN Ok(a) ELSE Ok(NaN))
  ELSE IF a.c = "inf" THEN Ok(a) ELSE IF b.c = "inf" THEN Ok(b)
  ELSE IF Big(a.n) \/ Big(b.n) \/ a.e > MaxExp \/ b.e > MaxExp THEN Unspec
  ELSE LET E == Max(a.e, b.e)
           num == Sgn(a) * Pow2(E - a.e) + Sgn(b) * Pow2(E - b.e)
       IN IF num = 0 THEN Ok(Fin(a.n = 0 /\ b.n = 0 /\ a.neg /\ b.neg, 0, 0))
          ELSE Ok(Fin(num < 0, Abs(num), E))
FNeg(a) == [a EXCEPT !.neg = ~a.neg]
FMul(a, b) ==
  IF a.c = "nan" \/ b.c = "nan" THEN Ok(NaN)
  ELSE IF a.c = "inf" \/ b.c = "inf" THEN
       (IF IsZeroF(a) \/ IsZeroF(b) THEN Ok(NaN) ELSE Ok(Inf(a.neg # b.neg)))
  ELSE IF Big(a.n) \/ Big(b.n) \/ a.e + b.e > MaxExp THEN Unspec
  ELSE Ok(Fin(a.neg # b.neg, a.n * b.n, a.e + b.e))
RECURSIVE OddPart(_)
OddPart(n) == IF n % 2 = 0 THEN OddPart(n \div 2) ELSE n
RECURSIVE TwoExp(_)
TwoExp(n) == IF n % 2 = 0 THEN 1 + TwoExp(n \div 2) ELSE 0
FDiv(a, b) ==
  IF a.c = "nan" \/ b.c = "nan" THEN Ok(NaN)
  ELSE IF a.c = "inf" /\ b.c = "inf" THEN Ok(NaN)
  ELSE IF a.c = "inf" THEN Ok(Inf(a.neg # b.neg))
  ELSE IF b.c = "inf" THEN Ok(Fin(a.neg # b.neg, 0, 0))
  ELSE IF b.n = 0 THEN (IF a.n = 0 THEN Ok(NaN) ELSE Ok(Inf(a.neg # b.neg)))
  ELSE IF a.n = 0 THEN Ok(Fin(a.neg # b.neg, 0, 0))
  ELSE IF Big(a.n) \/ Big(b.n) \/ a.e > MaxExp \/ b.e > MaxExp THEN Unspec
  ELSE LET N == a.n * Pow2(b.e)  D == b.n * Pow2(a.e)  dodd == OddPart(D)  k == TwoExp(D) IN
       IF N % dodd # 0 \/ k > MaxExp THEN Unspec ELSE Ok(Fin(a.neg # b.neg, N \div dodd, k))
FCmp(a, b) ==   \* "lt" "eq" "gt" or "un" (unordered)
  IF a.c = "nan" \/ b.c = "nan" THEN "un"
  ELSE IF a.c = "inf" /\ b.c = "inf" THEN (IF a.neg = b.neg THEN "eq" ELSE IF a.neg THEN "lt" ELSE "gt")
  ELSE IF a.c = "inf" THEN (IF a.neg THEN "lt" ELSE "gt")
  ELSE IF b.c = "inf" THEN (IF b.neg THEN "gt" ELSE "lt")
  ELSE LET E == Max(a.e, b.e) x == Sgn(a) * Pow2(E - a.e) y == Sgn(b) * Pow2(E - b.e) IN
       IF x < y THEN "lt" ELSE IF x > y THEN "gt" ELSE "eq"

-----------------------------------------------------------------------------
IsNum(v) == v.k \in {"int", "float"}
ToF(v) == IF v.k = "int" THEN FromInt(v.v) ELSE v
TDiv(a, b) == (IF (a < 0) # (b < 0) THEN -1 ELSE 1) * (Abs(a) \div Abs(b))   \* truncating
\* the README names no error class for nil operands: nil error, or type error as an accepted alternative
NilErr == [err |-> "nil", alt |-> "type"]
NilOrType(a, b) == IF a.k = "nil" \/ b.k = "nil" THEN NilErr ELSE Err("type")
NilOrType1(a) == IF a.k = "nil" THEN NilErr ELSE Err("type")

Arith(op, a, b) ==
  IF Opq(a) \/ Opq(b) THEN Unspec ELSE
  IF a.k = "int" /\ b.k = "int" THEN
     IF op = "/" /\ b.v = 0 THEN Err("zerodiv")
     ELSE IF Big(a.v) \/ Big(b.v) THEN Unspec
     ELSE Ok(IntV(CASE op = "+" -> a.v + b.v [] op = "-" -> a.v - b.v
                    [] op = "*" -> a.v * b.v [] op = "/" -> TDiv(a.v, b.v)))
  ELSE IF IsNum(a) /\ IsNum(b) THEN
     (IF (a.k = "int" /\ Big(a.v)) \/ (b.k = "int" /\ Big(b.v)) THEN Unspec
      ELSE LET x == ToF(a) y == ToF(b) IN
      CASE op = "+" -> FAdd(x, y) [] op = "-" -> FAdd(x, FNeg(y))
        [] op = "*" -> FMul(x, y) [] op = "/" -> FDiv(x, y))
  ELSE IF a.k = "str" /\ b.k = "str" THEN (IF op = "+" THEN Ok(StrV(a.v \o b.v)) ELSE Err("type"))
  ELSE IF a.k = "arr" /\ b.k = "arr" THEN (IF op = "+" THEN Ok(ArrV(a.v \o b.v)) ELSE Err("type"))
  ELSE NilOrType(a, b)

Mod(a, b) ==
  IF a.k = "int" /\ b.k = "int" THEN
     (IF b.v = 0 THEN Err("zerodiv") ELSE Ok(IntV(a.v - b.v * TDiv(a.v, b.v))))
  ELSE NilOrType(a, b)

Rel(op, a, b) ==
  IF Opq(a) \/ Opq(b) THEN Unspec ELSE
  IF IsNum(a) /\ IsNum(b) THEN
     LET c == FCmp(ToF(a), ToF(b)) IN
     Ok(BoolV(CASE op = "<" -> c = "lt" [] op = ">" -> c = "gt"
                [] op = "<=" -> c \in {"lt", "eq"} [] op = ">=" -> c \in {"gt", "eq"}))
  ELSE NilOrType(a, b)

RECURSIVE WeakEq(_, _)
WeakEq(a, b) ==      \* [val |-> BOOLEAN] or error; mirrors the documented ==
  IF Opq(a) \/ Opq(b) THEN
       (IF IsSymF(a) \/ IsSymF(b) THEN Unspec
        ELSE IF IsOpqF(a) /\ IsOpqF(b) THEN Ok(a.bits = b.bits)      \* finite floats are equal iff they are the same float64 (zeros are not opaque)
        ELSE IF (IsOpqF(a) /\ b.k \in {"int", "float"}) \/ (IsOpqF(b) /\ a.k \in {"int", "float"}) THEN Ok(FALSE)   \* an opaque float is no exact one
        ELSE Unspec)
  ELSE IF a.k = "bigint" \/ b.k = "bigint" THEN      \* integers beyond the arithmetic range: canonical decimal texts, disjoint from the small ones
       (IF a.k = "bigint" /\ b.k = "bigint" THEN Ok(a.txt = b.txt)
        ELSE IF a.k = "float" \/ b.k = "float" THEN Unspec
        ELSE IF a.k = "nil" \/ b.k = "nil" THEN NilErr
        ELSE Ok(FALSE))
  ELSE IF IsNum(a) /\ IsNum(b) /\ a.k # b.k THEN Ok(FCmp(ToF(a), ToF(b)) = "eq")
  ELSE IF a.k = "arr" /\ b.k = "arr" THEN
       IF Len(a.v) # Len(b.v) THEN Ok(FALSE)
       ELSE LET RECURSIVE Go(_)
                Go(i) == IF i > Len(a.v) THEN Ok(TRUE)
                         ELSE LET r == WeakEq(a.v[i], b.v[i]) IN
                              IF IsErr(r) THEN r ELSE IF ~r.val THEN Ok(FALSE) ELSE Go(i + 1)
            IN Go(1)
  ELSE IF a.k = "fn" /\ b.k = "fn" THEN Ok(FALSE)
  ELSE IF a.k = "nil" \/ b.k = "nil" THEN NilErr
  ELSE IF a.k # b.k THEN Ok(FALSE)
  ELSE IF a.k = "float" THEN Ok(FCmp(a, b) = "eq")
  ELSE Ok(a.v = b.v)
Eq(op, a, b) ==
  LET r == WeakEq(a, b) IN
  IF IsErr(r) THEN r ELSE Ok(BoolV(IF op = "==" THEN r.val ELSE ~r.val))

(* bitwise operators on 16-bit two's complement; agrees with 64-bit for |x| < 2^15 *)
W16 == 65536
ToU(x) == IF x < 0 THEN x + W16 ELSE x
FromU(u) == IF u >= W16 \div 2 THEN u - W16 ELSE u
RECURSIVE BitOp(_, _, _, _)
BitOp(isAnd, a, b, n) ==
  IF n = 0 THEN 0
  ELSE LET x == a % 2 y == b % 2
           bit == IF isAnd THEN x * y ELSE (IF x + y > 0 THEN 1 ELSE 0)
       IN bit + 2 * BitOp(isAnd, a \div 2, b \div 2, n - 1)
Logic(op, a, b) ==    \* op in {"&", "|"}  (&& and || are the same operators)
  IF a.k = "bool" /\ b.k = "bool" THEN Ok(BoolV(IF op = "&" THEN a.v /\ b.v ELSE a.v \/ b.v))
  ELSE IF a.k = "int" /\ b.k = "int" THEN
       (IF Big(a.v) \/ Big(b.v) THEN Unspec
        ELSE Ok(IntV(FromU(BitOp(op = "&", ToU(a.v), ToU(b.v), 16)))))
  ELSE NilOrType(a, b)
Shift(op, a, b) ==    \* op in {"<<", ">>"}
  IF a.k = "int" /\ b.k = "int" THEN
       (IF b.v < 0 \/ b.v > 14 \/ Big(a.v) THEN Unspec
        ELSE IF op = "<<" THEN (IF Abs(a.v) * Pow2(b.v) > IntLimit * 1000 THEN Unspec ELSE Ok(IntV(a.v * Pow2(b.v))))
        ELSE IF a.v < 0 THEN Unspec          \* logical shift of a negative: not documented
        ELSE Ok(IntV(a.v \div Pow2(b.v))))
  ELSE NilOrType(a, b)
Flip(a) == IF a.k = "int" THEN Ok(IntV(-a.v - 1)) ELSE NilOrType1(a)
Not(a) == IF a.k = "bool" THEN Ok(BoolV(~a.v)) ELSE NilOrType1(a)
\* Length, indexing and slicing of a string are documented in terms of its characters; the implementation counts bytes.  The two
\* agree on ASCII text; for a string with any other character the README is silent, so those operations are Unspecified there
\* (concatenation, comparison and rendering are not affected).
AsciiChars == {" ", "!", "\"", "#", "$", "%", "&", "'", "(", ")", "*", "+", ",", "-", ".", "/", "0", "1", "2", "3", "4", "5", "6", "7",
               "8", "9", ":", ";", "<", "=", ">", "?", "@", "A", "B", "C", "D", "E", "F", "G", "H", "I", "J", "K", "L", "M", "N", "O",
               "P", "Q", "R", "S", "T", "U", "V", "W", "X", "Y", "Z", "[", "\\", "]", "^", "_", "`", "a", "b", "c", "d", "e", "f", "g",
               "h", "i", "j", "k", "l", "m", "n", "o", "p", "q", "r", "s", "t", "u", "v", "w", "x", "y", "z", "{", "|", "}", "~", "\n", "\t", "\r"}
AsciiStr(v) == \A i \in 1..Len(v.v) : v.v[i] \in AsciiChars
LenOf(a) == IF IsOpqS(a) \/ (a.k = "str" /\ ~AsciiStr(a)) THEN Unspec ELSE IF a.k \in {"str", "arr"} THEN Ok(IntV(Len(a.v))) ELSE NilOrType1(a)
Neg(a) == Arith("*", IntV(-1), a)        \* unary minus is -1 * x

Index1(a, i) ==
  IF i.k = "bigint" \/ a.k = "bigint" \/ IsOpqS(a) \/ (a.k = "str" /\ ~AsciiStr(a)) THEN Unspec ELSE
  IF i.k = "nil" THEN NilErr ELSE IF i.k # "int" THEN Err("type")
  ELSE IF a.k \notin {"str", "arr"} THEN (IF a.k = "nil" THEN [err |-> "type", alt |-> "nil"] ELSE Err("type"))
  ELSE IF i.v < 0 \/ i.v >= Len(a.v) THEN Err("index")
  ELSE IF a.k = "str" THEN Ok(StrV(<<a.v[i.v + 1]>>)) ELSE Ok(a.v[i.v + 1])
Index2(a, i, j) ==
  IF i.k = "bigint" \/ j.k = "bigint" \/ a.k = "bigint" \/ IsOpqS(a) \/ (a.k = "str" /\ ~AsciiStr(a)) THEN Unspec ELSE
  IF i.k = "nil" THEN NilErr ELSE IF i.k # "int" THEN Err("type")
  ELSE IF j.k = "nil" THEN NilErr ELSE IF j.k # "int" THEN Err("type")
  ELSE IF a.k \notin {"str", "arr"} THEN (IF a.k = "nil" THEN [err |-> "type", alt |-> "nil"] ELSE Err("type"))
  ELSE IF i.v < 0 \/ i.v > Len(a.v) \/ j.v < i.v \/ j.v > Len(a.v) THEN Err("index")
  ELSE Ok([a EXCEPT !.v = SubSeq(a.v, i.v + 1, j.v)])

\* Integers beyond the arithmetic range are decimal texts (canonical: no leading zeros, "-" for negatives).  Order and equality of
\* integers do not depend on how wide the implementation's integers are, so they are decided on the texts; arithmetic stays Unspecified.
DigV(c) == CASE c = "0" -> 0 [] c = "1" -> 1 [] c = "2" -> 2 [] c = "3" -> 3 [] c = "4" -> 4 [] c = "5" -> 5 [] c = "6" -> 6 [] c = "7" -> 7 [] c = "8" -> 8 [] c = "9" -> 9
IntLike(v) == v.k \in {"int", "bigint"}
RECURSIVE NatStrV(_)
NatStrV(n) == IF n < 10 THEN <<CASE n = 0 -> "0" [] n = 1 -> "1" [] n = 2 -> "2" [] n = 3 -> "3" [] n = 4 -> "4" [] n = 5 -> "5" [] n = 6 -> "6" [] n = 7 -> "7" [] n = 8 -> "8" [] n = 9 -> "9">>
              ELSE NatStrV(n \div 10) \o NatStrV(n % 10)
IntTxt(v) == IF v.k = "bigint" THEN v.txt ELSE IF v.v < 0 THEN <<"-">> \o NatStrV(-v.v) ELSE NatStrV(v.v)
NegTxt(t) == t[1] = "-"
RECURSIVE LexCmp(_, _)
LexCmp(x, y) == IF Len(x) = 0 THEN "eq" ELSE IF DigV(x[1]) < DigV(y[1]) THEN "lt" ELSE IF DigV(x[1]) > DigV(y[1]) THEN "gt" ELSE LexCmp(Tail(x), Tail(y))
MagCmp(x, y) == IF Len(x) < Len(y) THEN "lt" ELSE IF Len(x) > Len(y) THEN "gt" ELSE LexCmp(x, y)
TxtCmp(s, t) == IF NegTxt(s) /\ ~NegTxt(t) THEN "lt" ELSE IF ~NegTxt(s) /\ NegTxt(t) THEN "gt" ELSE IF ~NegTxt(s) THEN MagCmp(s, t)
                ELSE LET c == MagCmp(Tail(s), Tail(t)) IN IF c = "lt" THEN "gt" ELSE IF c = "gt" THEN "lt" ELSE "eq"
RECURSIVE BinApply(_, _, _)
BinApply(op, a, b) ==
  IF a.k = "bigint" \/ b.k = "bigint" THEN
     (IF IntLike(a) /\ IntLike(b) THEN
          LET c == TxtCmp(IntTxt(a), IntTxt(b)) IN
          CASE op = "==" -> Ok(BoolV(c = "eq")) [] op = "!=" -> Ok(BoolV(c # "eq"))
            [] op = "<" -> Ok(BoolV(c = "lt")) [] op = ">" -> Ok(BoolV(c = "gt")) [] op = "<=" -> Ok(BoolV(c # "gt")) [] op = ">=" -> Ok(BoolV(c # "lt"))
            [] OTHER -> Unspec
      ELSE IF a.k = "float" \/ b.k = "float" \/ (a.k = "bigint" /\ b.k = "bigint") THEN Unspec
      \* the other operand is no number: the outcome (a type or nil error, or "not equal") is that of any integer in its place
      ELSE IF a.k = "bigint" THEN BinApply(op, IntV(1), b) ELSE BinApply(op, a, IntV(1)))
  ELSE
  CASE op \in {"+", "-", "*", "/"} -> Arith(op, a, b)
    [] op = "%" -> Mod(a, b)
    [] op \in {"<", ">", "<=", ">="} -> Rel(op, a, b)
    [] op \in {"==", "!="} -> Eq(op, a, b)
    [] op \in {"&", "&&"} -> Logic("&", a, b)
    [] op \in {"|", "||"} -> Logic("|", a, b)
    [] op \in {"<<", ">>"} -> Shift(op, a, b)
UnApply(op, a) ==
  IF a.k = "bigint" THEN (IF op = "-" /\ a.txt[1] # "-" THEN Ok(BigV(<<"-">> \o a.txt)) ELSE Unspec) ELSE
  CASE op = "-" -> Neg(a) [] op = "#" -> LenOf(a) [] op = "!" -> Not(a) [] op = "~" -> Flip(a)

-----------------------------------------------------------------------------
(* rendering: toa(v) and what write(v) prints *)
Digits == <<"0", "1", "2", "3", "4", "5", "6", "7", "8", "9">>
RECURSIVE NatStr(_)
NatStr(n) == IF n < 10 THEN <<Digits[n + 1]>> ELSE NatStr(n \div 10) \o <<Digits[(n % 10) + 1]>>
IntStr(i) == IF i < 0 THEN <<"-">> \o NatStr(-i) ELSE NatStr(i)
Chars(s) == s      \* placeholder: literals below are written as tuples already
RECURSIVE PadFrac(_, _)
PadFrac(s, w) == IF Len(s) >= w THEN s ELSE PadFrac(<<"0">> \o s, w)
RECURSIVE StripZeros(_)
StripZeros(s) == IF Len(s) > 0 /\ s[Len(s)] = "0" THEN StripZeros(SubSeq(s, 1, Len(s) - 1)) ELSE s
\* finite float n/2^e, 1e-4 <= |x| < 1e6 or zero: plain decimal, exact expansion
FloatStr(f) ==
  IF f.c \in {"opq", "sym"} THEN Unspec ELSE
  IF f.c = "nan" THEN Ok(<<"N", "a", "N">>)
  ELSE IF f.c = "inf" THEN Ok(IF f.neg THEN <<"-", "I", "n", "f">> ELSE <<"+", "I", "n", "f">>)
  ELSE IF f.n = 0 THEN Ok(IF f.neg THEN <<"-", "0">> ELSE <<"0">>)
  ELSE IF f.e > 9 \/ Big(f.n) THEN Unspec
  ELSE LET ip == f.n \div Pow2(f.e)
           rem == f.n % Pow2(f.e)
           fracDigits == StripZeros(PadFrac(NatStr(rem * Pow5(f.e)), f.e))   \* rem/2^e = rem*5^e / 10^e
           sign == IF f.neg THEN <<"-">> ELSE <<>>
       IN IF ip >= 1000000 THEN Unspec
          ELSE IF ip = 0 /\ f.n * 10000 < Pow2(f.e) THEN Unspec      \* < 1e-4 prints with exponent
          ELSE Ok(sign \o NatStr(ip) \o (IF rem = 0 THEN <<>> ELSE <<".">> \o fracDigits))
RECURSIVE Render(_)
Render(v) ==     \* [val |-> chars] or Unspec
  CASE v.k = "nil" -> Ok(<<"n", "i", "l">>)
    [] v.k = "int" -> Ok(IntStr(v.v))
    [] v.k = "bigint" -> Ok(v.txt)
    [] v.k = "bool" -> Ok(IF v.v THEN <<"t", "r", "u", "e">> ELSE <<"f", "a", "l", "s", "e">>)
    [] v.k = "str" -> (IF IsOpqS(v) THEN Unspec ELSE Ok(v.v))
    [] v.k = "fn" -> Ok(<<"f", "u", "n", "c", "t", "i", "o", "n">>)
    [] v.k = "float" -> FloatStr(v)
    [] v.k = "arr" ->
         LET RECURSIVE Go(_, _)
             Go(i, acc) == IF i > Len(v.v) THEN Ok(acc \o <<"]">>)
                           ELSE LET r == Render(v.v[i]) IN
                                IF IsErr(r) THEN r
                                ELSE Go(i + 1, acc \o (IF i > 1 THEN <<",", " ">> ELSE <<>>) \o r.val)
         IN Go(1, <<"[">>)
Abbrev(chars) == IF Len(chars) > 20 THEN SubSeq(chars, 1, 17) \o <<".", ".", ".">> ELSE chars

(* aton on the documented forms *)
IsDigit(c) == \E i \in 1..10 : Digits[i] = c
DigitVal(c) == (CHOOSE i \in 1..10 : Digits[i] = c) - 1
RECURSIVE NatVal(_)
NatVal(s) == IF Len(s) = 0 THEN 0 ELSE NatVal(SubSeq(s, 1, Len(s) - 1)) * 10 + DigitVal(s[Len(s)])
AllDigits(s) == Len(s) > 0 /\ \A i \in 1..Len(s) : IsDigit(s[i])
\* does the digit string denote a number above 2^30 = 1073741824 (compared as text)?
RECURSIVE LexGreater(_, _, _)
LexGreater(a, b, i) == IF i > Len(a) THEN FALSE ELSE IF DigitVal(a[i]) # DigitVal(b[i]) THEN DigitVal(a[i]) > DigitVal(b[i]) ELSE LexGreater(a, b, i + 1)
TwoPow30 == <<"1", "0", "7", "3", "7", "4", "1", "8", "2", "4">>
RECURSIVE StripLead(_)
StripLead(s) == IF Len(s) > 1 /\ s[1] = "0" THEN StripLead(Tail(s)) ELSE s
IsBigText(body) == LET t == StripLead(body) IN Len(t) > 10 \/ (Len(t) = 10 /\ LexGreater(t, TwoPow30, 1))
NumericLooking(s) == \A i \in 1..Len(s) : IsDigit(s[i]) \/ s[i] \in {".", "+", "-", "e", "E", "x", "X", "p", "P", "_", "i", "n", "f", "I", "N", "a", "A", "F"}
Aton(v) ==
  IF IsOpqS(v) THEN Ok(OpqF(v.of)) ELSE      \* the contract: aton(toa(x)) = x for every finite float
  IF v.k # "str" THEN NilOrType1(v)
  ELSE LET s == v.v
           neg == Len(s) > 0 /\ s[1] = "-"
           body == IF neg THEN SubSeq(s, 2, Len(s)) ELSE s
           dot == {i \in 1..Len(body) : body[i] = "."}
       IN IF AllDigits(body) THEN
             (IF ~IsBigText(body) THEN Ok(IntV(IF neg THEN -NatVal(body) ELSE NatVal(body)))
              ELSE IF Len(body) <= 18 /\ body[1] # "0" THEN Ok(BigV(s))       \* below 10^18 < 2^63: an int, carried as text
              ELSE Unspec)
          ELSE IF Cardinality(dot) = 1 THEN
             LET d == CHOOSE i \in dot : TRUE
                 ip == SubSeq(body, 1, d - 1)  fp == SubSeq(body, d + 1, Len(body)) IN
             IF AllDigits(ip) /\ AllDigits(fp) THEN
                (IF Len(ip) > 4 \/ Len(fp) > 4 THEN Unspec
                 ELSE LET num == NatVal(ip) * Pow10(Len(fp)) + NatVal(fp)      \* value = num / 10^k
                          k == Len(fp)
                      IN IF (num * Pow2(k)) % Pow10(k) # 0 THEN Unspec            \* not dyadic with e <= k
                         ELSE Ok(Fin(neg, (num * Pow2(k)) \div Pow10(k), k)))
             ELSE IF NumericLooking(s) THEN Unspec ELSE Err("conversion")
          ELSE IF Len(s) > 0 /\ NumericLooking(s) THEN Unspec
          ELSE Err("conversion")
=============================================================================
