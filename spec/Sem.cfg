SPECIFICATION Spec
CONSTANT SessionsFile = "sessions.ndjson"
CONSTANT MaxSteps = 60000
VIEW View
INVARIANT NoResidue
CHECK_DEADLOCK FALSE
