SPECIFICATION Spec
CONSTANTS MaxOps = 7
Widths = {1, 130}
Bursts = {129}
Fam = {"stack", "frame", "closure"}
Deep = FALSE
INVARIANT FramesDistinct
CHECK_DEADLOCK FALSE
