SPECIFICATION Spec
CONSTANT AddrSet = "thorough"
INVARIANTS RoundTrip OutOfRangeWraps FunctionRoundTrip TempFlagDistinct
CHECK_DEADLOCK FALSE
