SPECIFICATION Spec
CONSTANTS MaxOps = 5
Widths = {1, 130}
Bursts = {129}
Fam = {"stack", "frame", "global"}
Deep = FALSE
INVARIANT FramesDistinct
CHECK_DEADLOCK FALSE
