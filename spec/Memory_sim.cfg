SPECIFICATION Spec
CONSTANTS MaxOps = 24
Widths = {1, 2, 127, 128, 130, 141, 257, 300, 600}
Bursts = {3, 39, 127, 129, 300}
Fam = {"stack", "frame", "global", "closure", "clone"}
Deep = FALSE
INVARIANT FramesDistinct
CHECK_DEADLOCK FALSE
