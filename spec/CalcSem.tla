------------------------------ MODULE CalcSem ------------------------------
(* Definitional small-step semantics of the calc language over syntax trees.       *)
(* Sessions (sequences of top-level statements) are read from SessionsFile; each   *)
(* session's behaviour is a deterministic line.  Values and operators come from    *)
(* CalcValues.  Two modes: generate (prints OBS lines with the specified            *)
(* observations) and trace (a session carries the observations recorded from the   *)
(* real interpreter in field rec; it is ACCEPTed iff the specification can follow  *)
(* them, else one DIVERGE line names the item, the aspect and both sides).         *)
EXTENDS CalcValues, TLC, Json

CONSTANTS SessionsFile,   \* ndjson, one session per line
          MaxSteps        \* step budget per item; beyond it the item is Unspecified ("budget")
Sessions == ndJsonDeserialize(SessionsFile)

VARIABLES pi,       \* session index
          si,       \* item index
          cors,     \* coroutines of the statement being evaluated
          cur,      \* running coroutine
          heap,     \* activation frames: Seq of functions name -> value
          globals,  \* name -> value
          out,      \* characters written by the current statement
          stdin,    \* unread input lines (each a char seq including its newline)
          obs,      \* observations of finished statements
          status,   \* "run" | "stmtend" | "done" | "diverged"
          stepno,   \* steps of this session so far
          itemstart,\* stepno when the current item began
          peakk     \* deepest continuation of the running coroutine during the current item
vars == <<pi, si, cors, cur, heap, globals, out, stdin, obs, status, stepno, itemstart, peakk>>
View == <<pi, stepno>>

Last(s) == s[Len(s)]
Front(s) == SubSeq(s, 1, Len(s) - 1)
Has(f, n) == n \in DOMAIN f
S(str) == str   \* names are plain TLA+ strings

-----------------------------------------------------------------------------
(* Static scoping: Local if declared so far in the current function, Closure if  *)
(* declared so far in the immediately enclosing function, else global.  A scope   *)
(* is the sequence of the function's names in order of declaration (parameters    *)
(* first): the position of a name is its slot in the activation frame, the length *)
(* of the scope after the body is the number of slots of the function.            *)
RECURSIVE Res(_, _), ResSeq(_, _)
\* returns <<node', scopes'>>; scopes: Seq of Seq of names, <<>> at top level
ResSeq(ns, sc) ==
  IF Len(ns) = 0 THEN << <<>>, sc >>
  ELSE LET h == Res(ns[1], sc)
           t == ResSeq(SubSeq(ns, 2, Len(ns)), h[2])
       IN << <<h[1]>> \o t[1], t[2] >>
InScope(nm, names) == \E i \in 1..Len(names) : names[i] = nm
SlotOf(nm, names) == (CHOOSE i \in 1..Len(names) : names[i] = nm) - 1
Declare(nm, sc) == IF Len(sc) = 0 \/ InScope(nm, sc[Len(sc)]) THEN sc ELSE [sc EXCEPT ![Len(sc)] = Append(@, nm)]
Scope(nm, sc) ==
  IF Len(sc) > 0 /\ InScope(nm, sc[Len(sc)]) THEN "l"
  ELSE IF Len(sc) > 1 /\ InScope(nm, sc[Len(sc) - 1]) THEN "c"
  ELSE "g"
NameNode(nm, sc) == LET k == Scope(nm, sc) IN
  [t |-> "name", n |-> nm, s |-> k, ix |-> IF k = "l" THEN SlotOf(nm, sc[Len(sc)]) ELSE IF k = "c" THEN SlotOf(nm, sc[Len(sc) - 1]) ELSE -1]
\* the target of an assignment or a loop variable, after it has been declared
Target(nm, sc) == IF Len(sc) = 0 THEN [t |-> "name", n |-> nm, s |-> "g", ix |-> -1]
                  ELSE [t |-> "name", n |-> nm, s |-> "l", ix |-> SlotOf(nm, sc[Len(sc)])]
Res(n, sc) ==
  CASE n.t \in {"int", "float", "bool", "str", "bigint"} -> <<n, sc>>
    [] n.t = "name" -> << NameNode(n.n, sc), sc >>
    [] n.t = "list" -> LET r == ResSeq(n.e, sc) IN << [t |-> "list", e |-> r[1]], r[2] >>
    [] n.t = "bin" -> LET l == Res(n.l, sc) r == Res(n.r, l[2]) IN << [t |-> "bin", op |-> n.op, l |-> l[1], r |-> r[1]], r[2] >>
    [] n.t = "un" -> LET x == Res(n.x, sc) IN << [t |-> "un", op |-> n.op, x |-> x[1]], x[2] >>
    [] n.t = "ix1" -> LET a == Res(n.a, sc) i == Res(n.i, a[2]) IN << [t |-> "ix1", a |-> a[1], i |-> i[1]], i[2] >>
    [] n.t = "ix2" -> LET a == Res(n.a, sc) i == Res(n.i, a[2]) j == Res(n.j, i[2]) IN
                      << [t |-> "ix2", a |-> a[1], i |-> i[1], j |-> j[1]], j[2] >>
    [] n.t = "fn" -> LET inner == Append(sc, n.params)
                         b == Res(n.body, inner) IN
                     << [t |-> "fn", params |-> n.params, body |-> b[1], nl |-> Len(b[2][Len(b[2])])], sc >>
    [] n.t = "call" -> LET a == ResSeq(n.args, sc) IN
                       << [t |-> "call", name |-> NameNode(n.name.n, sc), args |-> a[1]], a[2] >>
    [] n.t = "assign" -> LET e == Res(n.e, sc) sc2 == Declare(n.tgt.n, e[2]) IN
                         << [t |-> "assign", tgt |-> Target(n.tgt.n, sc2), e |-> e[1]], sc2 >>
    [] n.t = "if" -> LET c == Res(n.c, sc) th == Res(n.th, c[2]) IN << [t |-> "if", c |-> c[1], th |-> th[1]], th[2] >>
    [] n.t = "ifelse" -> LET c == Res(n.c, sc) th == Res(n.th, c[2]) el == Res(n.el, th[2]) IN
                         << [t |-> "ifelse", c |-> c[1], th |-> th[1], el |-> el[1]], el[2] >>
    [] n.t = "while" -> LET c == Res(n.c, sc) b == Res(n.body, c[2]) IN << [t |-> "while", c |-> c[1], body |-> b[1]], b[2] >>
    [] n.t = "for" ->
         LET its == ResSeq(n.iters, sc)
             RECURSIVE Decl(_, _)
             Decl(i, s) == IF i > Len(n.vars) THEN s ELSE Decl(i + 1, Declare(n.vars[i].n, s))
             sc2 == Decl(1, its[2])
             vs == [i \in 1..Len(n.vars) |-> Target(n.vars[i].n, sc2)]
             b == Res(n.body, sc2)
         IN << [t |-> "for", vars |-> vs, iters |-> its[1], body |-> b[1]], b[2] >>
    [] n.t \in {"ret", "yield"} -> LET e == Res(n.e, sc) IN << [t |-> n.t, e |-> e[1]], e[2] >>
    [] n.t = "block" -> LET r == ResSeq(n.ss, sc) IN << [t |-> "block", ss |-> r[1]], r[2] >>
Resolve(n) == Res(n, <<>>)[1]

-----------------------------------------------------------------------------
(* Built-ins.  write/toa/aton/read/exit are primitive; fromto, elems and indices *)
(* are the calc functions the README gives (elems/indices "in a similar fashion"). *)
Nm(n) == [t |-> "name", n |-> n]
IntN(i) == [t |-> "int", v |-> i]
BinN(op, l, r) == [t |-> "bin", op |-> op, l |-> l, r |-> r]
AsgN(v, e) == [t |-> "assign", tgt |-> Nm(v), e |-> e]
BlkN(ss) == [t |-> "block", ss |-> ss]
WhlN(c, b) == [t |-> "while", c |-> c, body |-> b]
YldN(e) == [t |-> "yield", e |-> e]
FnN(ps, b) == [t |-> "fn", params |-> ps, body |-> b]
FromtoAst == FnN(<<"a", "b">>, WhlN(BinN("<", Nm("a"), Nm("b")), BlkN(<<YldN(Nm("a")), AsgN("a", BinN("+", Nm("a"), IntN(1)))>>)))
LenA == [t |-> "un", op |-> "#", x |-> Nm("a")]
IndicesAst == FnN(<<"a">>, BlkN(<<AsgN("i", IntN(0)),
                 WhlN(BinN("<", Nm("i"), LenA), BlkN(<<YldN(Nm("i")), AsgN("i", BinN("+", Nm("i"), IntN(1)))>>))>>))
ElemsAst == FnN(<<"a">>, BlkN(<<AsgN("i", IntN(0)),
                 WhlN(BinN("<", Nm("i"), LenA), BlkN(<<YldN([t |-> "ix1", a |-> Nm("a"), i |-> Nm("i")]), AsgN("i", BinN("+", Nm("i"), IntN(1)))>>))>>))
FnVal(node, env) == [k |-> "fn", f |-> node, env |-> env, alt |-> 0, b |-> ""]
Prim(name, arity) == [k |-> "fn", f |-> [params |-> [i \in 1..arity |-> "v"]], env |-> 0, alt |-> 0, b |-> name]
InitGlobals ==
  ("read" :> Prim("read", 0)) @@ ("write" :> Prim("write", 1)) @@ ("aton" :> Prim("aton", 1)) @@
  ("toa" :> Prim("toa", 1)) @@ ("exit" :> Prim("exit", 1)) @@
  ("fromto" :> FnVal(Resolve(FromtoAst), 0)) @@ ("indices" :> FnVal(Resolve(IndicesAst), 0)) @@
  ("elems" :> FnVal(Resolve(ElemsAst), 0))

-----------------------------------------------------------------------------
(* Machine state as a record so that the step function is a plain operator. *)
Cor(node, fr, clos, calt, parent, base) ==
  [k |-> <<>>, mode |-> "eval", ctl |-> node, fr |-> fr, clos |-> clos, calt |-> calt,
   parent |-> parent, st |-> "run", base |-> base]
Items == Sessions[pi].items
Lit(n) == CASE n.t = "int" -> IntV(n.v) [] n.t = "bool" -> BoolV(n.v) [] n.t = "str" -> StrV(n.v)
            [] n.t = "float" -> (IF n.v.c = "fin" THEN Fin(n.v.neg, n.v.n, n.v.e) ELSE IF n.v.c = "opq" THEN OpqF(n.v.bits) ELSE Fl(n.v.c, n.v.neg, 0, 0))

StartCors(i) == << Cor(Resolve(Items[i].ast), 0, 0, 0, 0, [name |-> "", fr |-> 0, params |-> <<>>]) >>

Init ==
  /\ pi \in 1..Len(Sessions)
  /\ si = 1
  /\ cors = <<>> /\ cur = 1
  /\ heap = <<>>
  /\ globals = InitGlobals
  /\ out = <<>>
  /\ stdin = Sessions[pi].stdin
  /\ obs = <<>>
  /\ status = "stmtend"      \* first action: BeginItem
  /\ stepno = 0
  /\ itemstart = 0
  /\ peakk = 0

M == [cors |-> cors, cur |-> cur, heap |-> heap, globals |-> globals, out |-> out, stdin |-> stdin]

\* results of a step: [m |-> M'] | [raise |-> cls, alt |-> cls2, op |-> .., args |-> ..] | [unspec |-> TRUE]
Go(m) == [m |-> m]
Raise(cls, alt, op, args) == [raise |-> cls, alt |-> alt, op |-> op, args |-> args]
UnspecR == [unspec |-> TRUE]
FromErr(r, op, args) ==
  IF r.err = "unspec" THEN UnspecR
  ELSE Raise(r.err, IF "alt" \in DOMAIN r THEN r.alt ELSE r.err, op, args)

SetC(m, c) == [m EXCEPT !.cors[m.cur] = c]
PushK(c, f) == [c EXCEPT !.k = Append(@, f)]
PopK(c) == [c EXCEPT !.k = Front(@)]
EvalC(c, n) == [c EXCEPT !.mode = "eval", !.ctl = n]
RetC(c, v) == [c EXCEPT !.mode = "ret", !.ctl = v]
F(t) == [t |-> t]

FrameVar(m, fr, nm) == IF fr # 0 /\ Has(m.heap[fr], nm) THEN m.heap[fr][nm] ELSE Nil
\* lookup; closure reads through an early-snapshotted function are unspecified if the two views differ
Lookup(m, c, n) ==
  IF n.s = "l" THEN [val |-> FrameVar(m, c.fr, n.n)]
  ELSE IF n.s = "c" THEN
       (IF c.calt # 0 /\ FrameVar(m, c.clos, n.n) # FrameVar(m, c.calt, n.n) THEN Unspec
        ELSE [val |-> FrameVar(m, c.clos, n.n)])
  ELSE [val |-> IF Has(m.globals, n.n) THEN m.globals[n.n] ELSE Nil]
SetVar(m, c, tgt, v) ==
  IF tgt.s = "l" THEN [m EXCEPT !.heap[c.fr] = (tgt.n :> v) @@ @]
  ELSE [m EXCEPT !.globals = (tgt.n :> v) @@ @]

\* function values inside v whose env is frame fr get env := nf (deep, through arrays)
RECURSIVE Refreeze(_, _, _), Mentions(_, _)
Mentions(v, fr) == IF v.k = "fn" THEN v.env = fr
                   ELSE IF v.k = "arr" THEN \E i \in 1..Len(v.v) : Mentions(v.v[i], fr) ELSE FALSE
Refreeze(v, fr, nf) == IF v.k = "fn" THEN (IF v.env = fr THEN [v EXCEPT !.env = nf] ELSE v)
                       ELSE IF v.k = "arr" THEN [v EXCEPT !.v = [i \in 1..Len(v.v) |-> Refreeze(v.v[i], fr, nf)]]
                       ELSE v

\* all coroutines whose ancestor chain reaches one of ids
RECURSIVE Desc(_, _)
Desc(cs, ids) ==
  LET more == {i \in 1..Len(cs) : cs[i].parent \in ids} \ ids IN
  IF more = {} THEN ids ELSE Desc(cs, ids \cup more)
Kill(cs, ids) == LET d == Desc(cs, ids) IN [i \in 1..Len(cs) |-> IF i \in d THEN [cs[i] EXCEPT !.st = "done"] ELSE cs[i]]
GensOf(frames) == UNION { {frames[i].gens[j] : j \in 1..Len(frames[i].gens)} : i \in {x \in 1..Len(frames) : frames[x].t = "fork"} }

\* innermost call of coroutine c (for forking): name-as-called and frame
InnerCall(c) ==
  LET idx == {i \in 1..Len(c.k) : c.k[i].t = "fnb"} IN
  IF idx = {} THEN c.base
  ELSE LET mx == CHOOSE i \in idx : \A j \in idx : j <= i IN [name |-> c.k[mx].name, fr |-> c.k[mx].callee, params |-> c.k[mx].params]

\* fork generator j of the for-frame on top of coroutine pid (whose record is p, with fork frame f already on top)
ForkGen(m, pid, p, f, j) ==
  LET n == f.n
      newfr == IF p.fr = 0 THEN 0 ELSE Len(m.heap) + 1
      gid == Len(m.cors) + 1
      ic == InnerCall(p)
      g == [Cor(n.iters[j], newfr, p.clos, p.calt, pid, [name |-> ic.name, fr |-> newfr, params |-> ic.params]) EXCEPT !.k = << F("gendone") >>]
      f2 == [f EXCEPT !.j = j, !.gens = Append(@, gid)]
      p2 == [p EXCEPT !.k = Append(Front(@), f2), !.st = "wait"]
  IN [m EXCEPT !.cors = Append([@ EXCEPT ![pid] = p2], g), !.cur = gid,
               !.heap = IF p.fr = 0 THEN @ ELSE Append(@, @[p.fr])]
ResumeGen(m, pid, p, f, j) ==
  LET f2 == [f EXCEPT !.j = j]
      p2 == [p EXCEPT !.k = Append(Front(@), f2), !.st = "wait"]
      gid == f.gens[j]
  IN [m EXCEPT !.cors = [@ EXCEPT ![pid] = p2, ![gid] = [@ EXCEPT !.st = "run"]], !.cur = gid]

-----------------------------------------------------------------------------
StepEval(m) ==
  LET c == m.cors[m.cur]  n == c.ctl IN
  CASE n.t \in {"int", "float", "bool", "str"} -> Go(SetC(m, RetC(c, Lit(n))))
    [] n.t = "bigint" -> Go(SetC(m, RetC(c, BigV(n.txt))))       \* literal beyond 2^30: carried as its decimal text
    [] n.t = "name" -> LET r == Lookup(m, c, n) IN IF IsErr(r) THEN UnspecR ELSE Go(SetC(m, RetC(c, r.val)))
    [] n.t = "fn" -> Go(SetC(m, RetC(c, FnVal(n, c.fr))))
    [] n.t = "list" -> IF Len(n.e) = 0 THEN Go(SetC(m, RetC(c, ArrV(<<>>))))
                       ELSE Go(SetC(m, EvalC(PushK(c, [t |-> "listk", e |-> n.e, i |-> 1, acc |-> <<>>]), n.e[1])))
    [] n.t = "bin" -> Go(SetC(m, EvalC(PushK(c, [t |-> "binr", op |-> n.op, r |-> n.r]), n.l)))
    [] n.t = "un" -> Go(SetC(m, EvalC(PushK(c, [t |-> "una", op |-> n.op]), n.x)))
    [] n.t = "ix1" -> Go(SetC(m, EvalC(PushK(c, [t |-> "ixk", rest |-> <<n.i>>, acc |-> <<>>]), n.a)))
    [] n.t = "ix2" -> Go(SetC(m, EvalC(PushK(c, [t |-> "ixk", rest |-> <<n.i, n.j>>, acc |-> <<>>]), n.a)))
    [] n.t = "call" -> IF Len(n.args) = 0
                       THEN Go(SetC(m, RetC(PushK(c, [t |-> "callgo", name |-> n.name, args |-> <<>>]), Nil)))
                       ELSE Go(SetC(m, EvalC(PushK(c, [t |-> "callargs", name |-> n.name, args |-> n.args, i |-> 1, acc |-> <<>>]), n.args[1])))
    [] n.t = "assign" -> Go(SetC(m, EvalC(PushK(c, [t |-> "assignk", tgt |-> n.tgt]), n.e)))
    [] n.t = "yield" -> Go(SetC(m, EvalC(PushK(c, F("yieldk")), n.e)))
    [] n.t = "ret" -> Go(SetC(m, EvalC(PushK(c, F("retk")), n.e)))
    [] n.t \in {"if", "ifelse"} -> Go(SetC(m, EvalC(PushK(c, [t |-> "ifk", n |-> n]), n.c)))
    [] n.t = "while" -> Go(SetC(m, EvalC(PushK(c, [t |-> "whilek", n |-> n, ph |-> "test", last |-> Nil]), n.c)))
    [] n.t = "block" -> Go(SetC(m, EvalC(PushK(c, [t |-> "blockk", ss |-> n.ss, i |-> 1]), n.ss[1])))
    [] n.t = "for" ->
         LET f == [t |-> "fork", n |-> n, gens |-> <<>>, j |-> 0, last |-> Nil, first |-> TRUE]
             p == PushK(c, f)
         IN Go(ForkGen([m EXCEPT !.cors[m.cur] = p], m.cur, p, f, 1))

\* a value v was yielded to coroutine pid (the owner of a for loop)
Deliver(m, pid, v) ==
  LET p == m.cors[pid]  f == Last(p.k)  n == f.n IN
  IF v.k = "nil" THEN Raise("nil", "nil", "MOV", <<v>>) @@ [at |-> pid]     \* the loop owner's assignment fails, in the owner's context
  ELSE LET m1 == SetVar(m, p, n.vars[f.j], v) IN
       IF f.j < Len(n.vars) THEN
            (IF f.first THEN Go(ForkGen(m1, pid, p, f, f.j + 1)) ELSE Go(ResumeGen(m1, pid, p, f, f.j + 1)))
       ELSE LET f2 == [f EXCEPT !.j = 0, !.first = FALSE]
                p2 == [p EXCEPT !.k = Append(Front(@), f2), !.st = "run", !.mode = "eval", !.ctl = n.body]
            IN Go([m1 EXCEPT !.cors[pid] = p2, !.cur = pid])

\* primitive built-ins are ordinary functions in the implementation: an error raised inside one is
\* ---- arithmetic the value model cannot compute (an operand or the result lies outside the exact float sub-domain).  In trace mode
\* its result is a *symbolic float*: the application of an operator that is not interpreted but is a function -- the same operation on
\* the same operands gives the same float64 wherever and whenever it is evaluated.  The first observation that shows the value of a
\* symbolic float (a statement whose value it is) is accepted and remembered; from then on the symbolic float stands for that value,
\* so a later statement that must compute the same operations in the same order (`x + 1 - 1` after `t = x + 1`, `t - 1`) is held to it.
TraceRec == IF "rec" \in DOMAIN Sessions[pi] THEN Sessions[pi].rec ELSE <<>>
SymF(op, a, b) == [k |-> "float", c |-> "sym", neg |-> FALSE, n |-> 0, e |-> 0, term |-> <<op, a, b>>]
LearnedAt(t) == {i \in 1..Len(obs) : /\ "val" \in DOMAIN obs[i] /\ IsSymF(obs[i].val) /\ obs[i].val.term = t
                                      /\ i <= Len(TraceRec) /\ TraceRec[i].kind = "val" /\ TraceRec[i].val.k = "float"}
Canon(v) == IF IsSymF(v) /\ LearnedAt(v.term) # {}
            THEN TraceRec[CHOOSE i \in LearnedAt(v.term) : \A j \in LearnedAt(v.term) : i <= j].val ELSE v
BinApplyS(op, a0, b0) ==
  LET a == Canon(a0)  b == Canon(b0)  r == BinApply(op, a, b) IN
  IF Len(TraceRec) > 0 /\ IsErr(r) /\ r.err = "unspec" /\ op \in {"+", "-", "*", "/"}
     /\ a.k \in {"int", "float"} /\ b.k \in {"int", "float"} /\ (a.k = "float" \/ b.k = "float")
  THEN Ok(Canon(SymF(op, a, b))) ELSE r

\* reported with the built-in's own call (name as called, argument) as the innermost frame
InPrim(r, name, args) == IF "raise" \in DOMAIN r THEN r @@ [frame |-> [name |-> name, args |-> args]] ELSE r
CallPrim(m, c1, fv, args, calledAs) ==
  LET b == fv.b IN
  CASE b = "write" -> LET r == Render(args[1]) IN
                      IF IsErr(r) THEN UnspecR ELSE Go(SetC([m EXCEPT !.out = @ \o r.val], RetC(c1, Nil)))
    [] b = "toa" -> IF IsOpqF(Canon(args[1])) THEN Go(SetC(m, RetC(c1, OpqS(Canon(args[1]).bits)))) ELSE
                    LET r == Render(args[1]) IN IF IsErr(r) THEN UnspecR ELSE Go(SetC(m, RetC(c1, StrV(r.val))))
    [] b = "aton" -> LET r == Aton(args[1]) IN
                     IF IsErr(r) THEN InPrim(FromErr(r, "ATON", <<args[1]>>), calledAs, args) ELSE Go(SetC(m, RetC(c1, r.val)))
    [] b = "read" -> IF Len(m.stdin) = 0 THEN InPrim(Raise("read", "read", "READ", <<>>), calledAs, args)
                     ELSE IF Len(Head(m.stdin)) = 0 \/ Last(Head(m.stdin)) # "\n" THEN UnspecR   \* a last line without line break: README silent
                     ELSE Go(SetC([m EXCEPT !.stdin = Tail(@)], RetC(c1, StrV(Head(m.stdin)))))
    [] b = "exit" -> UnspecR

StepRet(m) ==
  LET c == m.cors[m.cur]  v == c.ctl  f == Last(c.k)  c1 == PopK(c) IN
  CASE f.t = "binr" -> Go(SetC(m, EvalC(PushK(c1, [t |-> "bina", op |-> f.op, lv |-> v]), f.r)))
    [] f.t = "bina" -> LET r == BinApplyS(f.op, f.lv, v) IN
                       IF IsErr(r) THEN FromErr(r, f.op, <<f.lv, v>>) ELSE Go(SetC(m, RetC(c1, r.val)))
    [] f.t = "una" -> LET r == IF f.op = "-" /\ v.k # "bigint" THEN BinApplyS("*", IntV(-1), v) ELSE UnApply(f.op, Canon(v)) IN
                      IF IsErr(r) THEN (IF f.op = "-" THEN FromErr(r, "*", <<IntV(-1), v>>) ELSE FromErr(r, f.op, <<v>>))
                      ELSE Go(SetC(m, RetC(c1, r.val)))
    [] f.t = "ixk" ->
         LET acc == Append(f.acc, v) IN
         IF Len(f.rest) > 0 THEN Go(SetC(m, EvalC(PushK(c1, [f EXCEPT !.rest = Tail(@), !.acc = acc]), f.rest[1])))
         ELSE LET r == IF Len(acc) = 2 THEN Index1(acc[1], acc[2]) ELSE Index2(acc[1], acc[2], acc[3]) IN
              IF IsErr(r) THEN FromErr(r, "IX", acc) ELSE Go(SetC(m, RetC(c1, r.val)))
    [] f.t = "listk" ->
         IF v.k = "nil" THEN UnspecR          \* nil inside an array literal: not defined by the README
         ELSE IF f.i < Len(f.e) THEN Go(SetC(m, EvalC(PushK(c1, [f EXCEPT !.i = @ + 1, !.acc = Append(@, v)]), f.e[f.i + 1])))
         ELSE Go(SetC(m, RetC(c1, ArrV(Append(f.acc, v)))))
    [] f.t = "callargs" ->
         IF f.i < Len(f.args) THEN Go(SetC(m, EvalC(PushK(c1, [f EXCEPT !.i = @ + 1, !.acc = Append(@, v)]), f.args[f.i + 1])))
         ELSE Go(SetC(m, RetC(PushK(c1, [t |-> "callgo", name |-> f.name, args |-> Append(f.acc, v)]), Nil)))
    [] f.t = "callgo" ->
         LET lk == Lookup(m, c1, f.name) IN
         IF IsErr(lk) THEN UnspecR
         ELSE LET fv == lk.val IN
         IF fv.k # "fn" THEN Raise("type", IF fv.k = "nil" THEN "nil" ELSE "type", "CALL", <<fv>>)
         ELSE IF Len(fv.f.params) # Len(f.args) THEN Raise("arity", "arity", "CALL", <<fv>>)
         ELSE IF fv.b # "" THEN CallPrim(m, c1, fv, f.args, f.name.n)
         ELSE LET newfr == Len(m.heap) + 1
                  ps == fv.f.params
                  fvars == [nm \in {ps[i] : i \in 1..Len(ps)} |->
                              f.args[CHOOSE i \in 1..Len(ps) : ps[i] = nm /\ \A j \in 1..Len(ps) : ps[j] = nm => j <= i]]
                  c2 == PushK(c1, [t |-> "fnb", fr |-> c1.fr, clos |-> c1.clos, calt |-> c1.calt,
                                   name |-> f.name.n, callee |-> newfr, params |-> ps])
              IN Go(SetC([m EXCEPT !.heap = Append(@, fvars)],
                         [EvalC(c2, fv.f.body) EXCEPT !.fr = newfr, !.clos = fv.env, !.calt = fv.alt]))
    [] f.t = "fnb" ->
         \* normal return from activation c.fr: closures leaving their definer are frozen
         LET leaving == Mentions(v, c.fr) /\ c.fr # 0
             nf == Len(m.heap) + 1
             v1 == IF leaving THEN Refreeze(v, c.fr, nf) ELSE v
             h1 == IF leaving THEN Append(m.heap, m.heap[c.fr]) ELSE m.heap
             \* a function value passing through a foreign activation: code snapshots, README shares
             foreign == v1.k = "fn" /\ v1.env # 0 /\ ~leaving /\ v1.alt = 0 /\ v1.b = ""
             v2 == IF foreign THEN [v1 EXCEPT !.alt = Len(h1) + 1] ELSE v1
             h2 == IF foreign THEN Append(h1, h1[v1.env]) ELSE h1
         IN Go(SetC([m EXCEPT !.heap = h2], [RetC(c1, v2) EXCEPT !.fr = f.fr, !.clos = f.clos, !.calt = f.calt]))
    [] f.t = "retk" ->
         LET idx == {i \in 1..Len(c1.k) : c1.k[i].t = "fnb"} IN
         IF idx = {} THEN
              Go([m EXCEPT !.cors = Kill([@ EXCEPT ![m.cur] = [RetC(c1, v) EXCEPT !.k = <<>>]], GensOf(c1.k))])
         ELSE LET mx == CHOOSE i \in idx : \A j \in idx : j <= i
                  dropped == SubSeq(c1.k, mx + 1, Len(c1.k))
              IN Go([m EXCEPT !.cors = Kill([@ EXCEPT ![m.cur] = [RetC(c1, v) EXCEPT !.k = SubSeq(c1.k, 1, mx)]], GensOf(dropped))])
    [] f.t = "assignk" ->
         IF v.k = "nil" THEN Raise("nil", "nil", "MOV", <<v>>)
         ELSE Go(SetC(SetVar(m, c1, f.tgt, v), RetC(c1, v)))
    [] f.t = "ifk" ->
         IF v.k # "bool" THEN Raise("type", IF v.k = "nil" THEN "nil" ELSE "type", "JMPF", <<v>>)
         ELSE IF v.v THEN Go(SetC(m, EvalC(c1, f.n.th)))
         ELSE IF f.n.t = "ifelse" THEN Go(SetC(m, EvalC(c1, f.n.el)))
         ELSE Go(SetC(m, RetC(c1, Nil)))
    [] f.t = "whilek" ->
         IF f.ph = "test" THEN
            (IF v.k # "bool" THEN Raise("type", IF v.k = "nil" THEN "nil" ELSE "type", "JMPF", <<v>>)
             ELSE IF v.v THEN Go(SetC(m, EvalC(PushK(c1, [f EXCEPT !.ph = "body"]), f.n.body)))
             ELSE Go(SetC(m, RetC(c1, f.last))))
         ELSE Go(SetC(m, EvalC(PushK(c1, [f EXCEPT !.ph = "test", !.last = v]), f.n.c)))
    [] f.t = "blockk" ->
         IF f.i < Len(f.ss) THEN Go(SetC(m, EvalC(PushK(c1, [f EXCEPT !.i = @ + 1]), f.ss[f.i + 1])))
         ELSE Go(SetC(m, RetC(c1, v)))
    [] f.t = "yieldk" ->
         IF c.parent = 0 THEN Go(SetC(m, RetC(c1, v)))
         ELSE Deliver(SetC(m, [RetC(c1, v) EXCEPT !.st = "susp"]), c.parent, v)
    [] f.t = "gendone" ->
         LET pid == c.parent  p == m.cors[pid]  pf == Last(p.k)
             p2 == [RetC(PopK(p), pf.last) EXCEPT !.st = "run"]
             cs == [m.cors EXCEPT ![pid] = p2]
             gens == {pf.gens[j] : j \in 1..Len(pf.gens)}
         IN Go([m EXCEPT !.cors = Kill(cs, gens), !.cur = pid])
    [] f.t = "fork" ->
         LET f2 == [f EXCEPT !.last = v]  p == PushK(c1, f2) IN
         Go(ResumeGen([m EXCEPT !.cors[m.cur] = p], m.cur, p, f2, 1))

StepFn(m) == IF m.cors[m.cur].mode = "eval" THEN StepEval(m) ELSE StepRet(m)

-----------------------------------------------------------------------------
(* Error report: for the failing coroutine and each ancestor, active calls innermost first *)
\* a value whose text the specification does not determine (an opaque float, a float outside the plain-decimal range) renders
\* to a marker that no real rendering equals (renderings are sequences of single characters); comparisons of report texts
\* that contain it are not made
UnkText == <<"<unspecified text>">>
HasUnk(as) == \E k \in 1..Len(as) : as[k] = UnkText
\* (the report cuts a rendering at 20 of the implementation's units -- bytes --; for text with characters outside ASCII that may be cut,
\* the place of the cut is not documented)
Rendered(v) == LET r == Render(v) IN
               IF IsErr(r) THEN UnkText
               ELSE IF Len(r.val) > 5 /\ \E i \in 1..Len(r.val) : r.val[i] \notin AsciiChars THEN UnkText
               ELSE Abbrev(r.val)
CallsOf(m, c) ==
  LET idx == {i \in 1..Len(c.k) : c.k[i].t = "fnb"}
      RECURSIVE Down(_)
      Down(i) == IF i = 0 THEN <<>>
                 ELSE IF i \in idx
                      THEN << [name |-> c.k[i].name,
                               args |-> [j \in 1..Len(c.k[i].params) |-> Rendered(FrameVar(m, c.k[i].callee, c.k[i].params[j]))]] >> \o Down(i - 1)
                      ELSE Down(i - 1)
      baseEntry == IF c.base.name = "" THEN <<>>
                   ELSE << [name |-> c.base.name,
                            args |-> [j \in 1..Len(c.base.params) |-> Rendered(FrameVar(m, c.base.fr, c.base.params[j]))]] >>
  IN Down(Len(c.k)) \o baseEntry
RECURSIVE Chain(_, _)
Chain(m, cid) == IF cid = 0 THEN <<>> ELSE << CallsOf(m, m.cors[cid]) >> \o Chain(m, m.cors[cid].parent)

Live(m) == {i \in 1..Len(m.cors) : m.cors[i].st # "done"}
\* Some operator on the way to the failing point already holds nil as its left operand and is waiting for its right one: the statement
\* is bound to fail there with a nil error as well, and an implementation may notice that first (it moves the left operand into a
\* register before it evaluates the right one).  Then a nil error, with whatever report, is an outcome as good as the specified one.
RECURSIVE PendingNil(_, _)
PendingNil(m, cid) == IF cid = 0 THEN FALSE
                      ELSE (\E i \in 1..Len(m.cors[cid].k) : m.cors[cid].k[i].t = "bina" /\ m.cors[cid].k[i].lv.k = "nil") \/ PendingNil(m, m.cors[cid].parent)

-----------------------------------------------------------------------------
RECURSIVE Plain(_)
Plain(v) == IF v.k = "fn" THEN [k |-> "fn"]
            ELSE IF v.k = "arr" THEN [k |-> "arr", v |-> [i \in 1..Len(v.v) |-> Plain(v.v[i])]] ELSE v
\* ---- trace mode: a session may carry the observations recorded from the real interpreter
Sess == Sessions[pi]
HasRec == "rec" \in DOMAIN Sess
CmpHas(x) == IF "cmp" \in DOMAIN Sess THEN \E i \in 1..Len(Sess.cmp) : Sess.cmp[i] = x ELSE x = "value"
RECURSIVE SameVal(_, _)
SameVal(a0, b) ==      \* a0: spec value, b: recorded value
  LET a == Canon(a0) IN
  \/ b.k = "none"     \* file mode: the value is discarded by the implementation
  \/ IsSymF(a) /\ b.k = "float"     \* a symbolic float not yet seen: any float is accepted, and remembered (LearnedAt)
  \/ /\ a.k = b.k
     /\ CASE a.k \in {"nil", "fn"} -> TRUE
          [] a.k \in {"int", "bool"} -> a.v = b.v
          [] a.k = "str" -> IsOpqS(a) \/ a.v = b.v       \* the text of an opaque float is not specified (its round trip is)
          [] a.k = "bigint" -> a.txt = b.txt
          [] a.k = "float" -> a.c = b.c /\ (a.c = "nan" \/ (a.c = "opq" /\ a.bits = b.bits) \/ (a.c # "opq" /\ a.neg = b.neg /\ (a.c = "inf" \/ (a.n = b.n /\ a.e = b.e))))
          [] a.k = "arr" -> Len(a.v) = Len(b.v) /\ \A i \in 1..Len(a.v) : SameVal(a.v[i], b.v[i])
Clean(res) == res.sp = 0 /\ res.frames = 0 /\ res.closures = 0 /\ res.live = 0 /\ res.ipgap = 0

\* error report (property C19): recorded = parsed text of the implementation's report
RECURSIVE JoinArgs(_)
JoinArgs(as) == IF Len(as) = 0 THEN <<>> ELSE IF Len(as) = 1 THEN as[1] ELSE as[1] \o <<",", " ">> \o JoinArgs(Tail(as))
OpFamily(op) ==
  CASE op = "+" -> {"ADD", "ADDTMP", "INC"} [] op = "-" -> {"SUB", "SUBTMP"} [] op = "*" -> {"MUL", "MULTMP"}
    [] op = "/" -> {"DIV", "DIVTMP"} [] op = "%" -> {"MOD", "MODTMP"}
    [] op \in {"&", "&&"} -> {"AND", "ANDTMP"} [] op \in {"|", "||"} -> {"OR", "ORTMP"}
    [] op = "<<" -> {"LSH", "LSHTMP"} [] op = ">>" -> {"RSH", "RSHTMP"}
    [] op = "<" -> {"LT", "LTTMP"} [] op = ">" -> {"GT", "GTTMP"} [] op = "<=" -> {"LE", "LETMP"} [] op = ">=" -> {"GE", "GETMP"}
    [] op = "==" -> {"EQ", "EQTMP"} [] op = "!=" -> {"NE", "NETMP"}
    [] op = "#" -> {"LEN", "LENTMP"} [] op = "!" -> {"NOT", "NOTTMP", "JMPF", "JMPT"} [] op = "~" -> {"FLIP", "FLIPTMP"}
    [] op = "IX" -> {"IX1", "IX2"} [] op = "JMPF" -> {"JMPF", "JMPT"}
    [] OTHER -> {op}
IsTmpOp(name) == Len(name) > 3 /\ SubSeq(name, Len(name) - 2, Len(name)) = "TMP"
ArgsOK(sargs, rop, rtext) ==       \* printed operand values: all of them, in order; TMP forms print a suffix, INC its variable
  \/ HasUnk(sargs)
  \/ JoinArgs(sargs) = rtext
  \/ rop \in {"ADDTMP", "SUBTMP", "MULTMP", "DIVTMP", "MODTMP", "ANDTMP", "ORTMP", "LSHTMP", "RSHTMP", "LTTMP", "GTTMP", "LETMP", "GETMP", "EQTMP", "NETMP",
               "NOTTMP", "FLIPTMP", "LENTMP"}
     /\ \E k \in 2..(Len(sargs) + 1) : JoinArgs(SubSeq(sargs, k, Len(sargs))) = rtext
  \/ rop = "INC" /\ \E k \in 1..Len(sargs) : sargs[k] = rtext
RECURSIVE JoinFrameArgsFrom(_, _)
JoinFrameArgsFrom(as, i) ==
  IF i > Len(as) THEN <<>>
  ELSE (IF i > 1 THEN <<" ">> ELSE <<>>) \o <<"a", "r", "g", "[">> \o NatStr(i - 1) \o <<"]", ":", " ">> \o as[i] \o JoinFrameArgsFrom(as, i + 1)
JoinFrameArgs(as) == JoinFrameArgsFrom(as, 1)
FramesOK(sf, rf) == Len(sf) = Len(rf) /\ \A i \in 1..Len(sf) : sf[i].name = rf[i].name /\ (HasUnk(sf[i].args) \/ JoinFrameArgs(sf[i].args) = rf[i].args)
Operators == {"+", "-", "*", "/", "%", "&", "&&", "|", "||", "<<", ">>", "<", ">", "<=", ">=", "==", "!=", "#", "!", "~"}
\* moving an operand into the temp register is an internal step of every operator; it fails (nil error) on a nil operand
TempMoveOfNil(s, r) == s.op \in Operators /\ r.op = "MOV" /\ r.args = <<"n", "i", "l">> /\ \E k \in 1..Len(s.args) : s.args[k] = <<"n", "i", "l">>
ReportOK(s, r) ==
  /\ r.parsed
  /\ \/ r.op \in OpFamily(s.op) /\ ArgsOK(s.args, r.op, r.args)
     \/ TempMoveOfNil(s, r)
  /\ Len(s.ctxs) = Len(r.ctxs)
  /\ \A i \in 1..Len(s.ctxs) : FramesOK(s.ctxs[i], r.ctxs[i])

Aspect(o, r) ==     \* "" when the recorded observation r is the specified one, else the first differing aspect
  IF "perr" \in DOMAIN o THEN (IF r.kind = (IF o.perr = "refused" THEN "cerr" ELSE "perr") THEN "" ELSE "kind")     \* a statement without effect: rejected by the parser, or refused by the compiler as too large
  ELSE IF CmpHas("nocrash") THEN (IF r.kind \in {"val", "err"} THEN "" ELSE "kind")
  ELSE IF "err" \in DOMAIN o THEN
       IF r.kind # "err" THEN "kind"
       ELSE IF r.err \notin {o.err, o.alt, IF "alt2" \in DOMAIN o THEN o.alt2 ELSE o.err} THEN "class"
       ELSE IF CmpHas("value") /\ r.out # o.out THEN "output"
       ELSE IF CmpHas("report") /\ ~(r.err \notin {o.err, o.alt}) /\ ~ReportOK(o.report, r.report) THEN "report"
       ELSE IF CmpHas("residue") /\ ~Clean(r.residue) THEN "residue"
       ELSE ""
  ELSE IF r.kind # "val" THEN "kind"
       ELSE IF CmpHas("value") /\ ~SameVal(o.val, r.val) THEN "value"
       ELSE IF CmpHas("value") /\ r.out # o.out THEN "output"
       ELSE IF CmpHas("residue") /\ ~Clean(r.residue) THEN "residue"
       ELSE ""
\* append observation o; in trace mode it must match the record, else the session diverges
Observe(o, okStatus, okSi) ==
  LET n == Len(obs) + 1
      missing == HasRec /\ n > Len(Sess.rec)
      asp == IF ~HasRec THEN "" ELSE IF missing THEN "missing" ELSE Aspect(o, Sess.rec[n])
  IN IF asp # ""
     THEN /\ obs' = Append(obs, o) /\ status' = "diverged" /\ si' = si
          /\ PrintT("DIVERGE " \o ToJson([id |-> Sess.id, item |-> n, aspect |-> asp, expected |-> o,
                                           recorded |-> IF missing THEN [kind |-> "missing"] ELSE Sess.rec[n]]))
     ELSE /\ obs' = Append(obs, o) /\ status' = okStatus /\ si' = okSi

Assign(m) ==
  /\ cors' = m.cors /\ cur' = m.cur /\ heap' = m.heap /\ globals' = m.globals /\ out' = m.out /\ stdin' = m.stdin

BeginItem ==
  /\ status = "stmtend" /\ si <= Len(Items)
  /\ stepno' = stepno + 1
  /\ itemstart' = stepno
  /\ peakk' = 0
  /\ IF "perr" \in DOMAIN Items[si]
     THEN /\ Observe([perr |-> IF "cerr" \in DOMAIN Items[si] THEN "refused" ELSE "parse"], "stmtend", si + 1)
          /\ UNCHANGED <<pi, cors, cur, heap, globals, out, stdin>>
     ELSE /\ cors' = StartCors(si) /\ cur' = 1 /\ out' = <<>>
          /\ status' = "run"
          /\ UNCHANGED <<pi, si, heap, globals, stdin, obs>>

Step ==
  /\ status = "run"
  /\ ~(cors[cur].mode = "ret" /\ Len(cors[cur].k) = 0)
  /\ stepno' = stepno + 1
  /\ LET r == IF stepno - itemstart > MaxSteps THEN UnspecR ELSE StepFn(M) IN
     IF "m" \in DOMAIN r THEN /\ Assign(r.m) /\ UNCHANGED <<pi, si, obs, status, itemstart>>
                               /\ peakk' = Max(peakk, Len(r.m.cors[r.m.cur].k))
     ELSE IF "unspec" \in DOMAIN r THEN
          /\ obs' = Append(obs, [unspec |-> TRUE, budget |-> stepno - itemstart > MaxSteps]) /\ status' = "stmtend" /\ si' = Len(Items) + 1
          /\ UNCHANGED <<pi, cors, cur, heap, globals, out, stdin, itemstart, peakk>>
     ELSE /\ Observe([err |-> r.raise, alt |-> r.alt, alt2 |-> IF PendingNil(M, cur) THEN "nil" ELSE r.raise, out |-> out,
                       report |-> [op |-> r.op, args |-> [i \in 1..Len(r.args) |-> Rendered(r.args[i])],
                                   ctxs |-> LET ch == Chain(M, IF "at" \in DOMAIN r THEN r.at ELSE cur) IN
                                            IF "frame" \in DOMAIN r
                                            THEN << << [name |-> r.frame.name, args |-> [i \in 1..Len(r.frame.args) |-> Rendered(r.frame.args[i])]] >> \o ch[1] >> \o Tail(ch)
                                            ELSE ch]], "stmtend", si + 1)
          /\ UNCHANGED <<pi, cors, cur, heap, globals, out, stdin, itemstart, peakk>>

StmtDone ==
  /\ status = "run"
  /\ cors[cur].mode = "ret" /\ Len(cors[cur].k) = 0
  /\ stepno' = stepno + 1
  /\ Assert(cors[cur].parent = 0, "statement finished inside a generator")
  /\ Observe([val |-> Plain(cors[cur].ctl), out |-> out, live |-> Cardinality(Live(M) \ {cur}), depth |-> peakk], "stmtend", si + 1)
  /\ UNCHANGED <<pi, cors, cur, heap, globals, out, stdin, itemstart, peakk>>

PlainObs(o) == IF "val" \in DOMAIN o THEN [o EXCEPT !.val = Plain(@)] ELSE o

Finish ==
  /\ status = "stmtend" /\ si > Len(Items)
  /\ stepno' = stepno + 1
  /\ status' = "done"
  /\ IF HasRec THEN PrintT("ACCEPT " \o ToJson([id |-> Sess.id, n |-> Len(obs), steps |-> stepno,
                                                 depths |-> [i \in 1..Len(obs) |-> IF "depth" \in DOMAIN obs[i] THEN obs[i].depth ELSE -1],
                                                 unspec |-> (Len(obs) > 0 /\ "unspec" \in DOMAIN obs[Len(obs)])]))
     ELSE PrintT("OBS " \o ToJson([id |-> Sessions[pi].id, obs |-> [i \in 1..Len(obs) |-> PlainObs(obs[i])]]))
  /\ UNCHANGED <<pi, si, cors, cur, heap, globals, out, stdin, obs, itemstart, peakk>>

Next == BeginItem \/ Step \/ StmtDone \/ Finish
Spec == Init /\ [][Next]_vars

\* ---- theorems of the semantics itself (action properties checked by TLC on every explored step; a failure is a defect of
\* this specification, reported as exit 2, never as a verdict about the implementation)
Owner(c) == IF c.parent = 0 THEN {c.fr} ELSE {c.fr, cors[c.parent].fr}
\* identity of values and bindings that TLC can always evaluate (its own = refuses to compare e.g. a string with an integer
\* held in the same field of two records); function bodies are compared by their printed form
RECURSIVE IdV(_, _)
IdV(a, b) == IF a.k # b.k THEN FALSE
             ELSE IF a.k = "arr" THEN Len(a.v) = Len(b.v) /\ \A i \in 1..Len(a.v) : IdV(a.v[i], b.v[i])
             ELSE IF a.k = "fn" THEN a.env = b.env /\ a.alt = b.alt /\ a.b = b.b /\ ToString(a.f) = ToString(b.f)
             ELSE a = b
IdBind(f, g) == DOMAIN f = DOMAIN g /\ \A n \in DOMAIN f : IdV(f[n], g[n])
\* C04: only code at top level (frame 0), or a top-level loop receiving a yielded value, changes a global binding
GlobalsOnlyAtTopLevel == [][(status = "run" /\ ~IdBind(globals', globals)) => (0 \in Owner(cors[cur]))]_vars
\* C04/C18: an activation frame is changed only by the activation it belongs to (or by the loop owner receiving a yielded value);
\* frames are never reclaimed or renumbered
FrameOnlyByOwner == [][status = "run" =>
                        /\ Len(heap') >= Len(heap)
                        /\ \A f \in 1..Len(heap) : ~IdBind(heap'[f], heap[f]) => f \in Owner(cors[cur])]_vars
\* C01: within a statement output only grows
OutputOnlyGrows == [][(status = "run" /\ status' = "run") => (Len(out') >= Len(out) /\ SubSeq(out', 1, Len(out)) = out)]_vars

\* the semantics is total: a running statement always has a successor
NotStuck == status = "run" => ENABLED (Step \/ StmtDone)
SpecSane == /\ status \in {"run", "stmtend", "done", "diverged"}
            /\ si >= 1 /\ Len(obs) <= Len(Items) + 1 /\ stepno >= itemstart
\* no residue: when a statement completes normally no generator is left alive
NoResidue == \A i \in 1..Len(obs) : ("live" \in DOMAIN obs[i]) => obs[i].live = 0
=============================================================================
