SPECIFICATION Spec
CONSTANTS MaxOps = 5
Widths = {1, 130}
Bursts = {129}
Fam = {"frame", "closure", "clone"}
Deep = FALSE
INVARIANT FramesDistinct
CHECK_DEADLOCK FALSE
