------------------------------- MODULE CombMC -------------------------------
(* Model-checking harness for Combinator.tla (property C13, second half): every initial state  *)
(* is one (parser term, token string) pair; its step evaluates the operational semantics Run   *)
(* (mirroring combinator.go) and prints the case for replay on the real package.  Invariants:  *)
(* Run agrees with the declarative ordered-choice recogniser Peg on accept/reject, result      *)
(* nodes and end position; snapshots are balanced; a restoring combinator that fails (and      *)
(* Assert always) leaves the position where it was.                                            *)
EXTENDS Combinator

CONSTANTS Depth,    \* 1 | 2 | 3
          MaxLen    \* token strings up to this length over {a, b}
Leaves == {Acc("a"), Acc("b"), OkP}
NN == {p \in Leaves : ~Nullable(p)}
D1 == Leaves
   \cup {And(x, y) : x \in Leaves, y \in Leaves}
   \cup {SeqP(<<x, y, z>>) : x \in NN, y \in Leaves, z \in NN}
   \cup {OneOf(<<x, y>>) : x \in Leaves, y \in Leaves}
   \cup {Choose(<<Cond(g, s), Cond(OkP, s2)>>) : g \in Leaves, s \in Leaves, s2 \in Leaves}
   \cup {AnyP(g, s) : g \in NN, s \in Leaves}
   \cup {SepBy(x, y) : x \in NN, y \in Leaves} \cup {SepBy(x, y) : x \in Leaves, y \in NN}
   \cup {Surr(x, y, z) : x \in Leaves, y \in Leaves, z \in Leaves}
   \cup {AssertP(x) : x \in Leaves} \cup {AssertP(NotP(x)) : x \in Leaves} \cup {Drop(x) : x \in Leaves}
   \cup {Fmap(f, x) : f \in {"wrap", "count"}, x \in Leaves}
Small == {p \in D1 : p.c \in {"and", "oneof", "any", "sepby", "assert", "choose"}}
NNSmall == {p \in Small : ~Nullable(p)}
D2 == D1
   \cup {And(x, y) : x \in Small, y \in Leaves} \cup {And(x, y) : x \in Leaves, y \in Small}
   \cup {OneOf(<<x, y>>) : x \in Small, y \in Leaves \cup {AssertP(Acc("a"))}}
   \cup {OneOf(<<x, y, z>>) : x \in NNSmall, y \in NN, z \in Leaves}
   \cup {Choose(<<Cond(g, s), Cond(OkP, OkP)>>) : g \in Small, s \in Leaves}
   \cup {Choose(<<Cond(g, s), Cond(OkP, Acc("b"))>>) : g \in Leaves, s \in Small}
   \cup {AnyP(g, s) : g \in NNSmall, s \in Leaves} \cup {AnyP(g, s) : g \in NN, s \in Small}
   \cup {SepBy(x, y) : x \in NNSmall, y \in Leaves} \cup {SepBy(x, y) : x \in NN, y \in Small}
   \cup {Surr(x, y, z) : x \in NN, y \in Small, z \in NN}
   \cup {AssertP(x) : x \in Small} \cup {AssertP(NotP(x)) : x \in Small} \cup {Drop(x) : x \in Small}
   \cup {Fmap("wrap", x) : x \in Small}
\* depth 3 on a reduced basis: restoring combinators around depth-2 terms that commit and then fail
Mid == {p \in D2 : p.c \in {"and", "choose", "any", "surr"} /\ ~Nullable(p)}
D3 == D2
   \cup {OneOf(<<x, y>>) : x \in Mid, y \in {Acc("a"), Acc("b")}}
   \cup {AssertP(x) : x \in Mid}
   \cup {AnyP(x, OkP) : x \in Mid}
   \cup {SepBy(x, Acc("b")) : x \in Mid} \cup {SepBy(Acc("a"), x) : x \in Mid}
   \cup {Choose(<<Cond(x, Acc("a")), Cond(OkP, OkP)>>) : x \in Mid}
Terms == IF Depth = 1 THEN D1 ELSE IF Depth = 2 THEN D2 ELSE D3
RECURSIVE Strs(_)
Strs(n) == IF n = 0 THEN {<<>>} ELSE Strs(n - 1) \cup {Append(s, a) : s \in {t \in Strs(n - 1) : Len(t) = n - 1}, a \in {"a", "b"}}
St0 == [pos |-> 0, snaps |-> <<>>]
\* the token list seen by a parser ends with the synthetic EOL, EOF of the real lexer
Toks(s) == s \o <<"EOL", "EOF">>

VARIABLES p, s, done
vars == <<p, s, done>>
Init == p \in Terms /\ s \in Strs(MaxLen) /\ done = FALSE
Res == Run(p, Toks(s), St0)
Next == /\ ~done /\ done' = TRUE /\ UNCHANGED <<p, s>>
        /\ LET r == Res IN PrintT("OBS " \o ToJson([p |-> p, s |-> s, ok |-> r.ok, nodes |-> r.nodes, pos |-> r.st.pos]))
Spec == Init /\ [][Next]_vars

Balanced == ~done => Res.st.snaps = <<>>
RestoringFails == ~done => LET r == Res IN
                  /\ (p.c = "oneof" /\ ~r.ok) => r.st.pos = 0
                  /\ p.c = "assert" => r.st.pos = 0
                  /\ p.c \in {"any", "sepby"} => ("panic" \notin DOMAIN r)
AgreesWithPeg == ~done => LET r == Res g == Peg(p, Toks(s), 0) IN
                 \/ "panic" \in DOMAIN r \/ "panic" \in DOMAIN g
                 \/ /\ r.ok = g.ok
                    /\ r.ok => (r.nodes = g.nodes /\ r.st.pos = g.j)
=============================================================================
