SPECIFICATION Spec
CONSTANTS MaxOps = 6
Widths = {1, 130}
Bursts = {129}
Fam = {"stack", "frame", "global", "closure", "clone"}
Deep = FALSE
INVARIANT FramesDistinct
CHECK_DEADLOCK FALSE
