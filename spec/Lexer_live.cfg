SPECIFICATION Spec
CONSTANT N = 3
CONSTANT Alpha = {"d", "l", "s", "b", "q", "k", "w", "n", "c", "p", "x"}
PROPERTY Terminates
CHECK_DEADLOCK FALSE
