---- MODULE EmitComb ----
EXTENDS Combinator
Leaves == {Acc("a"), Acc("b"), OkP}
NN == {p \in Leaves : ~Nullable(p)}
D1 == Leaves
   \cup {And(x, y) : x \in Leaves, y \in Leaves}
   \cup {OneOf(<<x, y>>) : x \in Leaves, y \in Leaves}
   \cup {Choose(<<Cond(g, s), Cond(OkP, s2)>>) : g \in Leaves, s \in Leaves, s2 \in Leaves}
   \cup {AnyP(g, s) : g \in NN, s \in Leaves}
   \cup {SepBy(x, y) : x \in NN, y \in Leaves} \cup {SepBy(x, y) : x \in Leaves, y \in NN}
   \cup {Surr(x, y, z) : x \in Leaves, y \in Leaves, z \in Leaves}
   \cup {AssertP(x) : x \in Leaves} \cup {AssertP(NotP(x)) : x \in Leaves} \cup {Drop(x) : x \in Leaves}
   \cup {Fmap(f, x) : f \in {"wrap", "count"}, x \in Leaves}
Small == {p \in D1 : p.c \in {"and", "oneof", "any", "sepby", "assert", "choose"}}
NNSmall == {p \in Small : ~Nullable(p)}
D2 == D1
   \cup {And(x, y) : x \in Small, y \in Leaves} \cup {And(x, y) : x \in Leaves, y \in Small}
   \cup {OneOf(<<x, y>>) : x \in Small, y \in Leaves \cup {AssertP(Acc("a"))}}
   \cup {Choose(<<Cond(g, s), Cond(OkP, OkP)>>) : g \in Small, s \in Leaves}
   \cup {Choose(<<Cond(g, s), Cond(OkP, Acc("b"))>>) : g \in Leaves, s \in Small}
   \cup {AnyP(g, s) : g \in NNSmall, s \in Leaves} \cup {AnyP(g, s) : g \in NN, s \in Small}
   \cup {SepBy(x, y) : x \in NNSmall, y \in Leaves} \cup {SepBy(x, y) : x \in NN, y \in Small}
   \cup {AssertP(x) : x \in Small} \cup {AssertP(NotP(x)) : x \in Small}
   \cup {Fmap("wrap", x) : x \in Small}
RECURSIVE Strs(_)
Strs(n) == IF n = 0 THEN {<<>>} ELSE Strs(n - 1) \cup {Append(s, a) : s \in {t \in Strs(n - 1) : Len(t) = n - 1}, a \in {"a", "b"}}
St0 == [pos |-> 0, snaps |-> <<>>]
\* the token list seen by the parser ends with the synthetic EOL, EOF of the real lexer
Toks(s) == s \o <<"EOL", "EOF">>
Balanced == \A p \in D2, s \in Strs(3) : LET r == Run(p, Toks(s), St0) IN
               /\ r.st.snaps = <<>>
               /\ (Restoring(p) /\ ~r.ok) => r.st.pos = 0
ASSUME Balanced
ASSUME PrintT(<<"terms", Cardinality(D2), "strings", Cardinality(Strs(3))>>)
ASSUME \A p \in D2, s \in Strs(3) : LET r == Run(p, Toks(s), St0) IN
          PrintT("OBS " \o ToJson([p |-> p, s |-> s, ok |-> r.ok, nodes |-> r.nodes, pos |-> r.st.pos]))
VARIABLE x
Init == x = 0
Next == UNCHANGED x
====
