---- MODULE LexE ----
EXTENDS Integers, Sequences, TLC, FiniteSets, Json
\* throw-away: char-class lexer machine as intended (EOF handled), all strings <= N
CONSTANT N
Alpha == {"d", "l", "s", "b", "q", "k", "w", "n", "c", "p", "x"}  \* digit letter sticky bracket quote backslash blank newline semicolon dot invalid
RECURSIVE Strs(_)
Strs(n) == IF n = 0 THEN {<<>>} ELSE Strs(n-1) \cup { Append(s, a) : s \in {t \in Strs(n-1) : Len(t) = n-1}, a \in Alpha }
VARIABLES inp, from, to, st, toks, steps, err
vars == <<inp, from, to, st, toks, steps, err>>
Init == inp \in Strs(N) /\ from = 0 /\ to = 0 /\ st = "ws" /\ toks = <<>> /\ steps = 0 /\ err = FALSE
Ch == IF to >= Len(inp) THEN "eof" ELSE inp[to+1]
Sz == IF to >= Len(inp) THEN 0 ELSE 1
\* generic transition on char c for a state that emits typ (or none) : returns next state or "ERR"
NewState(c) == CASE c = "w" -> "ws" [] c = "c" -> "comment" [] c = "n" -> "eol" [] c = "eof" -> "eof"
                 [] c = "d" -> "int" [] c = "l" -> "var" [] c = "q" -> "str" [] c = "b" -> "ns" [] c = "s" -> "sticky"
                 [] OTHER -> "ERR"
Emit(typ, nxt) == /\ toks' = Append(toks, <<typ, from, to>>) /\ st' = nxt /\ from' = to /\ to' = to + Sz
Adv(nxt, doadv) == /\ toks' = toks /\ st' = nxt /\ from' = (IF doadv THEN to ELSE from) /\ to' = to + Sz
Fail == /\ err' = TRUE /\ UNCHANGED <<from, to, st, toks>>
Finished == from = Len(inp) /\ to = Len(inp)
Step ==
  /\ ~err /\ ~Finished /\ st \notin {"done","emitted"}
  /\ steps' = steps + 1 /\ UNCHANGED inp
  /\ LET c == Ch IN
     CASE st = "ws" -> (IF NewState(c) = "ERR" THEN Fail ELSE Adv(NewState(c), TRUE) /\ UNCHANGED err)
       [] st = "comment" -> (IF c = "n" THEN Adv("eol", TRUE) ELSE IF c = "eof" THEN Adv("eof", TRUE) ELSE Adv("comment", FALSE)) /\ UNCHANGED err
       [] st = "int" -> (IF c = "d" THEN Adv("int", FALSE) /\ UNCHANGED err ELSE IF c = "p" THEN Adv("float", FALSE) /\ UNCHANGED err
                         ELSE IF NewState(c) = "ERR" THEN Fail ELSE Emit("Int", NewState(c)) /\ UNCHANGED err)
       [] st = "float" -> (IF c = "d" THEN Adv("float", FALSE) /\ UNCHANGED err
                         ELSE IF NewState(c) = "ERR" THEN Fail ELSE Emit("Float", NewState(c)) /\ UNCHANGED err)
       [] st = "var" -> (IF c = "l" THEN Adv("var", FALSE) /\ UNCHANGED err
                         ELSE IF NewState(c) = "ERR" THEN Fail ELSE Emit("Name", NewState(c)) /\ UNCHANGED err)
       [] st = "str" -> (IF c = "q" THEN Adv("strend", FALSE) /\ UNCHANGED err ELSE IF c = "k" THEN Adv("esc", FALSE) /\ UNCHANGED err
                         ELSE IF c = "eof" THEN Fail ELSE Adv("str", FALSE) /\ UNCHANGED err)
       [] st = "esc" -> (IF c = "eof" THEN Fail ELSE Adv("str", FALSE) /\ UNCHANGED err)
       [] st = "strend" -> (IF NewState(c) = "ERR" THEN Fail ELSE Emit("Str", NewState(c)) /\ UNCHANGED err)
       [] st = "ns" -> (IF NewState(c) = "ERR" THEN Fail ELSE Emit("NS", NewState(c)) /\ UNCHANGED err)
       [] st = "sticky" -> (IF c = "s" THEN Adv("sticky", FALSE) /\ UNCHANGED err
                         ELSE IF NewState(c) = "ERR" THEN Fail ELSE Emit("Sticky", NewState(c)) /\ UNCHANGED err)
       [] st = "eol" -> (IF NewState(c) = "ERR" THEN Fail ELSE Emit("EOL", NewState(c)) /\ UNCHANGED err)
       [] OTHER -> Fail
TailStep ==
  /\ ~err /\ Finished /\ st \notin {"done","emitted"}
  /\ UNCHANGED <<inp, from, to, err>> /\ steps' = steps + 1
  /\ IF Len(toks) > 0 /\ toks[Len(toks)][1] = "EOL" THEN toks' = Append(toks, <<"EOF", 0, 0>>) /\ st' = "done"
     ELSE toks' = Append(toks, <<"EOL", 0, 0>>) /\ st' = st
EmitDone == /\ (err \/ st = "done") /\ st # "emitted" /\ st' = "emitted" /\ PrintT("OBS " \o ToJson([inp |-> inp, toks |-> toks, err |-> err, st |-> st, at |-> <<from, to>>])) /\ UNCHANGED <<inp, from, to, toks, steps, err>>
Next == Step \/ TailStep \/ EmitDone
Spec == Init /\ [][Next]_vars /\ WF_vars(Next)
Bounded == steps <= 2 * Len(inp) + 4
Spans == \A i \in 1..Len(toks) : toks[i][2] <= toks[i][3] /\ toks[i][3] <= Len(inp)
Ordered == \A i \in 1..(Len(toks)-1) : (toks[i+1][1] \in {"EOL","EOF"} /\ toks[i+1][2] = 0) \/ (toks[i][3] <= toks[i+1][2])
Terminates == <>(err \/ st = "done")
====
