------------------------------ MODULE Bytecode ------------------------------
(* Instruction word as four 16-bit limbs <<h, a2, a1, a0>>:                        *)
(*   h = opcode(7) | src2 kind(3) | src1 kind(3) | src0 kind(3);  aN = operand N.  *)
EXTENDS Integers, Sequences, TLC, Json, FiniteSets
W == 65536
RECURSIVE BitOr(_, _, _)
BitOr(a, b, n) == IF n = 0 THEN 0 ELSE (IF (a % 2) + (b % 2) > 0 THEN 1 ELSE 0) + 2 * BitOr(a \div 2, b \div 2, n - 1)
Or16(a, b) == BitOr(a, b, 16)
OrW(x, y) == [i \in 1..4 |-> Or16(x[i], y[i])]
Zero == <<0, 0, 0, 0>>
New(op) == <<(op % 128) * 512, 0, 0, 0>>
\* admit ranges: as coded today, and as the signed decoder requires
AdmitCoded(addr) == addr > -W /\ addr < W
AdmitIntended(addr) == addr >= -(W \div 2) /\ addr < W \div 2
KindShift(sel) == CASE sel = 0 -> 1 [] sel = 1 -> 8 [] sel = 2 -> 64
EncodeSrc(sel, kind, addr) ==
  LET a == addr % W     \* two's complement truncation (TLA+ % is non-negative)
      h == (kind % 8) * KindShift(sel)
  IN CASE sel = 0 -> <<h, 0, 0, a>> [] sel = 1 -> <<h, 0, a, 0>> [] sel = 2 -> <<h, a, 0, 0>>
OpCode(w) == w[1] \div 512
Src(w, sel) == (w[1] \div KindShift(sel)) % 8
SignExt(n) == IF n >= W \div 2 THEN n - W ELSE n
SrcAddr(w, sel) == SignExt(CASE sel = 0 -> w[4] [] sel = 1 -> w[3] [] sel = 2 -> w[2])
\* round trip of one operand in an otherwise arbitrary instruction
RoundTrip(op, sel, kind, addr, other) ==
  LET w == OrW(OrW(New(op), EncodeSrc(sel, kind, addr)), other) IN
  /\ SrcAddr(w, sel) = addr /\ Src(w, sel) = Or16(kind, Src(other, sel)) % 8
Addrs == (-65537..-65534) \cup (-32770..-32766) \cup (-2..2) \cup (32765..32770) \cup (65534..65537)
\* the contract the decoder needs
Intended == \A op \in {0, 1, 63, 68, 127}, sel \in 0..2, kind \in 0..7, addr \in Addrs :
              AdmitIntended(addr) => RoundTrip(op, sel, kind, addr, Zero)
\* the same with the range check as coded: TLC exhibits the wrap-around
Coded == \A sel \in 0..2, addr \in Addrs : AdmitCoded(addr) => RoundTrip(1, sel, 7, addr, Zero)
\* OR-patching a jump offset into a zero field leaves the other fields alone
Patch == \A a1 \in {-3, 0, 5, 32767}, a0 \in {-32768, -1, 7} :
            LET w0 == OrW(New(27), EncodeSrc(1, 1, a1))        \* JMPF with src1 set, src0 still zero
                w == OrW(w0, EncodeSrc(0, 5, a0)) IN
            SrcAddr(w, 1) = a1 /\ SrcAddr(w, 0) = a0 /\ OpCode(w) = 27 /\ Src(w, 1) = 1 /\ Src(w, 0) = 5
ASSUME Intended
ASSUME Patch
ASSUME PrintT(<<"coded range check round-trips:", Coded>>)
ASSUME \A op \in {1, 63, 127}, sel \in 0..2, kind \in {1, 5, 7}, addr \in Addrs :
         PrintT("OBS " \o ToJson([op |-> op, sel |-> sel, kind |-> kind, addr |-> addr,
                                  admit |-> AdmitIntended(addr),
                                  w |-> OrW(New(op), EncodeSrc(sel, kind, addr))]))
VARIABLE x
Init == x = 0
Next == UNCHANGED x
=============================================================================
