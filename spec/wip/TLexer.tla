------------------------------ MODULE TLexer ------------------------------
(* Transactional lexer: abstract cursor + snapshot stack, and the cache-level      *)
(* implementation model (stack/readp/writep/pointers over an underlying scanner).   *)
(* T is the fresh scan of the input: a sequence of token ids; the underlying        *)
(* scanner returns them one by one and then reports "no more".                      *)
EXTENDS Integers, Sequences, TLC, Json
CONSTANTS NTok,      \* number of tokens of the fresh scan (incl. EOL, EOF)
          MaxOps
VARIABLES pos, snaps,                      \* abstract
          cache, readp, writep, ptrs, under, \* implementation-shaped
          hist
vars == <<pos, snaps, cache, readp, writep, ptrs, under, hist>>
Init == /\ pos = 0 /\ snaps = <<>>
        /\ cache = <<>> /\ readp = -1 /\ writep = 0 /\ ptrs = <<>> /\ under = 0
        /\ hist = <<>>
Last(s) == s[Len(s)]
Front(s) == SubSeq(s, 1, Len(s) - 1)
\* ---- actions: abstract and implementation step together; observation recorded in hist
Next_ ==
  /\ Len(hist) < MaxOps
  /\ \* abstract
     IF pos < NTok THEN pos' = pos + 1 ELSE pos' = pos
  /\ \* implementation (transaction.go Next)
     IF readp < writep - 1
     THEN /\ readp' = readp + 1 /\ UNCHANGED <<cache, writep, under>>
     ELSE IF under < NTok
          THEN /\ under' = under + 1 /\ cache' = Append(cache, under + 1)
               /\ readp' = readp + 1 /\ writep' = writep + 1
          ELSE UNCHANGED <<cache, readp, writep, under>>
  /\ hist' = Append(hist, [op |-> "next", ok |-> pos < NTok, tok |-> IF pos < NTok THEN pos + 1 ELSE 0])
  /\ UNCHANGED <<snaps, ptrs>>
Snapshot ==
  /\ Len(hist) < MaxOps
  /\ snaps' = Append(snaps, pos) /\ ptrs' = Append(ptrs, readp)
  /\ hist' = Append(hist, [op |-> "snap", ok |-> TRUE, tok |-> 0])
  /\ UNCHANGED <<pos, cache, readp, writep, under>>
Rollback ==
  /\ Len(hist) < MaxOps /\ Len(snaps) > 0
  /\ pos' = Last(snaps) /\ snaps' = Front(snaps)
  /\ readp' = Last(ptrs) /\ ptrs' = Front(ptrs)
  /\ hist' = Append(hist, [op |-> "rollback", ok |-> TRUE, tok |-> 0])
  /\ UNCHANGED <<cache, writep, under>>
Commit ==
  /\ Len(hist) < MaxOps /\ Len(snaps) > 0
  /\ snaps' = Front(snaps) /\ ptrs' = Front(ptrs)
  /\ hist' = Append(hist, [op |-> "commit", ok |-> TRUE, tok |-> 0])
  /\ UNCHANGED <<pos, cache, readp, writep, under>>
Emit == /\ Len(hist) = MaxOps /\ hist' = Append(hist, [op |-> "end", ok |-> TRUE, tok |-> 0])
        /\ PrintT("OBS " \o ToJson([n |-> NTok, h |-> hist]))
        /\ UNCHANGED <<pos, snaps, cache, readp, writep, ptrs, under>>
Next == Next_ \/ Snapshot \/ Rollback \/ Commit \/ Emit
Spec == Init /\ [][Next]_vars
\* refinement mapping and fresh-scan equivalence
Refines == /\ pos = readp + 1
           /\ snaps = [i \in 1..Len(ptrs) |-> ptrs[i] + 1]
           /\ writep = Len(cache) /\ under = writep
           /\ \A i \in 1..Len(cache) : cache[i] = i        \* the cache is a prefix of the fresh scan
           /\ readp < writep
FreshScan == pos > 0 => cache[readp + 1] = pos           \* Token() returns T[pos]
====
