SPECIFICATION Spec
CONSTANT NToks = {2, 3, 4}
CONSTANT ErrModes = {FALSE, TRUE}
CONSTANT MaxOps = 8
INVARIANTS Refines FreshScan SnapsInRange
CHECK_DEADLOCK FALSE
