SPECIFICATION Spec
CONSTANT MaxStmts = 3
CONSTANT LongN = 500
CONSTANT OnlyLong = FALSE
INVARIANT EndsSane
CHECK_DEADLOCK FALSE
