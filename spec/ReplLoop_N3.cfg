SPECIFICATION Spec
CONSTANT MaxStmts = 3
INVARIANT EndsSane
CHECK_DEADLOCK FALSE
