------------------------------ MODULE CalcScope ------------------------------
(* The static-scoping rules of CalcSem (Res: storage class and frame slot of every name, number of *)
(* slots of every function) printed for the statements of SessionsFile, one RESOLVED line per      *)
(* statement.  The harness dumps the tree the real symbol-table rewriter (STRewrite) produced for  *)
(* the same statement; the two must be the same tree.                                              *)
EXTENDS CalcSem
ScopeInit == Init
ScopeNext == /\ si <= Len(Items) /\ si' = si + 1
             /\ UNCHANGED <<pi, cors, cur, heap, globals, out, stdin, obs, status, stepno, itemstart, peakk>>
             /\ IF "ast" \in DOMAIN Items[si]
                THEN PrintT("RESOLVED " \o ToJson([id |-> Sess.id, item |-> si, tree |-> Resolve(Items[si].ast)]))
                ELSE TRUE
ScopeSpec == ScopeInit /\ [][ScopeNext]_vars
ScopeView == <<pi, si>>
=============================================================================
