---------------------------- MODULE TLexerCore ----------------------------
(* The transactional lexer (property C13, first half): state, actions and invariants *)
(* without the recorded history.  TLexer.tla extends this module with the history    *)
(* that TLC prints for replay; TLexerInd.tla extends it with an inductive invariant  *)
(* that Apalache checks for histories of ANY length.  The type annotations are       *)
(* comments for TLC and SANY and are read by Apalache.                               *)
(* Abstract view: a cursor pos into T, the token sequence of a fresh scan, and a    *)
(* stack of saved cursors.  Implementation view (lexer/transaction.go): a cache of  *)
(* results obtained from the underlying scanner, readp, writep, the pointer stack.  *)
(* Each action steps both views; the invariants say the implementation view refines *)
(* the abstract one and that the token returned after any history is the one a      *)
(* fresh scan resumed at the restored position returns.  Tokens are identified by   *)
(* their index in T (1..ntok); when haserr, T ends with a lexer-error result and    *)
(* nothing is specified beyond it.                                                  *)
EXTENDS Integers, Sequences

CONSTANTS
  \* @type: Set(Int);
  NToks,     \* set of fresh-scan lengths explored (incl. the final EOL, EOF)
  \* @type: Set(Bool);
  ErrModes   \* subset of BOOLEAN: scans ending in a lexer error
VARIABLES
  \* @type: Int;
  ntok,
  \* @type: Bool;
  haserr,
  \* @type: Int;
  pos,                                       \* abstract
  \* @type: Seq(Int);
  snaps,
  \* @type: Seq(Int);
  cache,                                     \* implementation-shaped
  \* @type: Int;
  readp,
  \* @type: Int;
  writep,
  \* @type: Seq(Int);
  ptrs,
  \* @type: Int;
  under
cvars == <<ntok, haserr, pos, snaps, cache, readp, writep, ptrs, under>>

CoreInit == /\ ntok \in NToks /\ haserr \in ErrModes
            /\ pos = 0 /\ snaps = <<>>
            /\ cache = <<>> /\ readp = -1 /\ writep = 0 /\ ptrs = <<>> /\ under = 0
Last(s) == s[Len(s)]
Front(s) == SubSeq(s, 1, Len(s) - 1)

\* Next(): the abstract cursor advances unless at the end; the implementation serves from the cache or scans
NextEnabled == ~(haserr /\ pos >= ntok)        \* nothing is specified after a lexer error
NextAbs == IF pos < ntok THEN pos' = pos + 1 ELSE pos' = pos
NextImpl == IF readp < writep - 1
            THEN /\ readp' = readp + 1 /\ UNCHANGED <<cache, writep, under>>
            ELSE IF under < ntok
                 THEN /\ under' = under + 1 /\ cache' = Append(cache, under + 1)
                      /\ readp' = readp + 1 /\ writep' = writep + 1
                 ELSE UNCHANGED <<cache, readp, writep, under>>
NextRes == [op |-> "next", ok |-> pos < ntok, tok |-> IF pos < ntok THEN pos + 1 ELSE 0]
DoNext == /\ NextEnabled /\ NextAbs /\ NextImpl /\ UNCHANGED <<ntok, haserr, snaps, ptrs>>
DoSnapshot == /\ snaps' = Append(snaps, pos) /\ ptrs' = Append(ptrs, readp)
              /\ UNCHANGED <<ntok, haserr, pos, cache, readp, writep, under>>
DoRollback == /\ Len(snaps) > 0
              /\ pos' = Last(snaps) /\ snaps' = Front(snaps)
              /\ readp' = Last(ptrs) /\ ptrs' = Front(ptrs)
              /\ UNCHANGED <<ntok, haserr, cache, writep, under>>
DoCommit == /\ Len(snaps) > 0
            /\ snaps' = Front(snaps) /\ ptrs' = Front(ptrs)
            /\ UNCHANGED <<ntok, haserr, pos, cache, readp, writep, under>>

CoreNext == DoNext \/ DoSnapshot \/ DoRollback \/ DoCommit

\* refinement mapping and fresh-scan equivalence
Refines == /\ pos = readp + 1
           /\ Len(snaps) = Len(ptrs) /\ \A i \in DOMAIN ptrs : snaps[i] = ptrs[i] + 1
           /\ writep = Len(cache) /\ under = writep
           /\ \A i \in DOMAIN cache : cache[i] = i        \* the cache is a prefix of the fresh scan
           /\ readp < writep
FreshScan == pos > 0 => cache[readp + 1] = pos           \* Token() returns T[pos]
SnapsInRange == \A i \in DOMAIN snaps : 0 <= snaps[i] /\ snaps[i] <= ntok
=============================================================================
