------------------------------ MODULE Bytecode ------------------------------
(* Instruction encoding (property C15).  A 64-bit instruction word is modelled as four 16-bit *)
(* limbs <<h, a2, a1, a0>>: h = opcode(7 bits) | src2 kind(3) | src1 kind(3) | src0 kind(3),   *)
(* aN = operand N (address, offset or immediate) in two's complement.  This is an exact         *)
(* re-encoding of the word, within TLC's 32-bit integers.  Function values are three fields:    *)
(* parameter count (16), local count (16), entry (32, as two limbs).                            *)
(* Intended contract: EncodeSrc admits exactly the addresses the decoder returns unchanged      *)
(* (-32768..32767) and refuses the rest; composing operands by OR into zero fields changes no   *)
(* other field; the temp flag never collides with another opcode.                               *)
(* Address-space accounting of a session (Accounting): what the compiler must address for a     *)
(* script shape of a given size, hence whether it must work or be refused.                      *)
EXTENDS BytecodeEnc, TLC, Json, FiniteSets
\* composing fields by OR (recursive, hence outside BytecodeEnc, which TLAPS also reads)
RECURSIVE BitOr(_, _, _)
BitOr(a, b, n) == IF n = 0 THEN 0 ELSE (IF (a % 2) + (b % 2) > 0 THEN 1 ELSE 0) + 2 * BitOr(a \div 2, b \div 2, n - 1)
Or16(a, b) == BitOr(a, b, 16)
OrW(x, y) == [i \in 1..4 |-> Or16(x[i], y[i])]
-----------------------------------------------------------------------------
(* Model checking harness: each initial state is one vector *)
CONSTANT AddrSet      \* "quick" | "thorough"
Addrs == IF AddrSet = "quick"
         THEN (-65537..-65534) \cup (-32770..-32766) \cup (-2..2) \cup (32765..32770) \cup (65534..65537)
         ELSE (-66000..-65000) \cup (-33300..-32200) \cup (-600..600) \cup (32200..33300) \cup (65000..66000)
Ops == {0, 1, 3, 27, 42, 63, 65, 88, 127}
VARIABLES kind, v, done
vars == <<kind, v, done>>
Init ==
  /\ done = FALSE
  /\ \/ kind = "operand" /\ v \in (IF AddrSet = "quick"
                                    THEN [op : Ops, sel : 0..2, k : 0..7, addr : Addrs, ok : {0, 5}, oaddr : {0, -1, 32767, -32768}]
                                    ELSE [op : {1, 27, 127}, sel : 0..2, k : 0..7, addr : Addrs, ok : {5}, oaddr : {-1, 32767}])
     \/ kind = "function" /\ v \in [entry : {0, 1, 65535, 65536, 65537, 1000000}, params : {0, 1, 2, 255, 256, 65535}, locals : {0, 1, 130, 32767, 32768, 65535}]
Word == LET other == EncodeSrc((v.sel + 1) % 3, v.ok, v.oaddr) IN OrW(OrW(New(v.op), EncodeSrc(v.sel, v.k, v.addr)), other)
Next ==
  /\ ~done /\ done' = TRUE /\ UNCHANGED <<kind, v>>
  /\ IF kind = "operand"
     THEN PrintT("OBS " \o ToJson([kind |-> kind, v |-> v, admit |-> Admit(v.addr), w |-> Word]))
     ELSE PrintT("OBS " \o ToJson([kind |-> kind, v |-> v, admit |-> FunAdmit(v.entry, v.params, v.locals), w |-> NewFunction(v.entry, v.params, v.locals)]))
Spec == Init /\ [][Next]_vars

\* an admitted operand decodes to what was encoded, and leaves every other field of the word alone
RoundTrip == (kind = "operand" /\ Admit(v.addr)) =>
  LET w == Word osel == (v.sel + 1) % 3 tsel == (v.sel + 2) % 3 IN
  /\ SrcAddr(w, v.sel) = v.addr /\ Src(w, v.sel) = v.k
  /\ SrcAddr(w, osel) = v.oaddr /\ Src(w, osel) = v.ok
  /\ SrcAddr(w, tsel) = 0 /\ Src(w, tsel) = 0
  /\ OpCode(w) = v.op % 128
\* an operand outside the admitted range would decode to a different address in this encoding: it must be refused
\* (the replay accepts an implementation that admits more, as long as what it admits round-trips)
OutOfRangeWraps == (kind = "operand" /\ ~Admit(v.addr)) => SrcAddr(Word, v.sel) # v.addr
FunctionRoundTrip == (kind = "function" /\ FunAdmit(v.entry, v.params, v.locals)) =>
  ToFunction(NewFunction(v.entry, v.params, v.locals)) = [entry |-> v.entry, params |-> v.params, locals |-> v.locals]
\* the temp flag maps the opcodes that have a TMP form to distinct codes outside the base opcodes
TempFlagDistinct == \A a \in TempOps : (a + TempFlag) \notin BaseOps /\ OpCode(New(a + TempFlag)) = a + TempFlag
                    /\ \A b \in TempOps : (a # b) => (a + TempFlag # b + TempFlag)

-----------------------------------------------------------------------------
(* Address-space accounting: the largest data-segment index, jump distance and local index a    *)
(* script shape of size n needs, given the sizes ds0 (data segment after loading the built-ins) *)
(* Shapes: "globals" n statements x = <literal> (one global-name entry and one literal per       *)
(* statement); "locals" a function with n distinct local assignments and one literal each;      *)
(* "jump" a function whose body is n statements l = 1 (the literal function value is skipped by *)
(* a jump over the body: distance about n)                                                      *)
MaxDS(shape, n, ds0) == CASE shape = "globals" -> ds0 + 2 * n + 1
                          [] shape = "locals" -> ds0 + n + 3
                          [] shape = "jump" -> ds0 + n + 3
                          [] shape = "refused-then-continue" -> ds0 + n + 12
                          [] shape = "longjump" -> ds0 + 12
                          [] shape \in {"deepfor", "widefor"} -> ds0 + 4 * n + 12
                          [] shape = "manyparams" -> ds0 + 12
MaxLocal(shape, n) == IF shape = "locals" THEN n - 1 ELSE IF shape = "refused-then-continue" THEN n ELSE IF shape = "jump" THEN 0 ELSE -1
\* parameters that are never read need no operand address; only the function value's 16-bit count fields bound them (FunAdmit)
MaxJump(shape, n) == IF shape \in {"locals", "jump", "refused-then-continue", "longjump"} THEN n + 2 ELSE 2
\* What the property demands does not depend on how economically a compiler uses the address space: a script needing at most
\* half of every limit under this accounting must work; one whose number of distinct locals cannot be addressed at all must be
\* refused; in between (and wherever a more economical compiler could fit the script) either outcome is right, provided an
\* accepted script computes the right values.  Overflows is the accounting of the current compiler, reported for information.
MaxCount(shape, n) == IF shape = "manyparams" THEN n ELSE 0     \* what the function value's 16-bit count fields must hold
MustWork(shape, n, ds0) == 2 * MaxDS(shape, n, ds0) < W \div 2 /\ 2 * MaxLocal(shape, n) < W \div 2 /\ 2 * MaxJump(shape, n) < W \div 2 /\ 2 * MaxCount(shape, n) < W
MustRefuse(shape, n, ds0) == MaxLocal(shape, n) >= W \div 2
Overflows(shape, n, ds0) == MaxDS(shape, n, ds0) - 4 >= W \div 2 \/ MaxLocal(shape, n) >= W \div 2 \/ MaxJump(shape, n) - 4 >= W \div 2 \/ MaxCount(shape, n) >= W
=============================================================================
