------------------------------ MODULE CalcEnum ------------------------------
(* Bounded families of calc programs as TLA+ sets (enumeration side of the session checks):      *)
(* expressions of depth <= 1 over nine atoms and all operators, each placed in every embedding     *)
(* context of DESIGN.md Appendix C.  TLC enumerates the product (one initial state per             *)
(* (expression, context) pair) and prints each session as JSON; the harness runs them through the  *)
(* real pipeline and CalcSem judges the recorded observations.  The syntax-tree records are the    *)
(* ones CalcSem reads.                                                                             *)
EXTENDS Integers, Sequences, TLC, Json, FiniteSets

CONSTANTS SliceK, SliceN    \* keep expressions whose index mod SliceN = SliceK (quick tiers enumerate a slice)

I(v) == [t |-> "int", v |-> v]
Nm(n) == [t |-> "name", n |-> n]
Fl(n, e) == [t |-> "float", v |-> [c |-> "fin", neg |-> FALSE, n |-> n, e |-> e]]
St(cs) == [t |-> "str", v |-> cs]
Bo(b) == [t |-> "bool", v |-> b]
Lst(es) == [t |-> "list", e |-> es]
Bin(op, l, r) == [t |-> "bin", op |-> op, l |-> l, r |-> r]
Un(op, x) == [t |-> "un", op |-> op, x |-> x]
Ix1(a, i) == [t |-> "ix1", a |-> a, i |-> i]
Ix2(a, i, j) == [t |-> "ix2", a |-> a, i |-> i, j |-> j]
Call(n, as) == [t |-> "call", name |-> Nm(n), args |-> as]
Asg(n, e) == [t |-> "assign", tgt |-> Nm(n), e |-> e]
Fn(ps, b) == [t |-> "fn", params |-> ps, body |-> b]
Blk(ss) == [t |-> "block", ss |-> ss]
If(c, a) == [t |-> "if", c |-> c, th |-> a]
IfE(c, a, b) == [t |-> "ifelse", c |-> c, th |-> a, el |-> b]
Wh(c, b) == [t |-> "while", c |-> c, body |-> b]
For(vs, its, b) == [t |-> "for", vars |-> [i \in 1..Len(vs) |-> Nm(vs[i])], iters |-> its, body |-> b]
Ret(e) == [t |-> "ret", e |-> e]
Yld(e) == [t |-> "yield", e |-> e]

Prelude == << Asg("x", I(1)), Asg("a", Lst(<<I(1), I(2), I(3)>>)), Asg("f", Fn(<<"n">>, Bin("+", Bin("-", Bin("*", Nm("n"), I(2)), Nm("n")), I(1)))), Asg("id", Fn(<<"v">>, Nm("v"))) >>
Atoms == << I(2), Nm("x"), Fl(3, 1), St(<<"a">>), Lst(<<I(1), I(2)>>), Call("f", <<I(1)>>), Nm("u"), Bo(TRUE), Nm("a") >>
BinOps == <<"+", "-", "*", "/", "%", "==", "<", "&", "|", "<<">>
UnOps == <<"-", "#", "!", "~">>
NA == Len(Atoms)
\* expressions of depth <= 1, as a sequence (so that slices are reproducible)
Exprs ==
  Atoms
  \o [k \in 1..(Len(BinOps) * NA * NA) |-> LET o == (k - 1) \div (NA * NA)  l == ((k - 1) \div NA) % NA  r == (k - 1) % NA IN Bin(BinOps[o + 1], Atoms[l + 1], Atoms[r + 1])]
  \o [k \in 1..(Len(UnOps) * NA) |-> Un(UnOps[(k - 1) \div NA + 1], Atoms[((k - 1) % NA) + 1])]
  \o [k \in 1..(3 * NA) |-> LET a == Atoms[((k - 1) % NA) + 1] IN
        CASE (k - 1) \div NA = 0 -> Ix1(a, I(0)) [] (k - 1) \div NA = 1 -> Ix1(Nm("a"), a) [] OTHER -> Ix2(a, I(0), I(1))]
Counted(body) == Blk(<<Asg("k", I(0)), Wh(Bin("<", Nm("k"), I(2)), Blk(<<Asg("k", Bin("+", Nm("k"), I(1))), body>>))>>)
FromTo02 == Call("fromto", <<I(0), I(2)>>)
\* embedding contexts: name and items
Contexts(e) == <<
  [n |-> "top", it |-> <<e>>],
  [n |-> "midblock", it |-> << Blk(<<e, I(0)>>) >>],
  [n |-> "lastblock", it |-> << Blk(<<I(0), e>>) >>],
  [n |-> "fntail", it |-> << Asg("g", Fn(<<>>, e)), Call("g", <<>>) >>],
  [n |-> "fnmid", it |-> << Asg("g", Fn(<<>>, Blk(<<e, I(0)>>))), Call("g", <<>>) >>],
  [n |-> "fnret", it |-> << Asg("g", Fn(<<>>, Blk(<<Ret(e), I(0)>>))), Call("g", <<>>) >>],
  [n |-> "topret", it |-> << Ret(e) >>],
  [n |-> "arg", it |-> << Call("id", <<e>>) >>],
  [n |-> "assign", it |-> << Asg("t", e), Nm("t") >>],
  [n |-> "fnassign", it |-> << Asg("g", Fn(<<>>, Blk(<<Asg("t", e), Nm("t")>>))), Call("g", <<>>) >>],
  [n |-> "elem", it |-> << Lst(<<e>>) >>],
  [n |-> "elem2", it |-> << Lst(<<Nm("x"), e>>) >>],
  [n |-> "opl", it |-> << Bin("==", e, e) >>],
  [n |-> "ifcond", it |-> << If(e, I(5)) >>],
  [n |-> "ifcondmid", it |-> << Blk(<<If(e, I(5)), I(0)>>) >>],
  [n |-> "whilecond", it |-> << Asg("g", Fn(<<>>, Wh(e, Ret(I(5))))), Call("g", <<>>) >>],
  [n |-> "ifbody", it |-> << If(Bo(TRUE), e) >>],
  [n |-> "ifbodymid", it |-> << Blk(<<If(Bo(TRUE), e), I(0)>>) >>],
  [n |-> "ifelsefn", it |-> << Asg("g", Fn(<<"p">>, IfE(Bin("<", Nm("p"), I(1)), e, I(9)))), Call("g", <<I(0)>>), Call("g", <<I(5)>>) >>],
  [n |-> "whilebody", it |-> << Counted(e) >>],
  [n |-> "whilebodyfn", it |-> << Asg("g", Fn(<<>>, Counted(e))), Call("g", <<>>) >>],
  [n |-> "forbody", it |-> << For(<<"i">>, <<FromTo02>>, e) >>],
  [n |-> "forbodymid", it |-> << Blk(<<For(<<"i">>, <<FromTo02>>, e), I(0)>>) >>],
  [n |-> "forbodyfn", it |-> << Asg("g", Fn(<<>>, For(<<"i">>, <<FromTo02>>, e))), Call("g", <<>>) >>],
  [n |-> "foriter", it |-> << For(<<"i">>, <<Call("elems", <<Lst(<<e>>)>>)>>, Nm("i")) >>],
  [n |-> "yield", it |-> << Asg("g", Fn(<<>>, Yld(e))), For(<<"i">>, <<Call("g", <<>>)>>, Nm("i")) >>],
  [n |-> "nakedyield", it |-> << Yld(e) >>],
  [n |-> "write", it |-> << Call("write", <<e>>) >>],
  [n |-> "indexed", it |-> << Ix1(Lst(<<e>>), I(0)) >> ]
>>
NC == 29

VARIABLES ei, ci, done
vars == <<ei, ci, done>>
Init == /\ ei \in {k \in 1..Len(Exprs) : k % SliceN = SliceK} /\ ci \in 1..NC /\ done = FALSE
Next == /\ ~done /\ done' = TRUE /\ UNCHANGED <<ei, ci>>
        /\ LET c == Contexts(Exprs[ei])[ci] IN
           PrintT("SESSION " \o ToJson([e |-> ei, ctx |-> c.n, items |-> Prelude \o c.it]))
Spec == Init /\ [][Next]_vars
\* sanity: the context table has NC rows and every expression index is in range
TableOK == Len(Contexts(I(0))) = NC
=============================================================================
