---------------------------- MODULE TLexerTrace ----------------------------
(* Trace validation for TLexer.tla: operation traces recorded from the real parser   *)
(* (and from combinator terms) running over a recording RollbackLexer wrapper around  *)
(* lexer.TLexer are accepted iff every recorded operation is the TLexer action of     *)
(* that name and every recorded Next() result (ok, index of the returned token in the *)
(* fresh scan) is the one the specification computes.  Traces are concatenated; a     *)
(* rejected trace prints one TRACE-REJECTED line and validation continues with the    *)
(* next one.  Refines / FreshScan are checked as invariants at every step.            *)
EXTENDS TLexer
CONSTANT TraceFile
Traces == ndJsonDeserialize(TraceFile)     \* [id, n, err, ops : Seq([op, ok, tok])]
VARIABLES ti, l, rejected
tvars == <<vars, ti, l, rejected>>

Fresh(t) == /\ ntok' = t.n /\ haserr' = t.err /\ pos' = 0 /\ snaps' = <<>>
            /\ cache' = <<>> /\ readp' = -1 /\ writep' = 0 /\ ptrs' = <<>> /\ under' = 0 /\ hist' = <<>>
TraceInit == /\ ti = 1 /\ l = 1 /\ rejected = 0
             /\ ntok = Traces[1].n /\ haserr = Traces[1].err /\ pos = 0 /\ snaps = <<>>
             /\ cache = <<>> /\ readp = -1 /\ writep = 0 /\ ptrs = <<>> /\ under = 0 /\ hist = <<>>
Ops == Traces[ti].ops
Advance == l' = l + 1 /\ ti' = ti /\ rejected' = rejected /\ hist' = hist
NextTrace(rej) ==
  /\ rejected' = rejected + rej
  /\ IF ti < Len(Traces) THEN ti' = ti + 1 /\ l' = 1 /\ Fresh(Traces[ti + 1])
     ELSE ti' = ti + 1 /\ l' = 1 /\ UNCHANGED vars
Reject(why) ==
  /\ PrintT("TRACE-REJECTED " \o ToJson([id |-> Traces[ti].id, at |-> l, why |-> why, event |-> IF l <= Len(Ops) THEN Ops[l] ELSE [op |-> "end", ok |-> TRUE, tok |-> 0], pos |-> pos, snaps |-> snaps]))
  /\ NextTrace(1)
Event ==
  /\ ti <= Len(Traces) /\ l <= Len(Ops)
  /\ LET e == Ops[l] IN
     CASE e.op = "next" -> IF ~NextEnabled THEN Reject("Next() after a lexer error is not specified")
                           ELSE IF NextRes.ok # e.ok \/ NextRes.tok # e.tok THEN Reject("Next() result differs from the fresh scan at the restored position")
                           ELSE DoNext /\ Advance
       [] e.op = "snap" -> DoSnapshot /\ Advance
       [] e.op = "rollback" -> IF Len(snaps) = 0 THEN Reject("Rollback without a snapshot") ELSE DoRollback /\ Advance
       [] e.op = "commit" -> IF Len(snaps) = 0 THEN Reject("Commit without a snapshot") ELSE DoCommit /\ Advance
       [] OTHER -> Reject("unknown operation")
EndOfTrace ==
  /\ ti <= Len(Traces) /\ l = Len(Ops) + 1
  /\ IF Len(snaps) # 0 THEN Reject("snapshots left open at the end of the parse") ELSE NextTrace(0)
Finished ==
  /\ ti = Len(Traces) + 1 /\ l = 1
  /\ l' = 2 /\ UNCHANGED <<vars, ti, rejected>>
  /\ PrintT("TRACES-DONE " \o ToJson([traces |-> Len(Traces), rejected |-> rejected]))
TraceNext == Event \/ EndOfTrace \/ Finished
TraceSpec == TraceInit /\ [][TraceNext]_tvars
TraceInv == ti <= Len(Traces) => (Refines /\ FreshScan /\ SnapsInRange)
=============================================================================
