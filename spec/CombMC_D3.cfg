SPECIFICATION Spec
CONSTANT Depth = 3
CONSTANT MaxLen = 4
INVARIANTS Balanced RestoringFails AgreesWithPeg
CHECK_DEADLOCK FALSE
