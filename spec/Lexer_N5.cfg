SPECIFICATION Spec
CONSTANT N = 5
CONSTANT Alpha = {"d", "l", "s", "b", "q", "k", "w", "n", "c", "p", "x"}
INVARIANTS Bounded AgreesWithTokens Spans Ordered NonEmpty GapsBlank KindOK EndMarkers LayoutInsensitive
CHECK_DEADLOCK FALSE
