SPECIFICATION Spec
CONSTANTS MaxOps = 4
Widths = {1, 130, 141, 300}
Bursts = {126, 127, 128, 255, 256}
Fam = {"stack", "frame"}
Deep = FALSE
INVARIANT FramesDistinct
CHECK_DEADLOCK FALSE
