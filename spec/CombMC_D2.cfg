SPECIFICATION Spec
CONSTANT Depth = 2
CONSTANT MaxLen = 3
INVARIANTS Balanced RestoringFails AgreesWithPeg
CHECK_DEADLOCK FALSE
