------------------------------ MODULE TLexer ------------------------------
(* The transactional lexer (property C13, first half): TLexerCore (state, actions,  *)
(* invariants) with the recorded history of operations and their results, which TLC *)
(* prints for replay on lexer.TLexer.                                               *)
EXTENDS TLexerCore, TLC, Json

CONSTANTS MaxOps     \* history length bound for exhaustive exploration
VARIABLES hist
vars == <<ntok, haserr, pos, snaps, cache, readp, writep, ptrs, under, hist>>

Init == CoreInit /\ hist = <<>>

Rec(o) == hist' = Append(hist, o)
Next_ == Len(hist) < MaxOps /\ DoNext /\ Rec(NextRes)
Snapshot == Len(hist) < MaxOps /\ DoSnapshot /\ Rec([op |-> "snap", ok |-> TRUE, tok |-> 0])
Rollback == Len(hist) < MaxOps /\ DoRollback /\ Rec([op |-> "rollback", ok |-> TRUE, tok |-> 0])
Commit == Len(hist) < MaxOps /\ DoCommit /\ Rec([op |-> "commit", ok |-> TRUE, tok |-> 0])
\* a maximal history is printed for replay on lexer.TLexer
Emit == /\ Len(hist) = MaxOps /\ Rec([op |-> "end", ok |-> TRUE, tok |-> 0])
        /\ PrintT("OBS " \o ToJson([n |-> ntok, err |-> haserr, h |-> hist]))
        /\ UNCHANGED <<ntok, haserr, pos, snaps, cache, readp, writep, ptrs, under>>
Next == Next_ \/ Snapshot \/ Rollback \/ Commit \/ Emit
Spec == Init /\ [][Next]_vars

View == <<ntok, haserr, pos, snaps, cache, readp, writep, ptrs, under, Len(hist)>>
=============================================================================
