------------------------------- MODULE Lexer -------------------------------
(* The calc lexer over character classes (properties C14, C06).                     *)
(*   d digit, l lower-case letter, s operator ("sticky") character, b bracket /     *)
(*   comma / colon ("non-sticky"), q double quote, k backslash, w blank, n newline, *)
(*   c semicolon (comment start), p dot, x any other character (incl. non-ASCII).   *)
(* Two descriptions: the state machine (one Step per loop iteration of              *)
(* lexer.Lexer.Next, with the *intended* end-of-input rules: a comment ends at end  *)
(* of input, a string that reaches it is an error) and the declarative tokenisation *)
(* Tokens(inp) by maximal munch.  TLC checks that they agree on every string up to  *)
(* the bound, the faithfulness invariants of C14, termination (as a step bound and  *)
(* as liveness) and layout insensitivity.                                           *)
EXTENDS Integers, Sequences, TLC, FiniteSets, Json

CONSTANTS N,        \* maximal input length
          Alpha     \* character classes used
RECURSIVE Strs(_)
Strs(n) == IF n = 0 THEN {<<>>} ELSE Strs(n - 1) \cup {Append(s, a) : s \in {t \in Strs(n - 1) : Len(t) = n - 1}, a \in Alpha}

VARIABLES inp, from, to, st, toks, steps, err
vars == <<inp, from, to, st, toks, steps, err>>

Init == inp \in Strs(N) /\ from = 0 /\ to = 0 /\ st = "ws" /\ toks = <<>> /\ steps = 0 /\ err = FALSE

Ch == IF to >= Len(inp) THEN "eof" ELSE inp[to + 1]
Sz == IF to >= Len(inp) THEN 0 ELSE 1
\* the state entered on character c after a token or blank (newSTR in states.go)
NewState(c) == CASE c = "w" -> "ws" [] c = "c" -> "comment" [] c = "n" -> "eol" [] c = "eof" -> "eof"
                 [] c = "d" -> "int" [] c = "l" -> "var" [] c = "q" -> "str" [] c = "b" -> "ns" [] c = "s" -> "sticky"
                 [] OTHER -> "ERR"
Emit(typ, nxt) == /\ toks' = Append(toks, <<typ, from, to>>) /\ st' = nxt /\ from' = to /\ to' = to + Sz
Adv(nxt, doadv) == /\ toks' = toks /\ st' = nxt /\ from' = (IF doadv THEN to ELSE from) /\ to' = to + Sz
Fail == /\ err' = TRUE /\ UNCHANGED <<from, to, st, toks>>
Finished == from = Len(inp) /\ to = Len(inp)

Step ==
  /\ ~err /\ ~Finished /\ st \notin {"done", "emitted"}
  /\ steps' = steps + 1 /\ UNCHANGED inp
  /\ LET c == Ch IN
     CASE st = "ws" -> (IF NewState(c) = "ERR" THEN Fail ELSE Adv(NewState(c), TRUE) /\ UNCHANGED err)
       [] st = "comment" -> (IF c = "n" THEN Adv("eol", TRUE) ELSE IF c = "eof" THEN Adv("eof", TRUE) ELSE Adv("comment", FALSE)) /\ UNCHANGED err
       [] st = "int" -> (IF c = "d" THEN Adv("int", FALSE) /\ UNCHANGED err ELSE IF c = "p" THEN Adv("float", FALSE) /\ UNCHANGED err
                         ELSE IF NewState(c) = "ERR" THEN Fail ELSE Emit("Int", NewState(c)) /\ UNCHANGED err)
       [] st = "float" -> (IF c = "d" THEN Adv("float", FALSE) /\ UNCHANGED err
                         ELSE IF NewState(c) = "ERR" THEN Fail ELSE Emit("Float", NewState(c)) /\ UNCHANGED err)
       [] st = "var" -> (IF c = "l" THEN Adv("var", FALSE) /\ UNCHANGED err
                         ELSE IF NewState(c) = "ERR" THEN Fail ELSE Emit("Name", NewState(c)) /\ UNCHANGED err)
       [] st = "str" -> (IF c = "q" THEN Adv("strend", FALSE) /\ UNCHANGED err ELSE IF c = "k" THEN Adv("esc", FALSE) /\ UNCHANGED err
                         ELSE IF c = "eof" THEN Fail ELSE Adv("str", FALSE) /\ UNCHANGED err)
       [] st = "esc" -> (IF c = "eof" THEN Fail ELSE Adv("str", FALSE) /\ UNCHANGED err)
       [] st = "strend" -> (IF NewState(c) = "ERR" THEN Fail ELSE Emit("Str", NewState(c)) /\ UNCHANGED err)
       [] st = "ns" -> (IF NewState(c) = "ERR" THEN Fail ELSE Emit("NS", NewState(c)) /\ UNCHANGED err)
       [] st = "sticky" -> (IF c = "s" THEN Adv("sticky", FALSE) /\ UNCHANGED err
                         ELSE IF NewState(c) = "ERR" THEN Fail ELSE Emit("Sticky", NewState(c)) /\ UNCHANGED err)
       [] st = "eol" -> (IF NewState(c) = "ERR" THEN Fail ELSE Emit("EOL", NewState(c)) /\ UNCHANGED err)
       [] OTHER -> Fail
\* after the input is consumed: a synthetic end-of-line unless the last token is one, then end-of-file
TailStep ==
  /\ ~err /\ Finished /\ st \notin {"done", "emitted"}
  /\ UNCHANGED <<inp, from, to, err>> /\ steps' = steps + 1
  /\ IF Len(toks) > 0 /\ toks[Len(toks)][1] = "EOL" THEN toks' = Append(toks, <<"EOF", 0, 0>>) /\ st' = "done"
     ELSE toks' = Append(toks, <<"EOL", 0, 0>>) /\ st' = st

-----------------------------------------------------------------------------
(* Declarative tokenisation by maximal munch.  Result: [toks, err, at]          *)
RECURSIVE RunEnd(_, _, _)
RunEnd(s, i, cls) == IF i < Len(s) /\ s[i + 1] \in cls THEN RunEnd(s, i + 1, cls) ELSE i      \* end of the longest run of cls starting at i
RECURSIVE StrEnd(_, _)
StrEnd(s, i) ==   \* i: position after the opening quote; returns the position after the closing quote, or -1
  IF i >= Len(s) THEN -1
  ELSE IF s[i + 1] = "q" THEN i + 1
  ELSE IF s[i + 1] = "k" THEN (IF i + 1 >= Len(s) THEN -1 ELSE StrEnd(s, i + 2))
  ELSE StrEnd(s, i + 1)
StartOK(s, i) == i >= Len(s) \/ s[i + 1] \in {"w", "c", "n", "d", "l", "q", "b", "s"}    \* what may follow a token
RECURSIVE Scan(_, _, _)
Scan(s, i, acc) ==
  IF i >= Len(s) THEN [toks |-> acc, err |-> FALSE, at |-> i]
  ELSE LET c == s[i + 1] IN
    CASE c = "w" -> Scan(s, i + 1, acc)
      [] c = "c" -> Scan(s, RunEnd(s, i, Alpha \ {"n"}), acc)
      [] c = "n" -> IF StartOK(s, i + 1) THEN Scan(s, i + 1, Append(acc, <<"EOL", i, i + 1>>)) ELSE [toks |-> acc, err |-> TRUE, at |-> i + 1]
      [] c = "d" -> LET j == RunEnd(s, i, {"d"})
                        isf == j < Len(s) /\ s[j + 1] = "p"
                        e == IF isf THEN RunEnd(s, j + 1, {"d"}) ELSE j
                    IN IF StartOK(s, e) THEN Scan(s, e, Append(acc, <<IF isf THEN "Float" ELSE "Int", i, e>>)) ELSE [toks |-> acc, err |-> TRUE, at |-> e]
      [] c = "l" -> LET e == RunEnd(s, i, {"l"}) IN
                    IF StartOK(s, e) THEN Scan(s, e, Append(acc, <<"Name", i, e>>)) ELSE [toks |-> acc, err |-> TRUE, at |-> e]
      [] c = "s" -> LET e == RunEnd(s, i, {"s"}) IN
                    IF StartOK(s, e) THEN Scan(s, e, Append(acc, <<"Sticky", i, e>>)) ELSE [toks |-> acc, err |-> TRUE, at |-> e]
      [] c = "b" -> IF StartOK(s, i + 1) THEN Scan(s, i + 1, Append(acc, <<"NS", i, i + 1>>)) ELSE [toks |-> acc, err |-> TRUE, at |-> i + 1]
      [] c = "q" -> LET e == StrEnd(s, i + 1) IN
                    IF e = -1 THEN [toks |-> acc, err |-> TRUE, at |-> Len(s)]
                    ELSE IF StartOK(s, e) THEN Scan(s, e, Append(acc, <<"Str", i, e>>)) ELSE [toks |-> acc, err |-> TRUE, at |-> e]
      [] OTHER -> [toks |-> acc, err |-> TRUE, at |-> i]
Tokens(s) ==
  LET r == Scan(s, 0, <<>>) IN
  IF r.err THEN r
  ELSE [r EXCEPT !.toks = IF Len(@) > 0 /\ @[Len(@)][1] = "EOL" THEN Append(@, <<"EOF", 0, 0>>) ELSE @ \o << <<"EOL", 0, 0>>, <<"EOF", 0, 0>> >>]

-----------------------------------------------------------------------------
EmitDone ==
  /\ (err \/ st = "done") /\ st # "emitted" /\ st' = "emitted"
  /\ PrintT("OBS " \o ToJson([inp |-> inp, toks |-> toks, err |-> err, at |-> <<from, to>>]))
  /\ UNCHANGED <<inp, from, to, toks, steps, err>>
Next == Step \/ TailStep \/ EmitDone
Spec == Init /\ [][Next]_vars /\ WF_vars(Next)

\* ---- termination
Bounded == steps <= Len(inp) + 3
Terminates == <>(err \/ st \in {"done", "emitted"})
\* ---- machine = declarative tokenisation (on completion)
AgreesWithTokens == (st = "done" \/ err) => LET t == Tokens(inp) IN t.err = err /\ (~err => t.toks = toks)
\* ---- faithfulness (C14), stated on the tokens of an accepted input
Real(i) == ~(toks[i][1] \in {"EOL", "EOF"} /\ toks[i][3] = 0 /\ toks[i][2] = 0)        \* not a synthetic end marker
Spans == \A i \in 1..Len(toks) : 0 <= toks[i][2] /\ toks[i][2] <= toks[i][3] /\ toks[i][3] <= Len(inp)
Ordered == \A i \in 1..(Len(toks) - 1) : Real(i) /\ Real(i + 1) => toks[i][3] <= toks[i + 1][2]
NonEmpty == \A i \in 1..Len(toks) : Real(i) => toks[i][2] < toks[i][3]
Blank(a, b) ==    \* inp[a..b) consists of blanks and comments only
  LET RECURSIVE Go(_, _)
      Go(i, incomment) == IF i >= b THEN TRUE
                          ELSE IF incomment THEN (inp[i + 1] # "n" /\ Go(i + 1, TRUE))
                          ELSE IF inp[i + 1] = "w" THEN Go(i + 1, FALSE)
                          ELSE IF inp[i + 1] = "c" THEN Go(i + 1, TRUE) ELSE FALSE
  IN Go(a, FALSE)
RealIdx == {i \in 1..Len(toks) : Real(i)}
GapsBlank == st = "done" =>
  /\ \A i \in RealIdx : LET prev == {j \in RealIdx : j < i} IN
        Blank(IF prev = {} THEN 0 ELSE toks[CHOOSE j \in prev : \A k \in prev : k <= j][3], toks[i][2])
  /\ LET lastEnd == IF RealIdx = {} THEN 0 ELSE toks[CHOOSE j \in RealIdx : \A k \in RealIdx : k <= j][3] IN Blank(lastEnd, Len(inp))
KindOK == \A i \in RealIdx : LET a == toks[i][2] b == toks[i][3] k == toks[i][1] IN
  CASE k = "Int" -> \A j \in (a + 1)..b : inp[j] = "d"
    [] k = "Float" -> \A j \in (a + 1)..b : inp[j] \in {"d", "p"}
    [] k = "Name" -> \A j \in (a + 1)..b : inp[j] = "l"
    [] k = "Sticky" -> (\A j \in (a + 1)..b : inp[j] = "s") /\ (b < Len(inp) => inp[b + 1] # "s") /\ (a > 0 => inp[a] # "s")
    [] k = "NS" -> b = a + 1 /\ inp[b] = "b"
    [] k = "Str" -> inp[a + 1] = "q" /\ inp[b] = "q" /\ b >= a + 2
    [] k = "EOL" -> b = a + 1 /\ inp[b] = "n"
    [] OTHER -> FALSE
EndMarkers == st = "done" =>
  /\ toks[Len(toks)][1] = "EOF" /\ toks[Len(toks) - 1][1] = "EOL"
  /\ Cardinality({i \in 1..Len(toks) : toks[i][1] = "EOF"}) = 1
  \* one EOL per line break outside strings and comments' interior, plus the final one if the text does not end in a line break
  /\ Cardinality({i \in 1..Len(toks) : toks[i][1] = "EOL" /\ Real(i)}) = Cardinality({j \in 1..Len(inp) : inp[j] = "n" /\ ~\E t \in RealIdx : toks[t][1] = "Str" /\ toks[t][2] < j /\ j <= toks[t][3]})
\* ---- layout insensitivity: a blank between two tokens, or a comment before a line break / at the end, changes no kind or text
Text(s, t) == SubSeq(s, t[2] + 1, t[3])
KT(s, ts) == [i \in 1..Len(ts) |-> <<ts[i][1], Text(s, ts[i])>>]
Insert(s, p, x) == SubSeq(s, 1, p) \o x \o SubSeq(s, p + 1, Len(s))
Boundaries == {0, Len(inp)} \cup {toks[i][2] : i \in RealIdx} \cup {toks[i][3] : i \in RealIdx}
LayoutInsensitive == st = "done" =>
  /\ \A p \in Boundaries : LET t2 == Tokens(Insert(inp, p, <<"w">>)) IN ~t2.err /\ KT(Insert(inp, p, <<"w">>), t2.toks) = KT(inp, toks)
  /\ \A p \in {q \in Boundaries : q = Len(inp) \/ inp[q + 1] = "n"} :
        LET s2 == Insert(inp, p, <<"c", "l", "q", "x">>) t2 == Tokens(s2) IN ~t2.err /\ KT(s2, t2.toks) = KT(inp, toks)
=============================================================================
