SPECIFICATION Spec
CONSTANT NToks = {2, 3, 4, 5}
CONSTANT ErrModes = {FALSE, TRUE}
CONSTANT MaxOps = 60
INVARIANTS Refines FreshScan SnapsInRange
CHECK_DEADLOCK FALSE
