SPECIFICATION Spec
CONSTANTS MaxOps = 5
Widths = {1, 130}
Bursts = {129}
Fam = {"stack", "frame", "closure"}
INVARIANT FramesDistinct
CHECK_DEADLOCK FALSE
