SPECIFICATION Spec
CONSTANT Tier = "quick"
INVARIANTS LawEqSymmetric LawNeNegation LawNilAlwaysError LawFunctionsNeverEqual LawRelConsistent LawIntEqualsFloat
  LawZeroDivision LawMixedPromotes LawPromotedIsFloat LawIntDivTruncates LawConcatLength LawSlice LawIndex LawBigOrder LawTotal
CHECK_DEADLOCK FALSE
