------------------------------ MODULE Grammar ------------------------------
(* The calc grammar (property C07).  Three parts:                                    *)
(*  1. parser.go transcribed rule by rule into combinator terms (with named          *)
(*     references for the recursion), run by the operational combinator semantics    *)
(*     over token records; Wrap and the tree builders of transformer.go.             *)
(*  2. Print: the documented-grammar printer, tree -> token sequence, using only the *)
(*     documented rules (five binary levels, left-associative, unary tighter and not *)
(*     nestable without parentheses, indexing tightest, function literals lowest,    *)
(*     statements end at a newline, braces for multi-statement bodies and to protect *)
(*     a dangling else), with two token-level layouts: redundant parentheses around  *)
(*     every subexpression, and blank lines inside blocks and array literals.        *)
(*  3. The round-trip theorem Parse(PrintTree(t, layout)) = t, checked by TLC on every   *)
(*     tree of the cases file, which also carries token lists of arbitrary texts for *)
(*     accept/reject + tree comparison with the real parser.                         *)
EXTENDS Integers, Sequences, TLC, Json, FiniteSets
CONSTANT CasesFile
Cases == ndJsonDeserialize(CasesFile)

Keywords == {"if", "else", "while", "for", "return", "yield", "true", "false"}
Ops == {"+", "-", "*", "/", "<", ">", "<=", ">=", "==", "!=", "&&", "||", "&", "|", "<<", ">>", "%", "#", "~", ":", "!"}

AccK(k) == [c |-> "acck", k |-> k]
AccV(v) == [c |-> "accv", v |-> v]
VarName == [c |-> "varname"]
OkP == [c |-> "ok"]
AndP(a, b) == [c |-> "and", a |-> a, b |-> b]
RECURSIVE SeqP(_)
SeqP(ps) == IF Len(ps) = 1 THEN ps[1] ELSE AndP(SeqP(SubSeq(ps, 1, Len(ps) - 1)), ps[Len(ps)])
OneOf(ps) == [c |-> "oneof", ps |-> ps]
Cond(g, s) == [g |-> g, s |-> s]
Choose(cs) == [c |-> "choose", cs |-> cs]
AnyP(g, s) == [c |-> "any", g |-> g, s |-> s]
SepBy(a, b) == [c |-> "sepby", a |-> a, b |-> b]
Surr(a, b, cc) == [c |-> "surr", a |-> a, b |-> b, cc |-> cc]
AssertP(p) == [c |-> "assert", p |-> p]
NotP(p) == [c |-> "not", p |-> p]
Drop(p) == [c |-> "drop", p |-> p]
Fmap(f, p) == [c |-> "fmap", f |-> f, p |-> p]
Ref(n) == [c |-> "ref", n |-> n]

\* ---- the grammar
Eol == Fmap("none", AccK("EOL"))
Eols == AnyP(Eol, OkP)
Eols1 == AndP(Eol, Eols)
Eof == Fmap("none", AccK("EOF"))
Parameters == Fmap("mkList", Surr(AccV("("), SepBy(VarName, AccV(",")), AccV(")")))
RelOp == OneOf(<<AccV("=="), AccV("!="), AccV("<="), AccV(">="), AccV("<"), AccV(">")>>)
Chain(first, op, next) == Fmap("mkLeftChain", AndP(first, AnyP(op, next)))
G(n) ==
  CASE n = "paren" -> Surr(AccV("("), Ref("expression"), AccV(")"))
    [] n = "arrayLit" -> Fmap("mkList", Surr(AndP(AccV("["), Eols), SepBy(Ref("expression"), AndP(AccV(","), Eols)), AccV("]")))
    [] n = "atom" -> Choose(<<Cond(AssertP(AndP(Parameters, AccV("->"))), Ref("function")),
                              Cond(AssertP(AndP(VarName, AccV("("))), Ref("call")),
                              Cond(AccK("Float"), OkP), Cond(AccK("Int"), OkP),
                              Cond(AccV("true"), OkP), Cond(AccV("false"), OkP), Cond(AccK("Str"), OkP),
                              Cond(AssertP(AccV("[")), Ref("arrayLit")), Cond(AssertP(AccV("(")), Ref("paren")),
                              Cond(OkP, VarName)>>)
    [] n = "index" -> Fmap("mkIndex", AndP(Ref("atom"),
                         AnyP(AssertP(AccV("[")),
                              Fmap("mkLeftChain", Surr(AccV("["),
                                   AndP(Ref("expression"), Choose(<<Cond(AccV(":"), Ref("expression")), Cond(OkP, OkP)>>)),
                                   AccV("]"))))))
    [] n = "unary" -> OneOf(<<Fmap("mkUnaryOp", AndP(OneOf(<<AccV("-"), AccV("#"), AccV("!"), AccV("~")>>), Ref("index"))), Ref("index")>>)
    [] n = "divmul" -> Chain(Ref("unary"), OneOf(<<AccV("*"), AccV("/"), AccV("%"), AccV("<<"), AccV(">>")>>), Ref("unary"))
    [] n = "addsub" -> Chain(Ref("divmul"), OneOf(<<AccV("+"), AccV("-")>>), Ref("divmul"))
    [] n = "logic" -> Chain(Ref("addsub"), OneOf(<<AccV("&"), AccV("|")>>), Ref("addsub"))
    [] n = "relational" -> Chain(Ref("logic"), RelOp, Ref("logic"))
    [] n = "expression" -> Chain(Ref("relational"), OneOf(<<AccV("&&"), AccV("||")>>), Ref("relational"))
    [] n = "assignment" -> Fmap("mkAssign", SeqP(<<VarName, AccV("="), Ref("expression")>>))
    [] n = "statement" -> Choose(<<Cond(AssertP(AccV("if")), Ref("conditional")), Cond(AssertP(AccV("while")), Ref("whileLoop")),
                                   Cond(AssertP(AccV("for")), Ref("forLoop")), Cond(AssertP(AccV("return")), Ref("returning")),
                                   Cond(AssertP(AccV("yield")), Ref("yield")),
                                   Cond(AssertP(AndP(VarName, AccV("="))), Ref("assignment")),
                                   Cond(OkP, Ref("expression"))>>)
    [] n = "conditional" -> Fmap("mkIf", SeqP(<<AccV("if"), Ref("expression"), Ref("block"),
                                  Choose(<<Cond(AccV("else"), Ref("block")), Cond(OkP, OkP)>>)>>))
    [] n = "whileLoop" -> Fmap("mkWhile", SeqP(<<AccV("while"), Ref("expression"), Ref("block")>>))
    [] n = "forLoop" -> Fmap("mkFor", SeqP(<<AccV("for"),
                             Fmap("mkList", AndP(VarName, AnyP(Drop(AccV(",")), VarName))),
                             AccV("<-"),
                             Fmap("mkList", AndP(Ref("expression"), AnyP(Drop(AccV(",")), Ref("expression")))),
                             Ref("block")>>))
    [] n = "returning" -> Fmap("mkReturn", AndP(AccV("return"), Ref("expression")))
    [] n = "yield" -> Fmap("mkYield", AndP(AccV("yield"), Ref("expression")))
    [] n = "function" -> Fmap("mkFunction", SeqP(<<Parameters, AccV("->"), Ref("block")>>))
    [] n = "call" -> Fmap("mkFCall", AndP(VarName, Ref("arguments")))
    [] n = "arguments" -> Fmap("mkList", Surr(AccV("("), SepBy(Ref("expression"), AccV(",")), AccV(")")))
    [] n = "statements" -> AndP(Ref("statement"),
                               AnyP(AssertP(AndP(Eols1, NotP(AccV("}")))), AndP(Eols1, Ref("statement"))))
    [] n = "block" -> Choose(<<Cond(AssertP(AccV("{")),
                                    Fmap("mkBlock", Surr(AndP(AccV("{"), Eols1), Ref("statements"), AndP(Eols1, AccV("}"))))),
                               Cond(OkP, Ref("statement"))>>)
    [] n = "program" -> SeqP(<<AnyP(AssertP(NotP(Eol)), Ref("block")), Eols1, Eof>>)

\* ---- token wrapping and tree builders
Invalid == [t |-> "invalid"]
Wrap(tok) ==
  CASE tok.k = "Int" -> [t |-> "int", v |-> tok.lit]
    [] tok.k = "Float" -> [t |-> "float", v |-> tok.lit]
    [] tok.k = "Str" -> [t |-> "str", v |-> tok.lit]
    [] tok.k \in {"Sticky", "NS"} -> IF tok.v \in Ops THEN [t |-> "op", op |-> tok.v] ELSE Invalid
    [] tok.k = "Name" -> IF tok.v = "true" THEN [t |-> "bool", v |-> TRUE]
                         ELSE IF tok.v = "false" THEN [t |-> "bool", v |-> FALSE] ELSE [t |-> "name", n |-> tok.v]
    [] OTHER -> Invalid
RECURSIVE LeftChain(_, _, _)
LeftChain(r, ns, i) == IF i + 1 > Len(ns) THEN r
                       ELSE LeftChain([t |-> "bin", op |-> ns[i].op, l |-> r, r |-> ns[i + 1]], ns, i + 2)
RECURSIVE MkIndex(_, _, _)
MkIndex(r, ns, i) == IF i > Len(ns) THEN r
                     ELSE IF ns[i].t = "bin" /\ ns[i].op = ":"
                          THEN MkIndex([t |-> "ix2", a |-> r, i |-> ns[i].l, j |-> ns[i].r], ns, i + 1)
                          ELSE MkIndex([t |-> "ix1", a |-> r, i |-> ns[i]], ns, i + 1)
\* builders return [ok, nodes]; mkFor and mkFunction can reject
Build(f, ns) ==
  CASE f = "none" -> [ok |-> TRUE, nodes |-> <<>>]
    [] f = "mkList" -> [ok |-> TRUE, nodes |-> << [t |-> "list", e |-> ns] >>]
    [] f = "mkLeftChain" -> [ok |-> TRUE, nodes |-> << LeftChain(ns[1], ns, 2) >>]
    [] f = "mkIndex" -> [ok |-> TRUE, nodes |-> << MkIndex(ns[1], ns, 2) >>]
    [] f = "mkUnaryOp" -> [ok |-> TRUE, nodes |-> << [t |-> "un", op |-> ns[1].op, x |-> ns[2]] >>]
    [] f = "mkAssign" -> [ok |-> TRUE, nodes |-> << [t |-> "assign", tgt |-> ns[1], e |-> ns[3]] >>]
    [] f = "mkIf" -> [ok |-> TRUE, nodes |-> << IF Len(ns) = 3 THEN [t |-> "if", c |-> ns[2], th |-> ns[3]]
                                              ELSE [t |-> "ifelse", c |-> ns[2], th |-> ns[3], el |-> ns[5]] >>]
    [] f = "mkWhile" -> [ok |-> TRUE, nodes |-> << [t |-> "while", c |-> ns[2], body |-> ns[3]] >>]
    [] f = "mkFor" -> IF Len(ns[2].e) # Len(ns[4].e) THEN [ok |-> FALSE, nodes |-> <<>>]
                      ELSE [ok |-> TRUE, nodes |-> << [t |-> "for", vars |-> ns[2].e, iters |-> ns[4].e, body |-> ns[5]] >>]
    [] f = "mkReturn" -> [ok |-> TRUE, nodes |-> << [t |-> "ret", e |-> ns[2]] >>]
    [] f = "mkYield" -> [ok |-> TRUE, nodes |-> << [t |-> "yield", e |-> ns[2]] >>]
    [] f = "mkFunction" -> IF \E i, j \in 1..Len(ns[1].e) : i < j /\ ns[1].e[i].n = ns[1].e[j].n THEN [ok |-> FALSE, nodes |-> <<>>]     \* every parameter needs a name of its own
                           ELSE [ok |-> TRUE, nodes |-> << [t |-> "fn", params |-> [i \in 1..Len(ns[1].e) |-> ns[1].e[i].n], body |-> ns[3]] >>]
    [] f = "mkFCall" -> [ok |-> TRUE, nodes |-> << [t |-> "call", name |-> ns[1], args |-> ns[2].e] >>]
    [] f = "mkBlock" -> [ok |-> TRUE, nodes |-> IF Len(ns) <= 1 THEN ns ELSE << [t |-> "block", ss |-> ns] >>]

\* ---- operational semantics (as Combinator.tla, over token records)
Last(s) == s[Len(s)]
Front(s) == SubSeq(s, 1, Len(s) - 1)
R(ok, nodes, st) == [ok |-> ok, nodes |-> nodes, st |-> st]
Snap(st) == [st EXCEPT !.snaps = Append(@, st.pos)]
Roll(st) == [pos |-> Last(st.snaps), snaps |-> Front(st.snaps)]
Comm(st) == [st EXCEPT !.snaps = Front(@)]
Matches(p, tok) == CASE p.c = "acck" -> tok.k = p.k
                     [] p.c = "accv" -> tok.v = p.v
                     [] p.c = "varname" -> tok.k = "Name" /\ tok.v \notin Keywords
RECURSIVE Run(_, _, _)
Run(p, T, st) ==
  CASE p.c = "ok" -> R(TRUE, <<>>, st)
    [] p.c = "ref" -> Run(G(p.n), T, st)
    [] p.c \in {"acck", "accv", "varname"} ->
         IF st.pos >= Len(T) THEN R(FALSE, <<>>, st)
         ELSE LET st1 == [st EXCEPT !.pos = @ + 1] tok == T[st1.pos] IN
              IF tok.k = "ERR" THEN R(FALSE, <<>>, st1)
              ELSE IF Matches(p, tok) THEN R(TRUE, <<Wrap(tok)>>, st1) ELSE R(FALSE, <<>>, st1)
    [] p.c = "and" ->
         LET a == Run(p.a, T, st) IN
         IF ~a.ok THEN a ELSE LET b == Run(p.b, T, a.st) IN R(b.ok, a.nodes \o b.nodes, b.st)
    [] p.c = "oneof" ->
         LET RECURSIVE Try(_, _)
             Try(i, s) == LET r == Run(p.ps[i], T, Snap(s)) IN
                          IF r.ok THEN R(TRUE, r.nodes, Comm(r.st))
                          ELSE IF i = Len(p.ps) THEN R(FALSE, <<>>, Roll(r.st)) ELSE Try(i + 1, Roll(r.st))
         IN Try(1, st)
    [] p.c = "choose" ->
         LET RECURSIVE Try(_, _)
             Try(i, s) == IF i > Len(p.cs) THEN [ok |-> FALSE, nodes |-> <<>>, st |-> s, panic |-> TRUE]
                          ELSE LET g == Run(p.cs[i].g, T, Snap(s)) IN
                               IF g.ok THEN LET r == Run(p.cs[i].s, T, Comm(g.st)) IN R(r.ok, g.nodes \o r.nodes, r.st)
                               ELSE Try(i + 1, Roll(g.st))
         IN Try(1, st)
    [] p.c = "any" ->
         LET RECURSIVE Loop(_, _)
             Loop(acc, s) == LET g == Run(p.g, T, Snap(s)) IN
                             IF ~g.ok THEN R(TRUE, acc, Roll(g.st))
                             ELSE LET r == Run(p.s, T, Comm(g.st)) IN
                                  IF ~r.ok THEN R(FALSE, acc, r.st) ELSE Loop(acc \o g.nodes \o r.nodes, r.st)
         IN Loop(<<>>, st)
    [] p.c = "sepby" ->
         LET a0 == Run(p.a, T, Snap(st)) IN
         IF ~a0.ok THEN R(TRUE, <<>>, Roll(a0.st))
         ELSE LET RECURSIVE Loop(_, _)
                  Loop(acc, s) == LET b == Run(p.b, T, Snap(s)) IN
                                  IF ~b.ok THEN R(TRUE, acc, Roll(b.st))
                                  ELSE LET a == Run(p.a, T, b.st) IN
                                       IF ~a.ok THEN R(TRUE, acc, Roll(a.st)) ELSE Loop(acc \o a.nodes, Comm(a.st))
              IN Loop(a0.nodes, Comm(a0.st))
    [] p.c = "surr" ->
         LET a == Run(p.a, T, st) IN
         IF ~a.ok THEN R(FALSE, <<>>, a.st)
         ELSE LET b == Run(p.b, T, a.st) IN
              IF ~b.ok THEN R(FALSE, <<>>, b.st) ELSE LET cc == Run(p.cc, T, b.st) IN R(cc.ok, b.nodes, cc.st)
    [] p.c = "assert" -> LET r == Run(p.p, T, Snap(st)) IN R(r.ok, <<>>, Roll(r.st))
    [] p.c = "not" -> LET r == Run(p.p, T, st) IN R(~r.ok, <<>>, r.st)
    [] p.c = "drop" -> LET r == Run(p.p, T, st) IN R(r.ok, <<>>, r.st)
    [] p.c = "fmap" -> LET r == Run(p.p, T, st) IN
                       IF ~r.ok THEN R(FALSE, <<>>, r.st)
                       ELSE LET b == Build(p.f, r.nodes) IN R(b.ok, b.nodes, r.st)
Parse(T) == Run(Ref("program"), T, [pos |-> 0, snaps |-> <<>>])

-----------------------------------------------------------------------------
(* The documented-grammar printer.  lay: "plain" | "parens" | "eols" *)
Tk(k, v, lit) == [k |-> k, v |-> v, lit |-> lit]
NmT(x) == Tk("Name", x, 0)
StT(x) == Tk("Sticky", x, 0)
NsT(x) == Tk("NS", x, 0)
EolT == Tk("EOL", "#eol", 0)
EofT == Tk("EOF", "#eof", 0)
StickyChars == {"+", "*", "/", "=", "<", ">", "!", "-", "&", "|", "#", "%", "~"}
OpT(x) == IF x = ":" THEN NsT(x) ELSE StT(x)
Level(op) == CASE op \in {"&&", "||"} -> 0 [] op \in {"<", ">", "<=", ">=", "==", "!="} -> 1 [] op \in {"&", "|"} -> 2
               [] op \in {"+", "-"} -> 3 [] OTHER -> 4
Paren(ts) == <<NsT("(")>> \o ts \o <<NsT(")")>>
RECURSIVE OpenIf(_)
OpenIf(n) == CASE n.t = "if" -> TRUE [] n.t = "ifelse" -> OpenIf(n.el) [] n.t \in {"while", "for"} -> OpenIf(n.body)
               [] n.t = "assign" -> OpenIf(n.e) [] n.t \in {"ret", "yield"} -> OpenIf(n.e) [] n.t = "fn" -> OpenIf(n.body)
               [] n.t = "bin" -> OpenIf(n.r) [] n.t = "un" -> OpenIf(n.x) [] OTHER -> FALSE
RECURSIVE PrE(_, _, _), PrS(_, _), PrB(_, _, _, _), PrList(_, _, _, _)
\* comma separated expressions (sep may be followed by blank lines in array literals)
PrList(es, i, lay, inArray) ==
  IF i > Len(es) THEN <<>>
  ELSE PrE(es[i], -1, lay) \o (IF i < Len(es) THEN <<NsT(",")>> \o (IF inArray /\ lay = "eols" THEN <<EolT>> ELSE <<>>) ELSE <<>>) \o PrList(es, i + 1, lay, inArray)
\* raw expression tokens and binding level of node n
Raw(n, lay) ==
  CASE n.t = "bin" -> LET L == Level(n.op) IN [lv |-> L, ts |-> PrE(n.l, L, lay) \o <<OpT(n.op)>> \o PrE(n.r, L + 1, lay)]
    [] n.t = "un" -> [lv |-> 5, ts |-> <<StT(n.op)>> \o PrE(n.x, 6, lay)]
    [] n.t = "ix1" -> [lv |-> 7, ts |-> PrE(n.a, 7, lay) \o <<NsT("[")>> \o PrE(n.i, -1, lay) \o <<NsT("]")>>]
    [] n.t = "ix2" -> [lv |-> 7, ts |-> PrE(n.a, 7, lay) \o <<NsT("[")>> \o PrE(n.i, -1, lay) \o <<NsT(":")>> \o PrE(n.j, -1, lay) \o <<NsT("]")>>]
    [] n.t = "int" -> [lv |-> 8, ts |-> <<Tk("Int", "#int", n.v)>>]
    [] n.t = "float" -> [lv |-> 8, ts |-> <<Tk("Float", "#float", n.v)>>]
    [] n.t = "str" -> [lv |-> 8, ts |-> <<Tk("Str", "#str", n.v)>>]
    [] n.t = "bool" -> [lv |-> 8, ts |-> <<NmT(IF n.v THEN "true" ELSE "false")>>]
    [] n.t = "name" -> [lv |-> 8, ts |-> <<NmT(n.n)>>]
    [] n.t = "list" -> [lv |-> 8, ts |-> <<NsT("[")>> \o (IF lay = "eols" THEN <<EolT, EolT>> ELSE <<>>) \o PrList(n.e, 1, lay, TRUE) \o <<NsT("]")>>]
    [] n.t = "call" -> [lv |-> 8, ts |-> <<NmT(n.name.n), NsT("(")>> \o PrList(n.args, 1, lay, FALSE) \o <<NsT(")")>>]
    [] n.t = "fn" -> [lv |-> -1, ts |-> <<NsT("(")>> \o
                          [i \in 1..(IF Len(n.params) = 0 THEN 0 ELSE 2 * Len(n.params) - 1) |-> IF i % 2 = 1 THEN NmT(n.params[(i + 1) \div 2]) ELSE NsT(",")]
                          \o <<NsT(")"), StT("->")>> \o PrB(n.body, <<>>, FALSE, lay)]
PrE(n, minp, lay) ==
  LET r == Raw(n, lay)
      \* redundant parentheses around every operator/index/literal subexpression (not around function literals: they are parenthesised only where required)
      r2 == IF lay = "parens" /\ n.t # "fn" THEN [lv |-> 8, ts |-> Paren(r.ts)] ELSE r
  IN IF r2.lv < minp THEN Paren(r2.ts) ELSE r2.ts
\* body position.  prev: the tokens of the expression written just before the body (<<>> when the body follows a keyword or "->").
\* A one-line body is braced only where its text would be misread: "[" and "-" continue any expression, "(" continues a variable
\* name (a call; true and false are literals, not names), and an if without else would capture a following else.
AfterVar(prev) == Len(prev) > 0 /\ prev[Len(prev)].k = "Name" /\ prev[Len(prev)].v \notin {"true", "false"}
PrB(n, prev, beforeElse, lay) ==
  IF n.t = "block"
  THEN LET RECURSIVE Sts(_)
           Sts(i) == IF i > Len(n.ss) THEN <<>> ELSE PrS(n.ss[i], lay) \o <<EolT>> \o (IF lay = "eols" THEN <<EolT>> ELSE <<>>) \o Sts(i + 1)
       IN <<NsT("{"), EolT>> \o (IF lay = "eols" THEN <<EolT>> ELSE <<>>) \o Sts(1) \o <<NsT("}")>>
  ELSE LET ts == PrS(n, lay) IN
       IF (Len(prev) > 0 /\ (ts[1].v \in {"[", "-"} \/ (ts[1].v = "(" /\ AfterVar(prev)))) \/ (beforeElse /\ OpenIf(n))
       THEN <<NsT("{"), EolT>> \o ts \o <<EolT, NsT("}")>> ELSE ts
RECURSIVE Names(_, _)
Names(vs, i) == IF i > Len(vs) THEN <<>> ELSE <<NmT(vs[i].n)>> \o (IF i < Len(vs) THEN <<NsT(",")>> ELSE <<>>) \o Names(vs, i + 1)
PrS(n, lay) ==
  CASE n.t = "assign" -> <<NmT(n.tgt.n), StT("=")>> \o PrE(n.e, -1, lay)
    [] n.t = "if" -> LET c == PrE(n.c, -1, lay) IN <<NmT("if")>> \o c \o PrB(n.th, c, FALSE, lay)
    [] n.t = "ifelse" -> LET c == PrE(n.c, -1, lay) IN <<NmT("if")>> \o c \o PrB(n.th, c, TRUE, lay) \o <<NmT("else")>> \o PrB(n.el, <<>>, FALSE, lay)
    [] n.t = "while" -> LET c == PrE(n.c, -1, lay) IN <<NmT("while")>> \o c \o PrB(n.body, c, FALSE, lay)
    [] n.t = "for" -> LET its == PrList(n.iters, 1, lay, FALSE) IN <<NmT("for")>> \o Names(n.vars, 1) \o <<StT("<-")>> \o its \o PrB(n.body, its, FALSE, lay)
    [] n.t = "ret" -> <<NmT("return")>> \o PrE(n.e, -1, lay)
    [] n.t = "yield" -> <<NmT("yield")>> \o PrE(n.e, -1, lay)
    [] n.t = "block" -> PrB(n, <<>>, FALSE, lay)
    [] OTHER -> PrE(n, -1, lay)
PrintTree(n, lay) == PrS(n, lay) \o <<EolT, EofT>>
Layouts == {"plain", "parens", "eols"}

VARIABLES ci, done, thm
vars == <<ci, done, thm>>
Init == ci \in 1..Len(Cases) /\ done = FALSE /\ thm = TRUE
\* a case is either [id, tree] (round trip) or [id, toks] (token list of an arbitrary text)
IsTree == "tree" \in DOMAIN Cases[ci]
RoundTrip(lay) == LET r == Parse(PrintTree(Cases[ci].tree, lay)) IN r.ok /\ r.nodes = <<Cases[ci].tree>> /\ r.st.snaps = <<>>
\* (deep recursive operators are evaluated inside the action, i.e. on TLC's worker threads)
Next == /\ ~done /\ done' = TRUE /\ UNCHANGED ci
        /\ IF IsTree
           THEN LET rt == [l \in Layouts |-> RoundTrip(l)] IN
                /\ thm' = \A l \in Layouts : rt[l]
                /\ PrintT("OBS " \o ToJson([id |-> Cases[ci].id, plain |-> PrintTree(Cases[ci].tree, "plain"), parens |-> PrintTree(Cases[ci].tree, "parens"),
                                             eols |-> PrintTree(Cases[ci].tree, "eols"), rt |-> rt]))
           ELSE LET r == Parse(Cases[ci].toks) IN
                /\ thm' = (r.st.snaps = <<>>)
                /\ PrintT("OBS " \o ToJson([id |-> Cases[ci].id, ok |-> r.ok, ast |-> IF r.ok THEN r.nodes ELSE <<>>, bal |-> r.st.snaps = <<>>]))
Spec == Init /\ [][Next]_vars
\* the round-trip theorem of the documented grammar on every tree of the cases file and every token-level layout;
\* for token-list cases: the parser model leaves no snapshot open
RoundTripTheorem == thm
=============================================================================
