SPECIFICATION Spec
CONSTANT MaxStmts = 2
INVARIANT EndsSane
CHECK_DEADLOCK FALSE
