SPECIFICATION Spec
CONSTANT SliceK = 0
CONSTANT SliceN = 40
INVARIANT TableOK
CHECK_DEADLOCK FALSE
