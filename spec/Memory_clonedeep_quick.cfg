SPECIFICATION Spec
CONSTANTS MaxOps = 11
Widths = {1}
Bursts = {3}
Fam = {"mini"}
Deep = TRUE
INVARIANT FramesDistinct
CHECK_DEADLOCK FALSE
