package main

// vh run: the real pipeline (Parse -> STRewrite -> ByteCode -> Run), one VM per
// session, one observation per item, recorded in the specification's encoding.

import (
	"bufio"
	"encoding/json"
	"fmt"
	"io"
	"log"
	"os"
	"runtime"
	"strings"
	"time"

	"github.com/paulsonkoly/calc/builtin"
	"github.com/paulsonkoly/calc/lexer"
	"github.com/paulsonkoly/calc/memory"
	"github.com/paulsonkoly/calc/parser"
	"github.com/paulsonkoly/calc/types/bytecode"
	"github.com/paulsonkoly/calc/types/compresult"
	"github.com/paulsonkoly/calc/types/dbginfo"
	"github.com/paulsonkoly/calc/types/node"
	"github.com/paulsonkoly/calc/types/value"
	"github.com/paulsonkoly/calc/vm"
)

type item struct {
	Src string `json:"src"`
}

type session struct {
	ID       int      `json:"id"`
	Items    []item   `json:"items"`
	Stdin    []string `json:"stdin"`
	Mode     string   `json:"mode"`     // "used" (REPL: ByteCode, Run(true)) or "discard" (file: ByteCodeNoStck, Run(false))
	Trace    bool     `json:"trace"`    // record per-instruction events
	WantAst  bool     `json:"wantast"`  // include the parser's tree
	WantRast bool     `json:"wantrast"` // include the tree after the symbol-table rewrite
	Budget   int      `json:"budget"`   // VM instructions per item
	WantBC   bool     `json:"wantbc"`   // include the decoded code and data segments and the entry of every item
	Pregrow  int      `json:"pregrow"`  // grow the main operand stack to this many slots before the first item (it never reallocates afterwards)
}

type budgetExceeded struct{ what string }

var errClasses = []struct{ prefix, cls string }{
	{"nil error", "nil"}, {"type error", "type"}, {"division by zero", "zerodiv"},
	{"index error", "index"}, {"arity mismatch", "arity"}, {"conversion error", "conversion"},
	{"read error", "read"},
}

func classOf(err error) string {
	s := err.Error()
	for _, c := range errClasses {
		if strings.HasPrefix(s, c.prefix) {
			return c.cls
		}
	}
	return "other:" + s
}

// panicSite returns the innermost function of the repository on the panicking stack.
func panicSite() string {
	pcs := make([]uintptr, 64)
	n := runtime.Callers(3, pcs)
	frames := runtime.CallersFrames(pcs[:n])
	for {
		f, more := frames.Next()
		if strings.Contains(f.Function, "paulsonkoly/calc") {
			fn := f.Function[strings.Index(f.Function, "paulsonkoly/calc/")+len("paulsonkoly/calc/"):]
			return fn
		}
		if !more {
			break
		}
	}
	return "?"
}

func normPanic(e any) string {
	s := fmt.Sprint(e)
	if i := strings.IndexByte(s, '\n'); i >= 0 {
		s = s[:i]
	}
	// drop concrete numbers so that signatures do not depend on addresses and sizes
	out := []rune{}
	prevDigit := false
	for _, c := range s {
		if c >= '0' && c <= '9' {
			if !prevDigit {
				out = append(out, 'N')
			}
			prevDigit = true
			continue
		}
		prevDigit = false
		out = append(out, c)
	}
	return strings.TrimSpace(string(out))
}

type runner struct {
	outFile, inFile *os.File
}

func (r *runner) runSession(s session) M {
	m := memory.New()
	cs := []bytecode.Type{}
	ds := []value.Type{}
	dbg := make(dbginfo.Type)
	cr := compresult.Type{CS: &cs, DS: &ds, Dbg: &dbg}
	builtin.Load(cr)
	virtM := vm.New(m, cr)
	memory.VerifMinStack = 0
	if s.Pregrow > 0 {
		for i := 0; i < s.Pregrow; i++ {
			m.Push(value.Nil)
		}
		m.ResetSP()
		memory.VerifMinStack = s.Pregrow // iterator contexts get stacks that never reallocate either
	}

	r.inFile.Truncate(0)
	r.inFile.Seek(0, 0)
	for _, l := range s.Stdin {
		r.inFile.WriteString(l)
	}
	r.inFile.Seek(0, 0)

	budget := s.Budget
	if budget == 0 {
		budget = 3000000
	}
	res := []any{}
	for _, it := range s.Items {
		r.outFile.Truncate(0)
		r.outFile.Seek(0, 0)
		o := M{}
		steps, peak := 0, 0
		var lastOp bytecode.OpCode
		lastIP := -1
		trace := [][]any{}
		vm.VerifStepTop = nil
		if s.Trace {
			// the operand a stack source would fetch, as a signature, joins the event recorded just before
			vm.VerifStepTop = func(top value.Type, ok bool) {
				if n := len(trace); n > 0 && len(trace[n-1]) == 5 {
					sig := "-"
					if ok {
						sig = valSig(top)
					}
					trace[n-1] = append(trace[n-1], sig)
				}
			}
		}
		vm.VerifStep = func(ip int, instr bytecode.Type, sp, frames, closures int, tmp value.Type) {
			steps++
			if sp > peak {
				peak = sp
			}
			lastOp, lastIP = instr.OpCode(), ip
			if s.Trace && len(trace) < 40000 {
				trace = append(trace, []any{ip, sp, frames, closures, valSig(tmp)})
			}
			if steps > budget {
				panic(budgetExceeded{"vm"})
			}
		}
		ticks, tickBudget := 0, 4*len(it.Src)+64
		lexer.VerifTick = func() {
			ticks++
			if ticks > tickBudget {
				panic(budgetExceeded{"lexer"})
			}
		}
		phase := "parse"
		csBefore := len(cs)
		dsBefore := len(ds)
		func() {
			defer func() {
				if e := recover(); e != nil {
					if b, ok := e.(budgetExceeded); ok {
						o["kind"] = "hang"
						o["where"] = b.what
						return
					}
					o["kind"] = "panic"
					o["msg"] = normPanic(e)
					o["site"] = panicSite()
					o["phase"] = phase
					if phase == "run" {
						o["op"] = lastOp.String()
					}
				}
			}()
			ast, perr := parser.Parse(it.Src)
			if perr != nil {
				o["kind"] = "perr"
				o["msg"] = perr.Message()
				o["from"], o["to"] = perr.From(), perr.To()
				return
			}
			if s.WantAst {
				a := []any{}
				for _, st := range ast {
					a = append(a, astJSON(st))
				}
				o["ast"] = a
			}
			o["nstmt"] = len(ast)
			for _, st := range ast {
				phase = "rewrite"
				st = st.STRewrite(node.SymTbl{})
				if s.WantRast {
					o["rast"] = rastJSON(st)
				}
				phase = "compile"
				if cerr := node.Compile(st, cr, s.Mode == "discard"); cerr != nil {
					o["kind"] = "cerr"
					o["msg"] = cerr.Error()
					return
				}
				phase = "run"
				v, err := virtM.Run(s.Mode != "discard")
				if err != nil {
					o["kind"] = "err"
					o["err"] = classOf(err)
					return
				}
				o["kind"] = "val"
				if s.Mode == "discard" {
					o["val"] = M{"k": "none"}
				} else {
					o["val"] = valJSON(v)
				}
			}
		}()
		r.outFile.Seek(0, 0)
		b, _ := io.ReadAll(r.outFile)
		out := string(b)
		if i := strings.Index(out, "RUNTIME ERROR"); i >= 0 {
			o["report"] = out[i:]
			out = out[:i]
		}
		o["out"] = chars(out)
		o["steps"], o["peak"] = steps, peak
		o["cs"] = []int{csBefore, len(cs)}
		o["ds"] = []int{dsBefore, len(ds)}
		if o["kind"] == "err" {
			o["failip"] = lastIP
		}
		if o["kind"] != "panic" && o["kind"] != "hang" {
			ip, live, sp, frames, closures, stackLen := virtM.VerifState()
			o["residue"] = M{"sp": sp, "frames": frames, "closures": closures, "live": live, "stacklen": stackLen, "ipgap": len(cs) - ip}
		}
		if s.Trace {
			o["trace"] = trace
		}
		res = append(res, o)
		if o["kind"] == "panic" || o["kind"] == "hang" {
			break // the machine is in an undefined state; the rest of the session is not run
		}
	}
	vm.VerifStep = nil
	lexer.VerifTick = nil
	memory.VerifMinStack = 0
	out := M{"id": s.ID, "res": res}
	if s.WantBC {
		out["bc"] = dumpBC(cs, ds)
	}
	return out
}

func cmdRun() {
	log.SetOutput(io.Discard)
	realOut := os.Stdout
	realIn := os.Stdin
	outF, err := os.CreateTemp("", "vhout")
	if err != nil {
		panic(err)
	}
	defer os.Remove(outF.Name())
	inF, err := os.CreateTemp("", "vhin")
	if err != nil {
		panic(err)
	}
	defer os.Remove(inF.Name())
	os.Stdout = outF
	os.Stdin = inF
	r := &runner{outFile: outF, inFile: inF}

	in := bufio.NewScanner(realIn)
	in.Buffer(make([]byte, 1<<20), 1<<28)
	w := bufio.NewWriter(realOut)
	defer w.Flush()
	for in.Scan() {
		var s session
		if err := json.Unmarshal(in.Bytes(), &s); err != nil {
			fmt.Fprintln(os.Stderr, "vh run: bad input line:", err)
			os.Remove(outF.Name())
			os.Remove(inF.Name())
			os.Exit(2)
		}
		ch := make(chan M, 1)
		go func() { ch <- r.runSession(s) }()
		select {
		case res := <-ch:
			emit(w, res)
		case <-time.After(60 * time.Second):
			// safety net only: budgets are the deterministic hang detector
			emit(w, M{"id": s.ID, "res": []any{M{"kind": "timeout"}}})
			w.Flush()
			os.Remove(outF.Name())
			os.Remove(inF.Name())
			os.Exit(3)
		}
	}
}

var kindNames = []string{"inv", "imm", "gbl", "lcl", "cls", "stck", "tmp", "ds"}

func bcConst(v value.Type) any {
	if f, ok := v.ToFunction(); ok {
		return M{"k": "fn", "entry": f.Node, "params": f.ParamCnt, "locals": f.LocalCnt}
	}
	j := valJSON(v)
	if m, ok := j.(M); ok && m["k"] == "str" {
		s, _ := v.ToString()
		m["s"] = s
	}
	return j
}

// dumpBC decodes the code and data segments for the intended-VM model (CalcVM.tla)
func dumpBC(cs []bytecode.Type, ds []value.Type) M {
	code := []any{}
	for _, c := range cs {
		op := c.OpCode().String()
		t := strings.HasSuffix(op, "TMP")
		if t {
			op = strings.TrimSuffix(op, "TMP")
		}
		code = append(code, M{"op": op, "t": t, "k0": kindNames[c.Src0()], "a0": c.Src0Addr(), "k1": kindNames[c.Src1()], "a1": c.Src1Addr(),
			"k2": kindNames[c.Src2()], "a2": c.Src2Addr()})
	}
	dsv := []any{}
	for _, d := range ds {
		dsv = append(dsv, bcConst(d))
	}
	return M{"code": code, "ds": dsv}
}
