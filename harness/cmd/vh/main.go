// Command vh is the Go side of the verification harness: it links the real
// packages of paulsonkoly/calc (built with -tags verif from /repo's working
// tree) and replays specification-generated behaviours on them or records
// their executions for the specifications to judge.
package main

import (
	"fmt"
	"os"
)

var cmds = map[string]func(){}

func main() {
	if len(os.Args) < 2 {
		fmt.Fprintln(os.Stderr, "usage: vh <subcommand>")
		os.Exit(2)
	}
	f, ok := cmds[os.Args[1]]
	if !ok {
		fmt.Fprintln(os.Stderr, "vh: unknown subcommand", os.Args[1])
		os.Exit(2)
	}
	f()
}

func init() {
	cmds["run"] = cmdRun
}
