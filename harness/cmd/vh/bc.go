package main

// vh bcreplay: replays the encoding vectors generated from Bytecode.tla on types/bytecode and on
// value.NewFunction/ToFunction.  An admissible vector must produce bit for bit the specified word
// and decode to what was encoded; an inadmissible one must be refused (EncodeSrc panics).

import (
	"bufio"
	"encoding/json"
	"fmt"
	"os"

	"github.com/paulsonkoly/calc/types/bytecode"
	"github.com/paulsonkoly/calc/types/value"
)

func cmdBcReplay() {
	in := lineScanner()
	w := bufio.NewWriter(os.Stdout)
	defer w.Flush()
	n, bad := 0, 0
	for in.Scan() {
		var o struct {
			Kind  string   `json:"kind"`
			V     M        `json:"v"`
			Admit bool     `json:"admit"`
			W     []uint64 `json:"w"`
		}
		if err := json.Unmarshal(in.Bytes(), &o); err != nil {
			fmt.Fprintln(os.Stderr, "vh bcreplay: bad line:", err)
			os.Exit(2)
		}
		n++
		g := func(k string) int { return int(o.V[k].(float64)) }
		why := ""
		if o.Kind == "function" {
			if !o.Admit {
				continue // counts beyond the fields cannot be produced by the compiler (locals are limited by operand addresses first)
			}
			fv := value.NewFunction(g("entry"), nil, g("params"), g("locals"))
			fd, ok := fv.ToFunction()
			if !ok || fd.Node != g("entry") || fd.ParamCnt != g("params") || fd.LocalCnt != g("locals") {
				why = fmt.Sprintf("function value decodes to entry %d params %d locals %d", fd.Node, fd.ParamCnt, fd.LocalCnt)
			}
		} else {
			var word bytecode.Type
			refused := false
			sel, osel := g("sel"), (g("sel")+1)%3
			func() {
				defer func() {
					if recover() != nil {
						refused = true
					}
				}()
				word = bytecode.New(bytecode.OpCode(g("op"))) | bytecode.EncodeSrc(sel, uint64(g("k")), g("addr")) | bytecode.EncodeSrc(osel, uint64(g("ok")), g("oaddr"))
			}()
			dec := func(s int) (uint64, int) {
				switch s {
				case 0:
					return word.Src0(), word.Src0Addr()
				case 1:
					return word.Src1(), word.Src1Addr()
				}
				return word.Src2(), word.Src2Addr()
			}
			switch {
			case !o.Admit && !refused:
				// outside the range the model admits: fine if the implementation round-trips it anyway, wrong if it wraps
				k, a := dec(sel)
				ok2, oa := dec(osel)
				if a != g("addr") || int(k) != g("k") || int(ok2) != g("ok") || oa != g("oaddr") || int(word.OpCode()) != g("op")%128 {
					why = fmt.Sprintf("address %d is accepted and decodes as %d", g("addr"), a)
				}
			case !o.Admit:
			case refused:
				why = "an admissible operand is refused"
			default:
				want := o.W[0]<<48 | o.W[1]<<32 | o.W[2]<<16 | o.W[3]
				k, a := dec(sel)
				ok2, oa := dec(osel)
				k3, a3 := dec((sel + 2) % 3)
				if uint64(word) != want {
					why = fmt.Sprintf("word %#x, specified %#x", uint64(word), want)
				} else if int(k) != g("k") || a != g("addr") || int(ok2) != g("ok") || oa != g("oaddr") || k3 != 0 || a3 != 0 || int(word.OpCode()) != g("op")%128 {
					why = fmt.Sprintf("decodes to op %d kind %d addr %d / kind %d addr %d / kind %d addr %d", word.OpCode(), k, a, ok2, oa, k3, a3)
				}
			}
		}
		if why != "" {
			bad++
			emit(w, M{"mismatch": M{"kind": o.Kind, "v": o.V, "admit": o.Admit, "w": o.W}, "why": why})
		}
	}
	emit(w, M{"summary": true, "cases": n, "mismatches": bad})
}

func init() { cmds["bcreplay"] = cmdBcReplay }
