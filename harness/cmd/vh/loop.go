package main

// vh loop: sessions through the real read-eval loop (node.Loop over node.NewFReader), in process, so that the machine can
// be inspected afterwards through the verif accessors.  One JSON object per input line:
//   {"id": 1, "lines": ["x = 1", "x + 1"], "doout": true, "stdin": ["a\n"], "budget": 3000000}
// doout = true is the REPL's way of running a statement (its value is wanted and echoed), false is file mode.
// Output: {"id", "out": transcript, "residue": {sp, frames, closures, live, stacklen, ipgap}, "kind": ok|panic|hang, "msg"}

import (
	"bufio"
	"encoding/json"
	"fmt"
	"io"
	"log"
	"os"
	"strings"

	"github.com/paulsonkoly/calc/builtin"
	"github.com/paulsonkoly/calc/lexer"
	"github.com/paulsonkoly/calc/memory"
	"github.com/paulsonkoly/calc/parser"
	"github.com/paulsonkoly/calc/types/bytecode"
	"github.com/paulsonkoly/calc/types/compresult"
	"github.com/paulsonkoly/calc/types/dbginfo"
	"github.com/paulsonkoly/calc/types/node"
	"github.com/paulsonkoly/calc/types/value"
	"github.com/paulsonkoly/calc/vm"
)

type loopIn struct {
	ID     int      `json:"id"`
	Lines  []string `json:"lines"`
	DoOut  bool     `json:"doout"`
	Stdin  []string `json:"stdin"`
	Budget int      `json:"budget"`
}

func cmdLoop() {
	log.SetOutput(io.Discard)
	realOut, realIn := os.Stdout, os.Stdin
	outF, err := os.CreateTemp("", "vhloopout")
	if err != nil {
		panic(err)
	}
	defer os.Remove(outF.Name())
	inF, err := os.CreateTemp("", "vhloopin")
	if err != nil {
		panic(err)
	}
	defer os.Remove(inF.Name())
	in := lineScanner()
	w := bufio.NewWriter(realOut)
	defer w.Flush()
	for in.Scan() {
		var li loopIn
		if err := json.Unmarshal(in.Bytes(), &li); err != nil {
			fmt.Fprintln(os.Stderr, "vh loop: bad line:", err)
			os.Exit(2)
		}
		script, err := os.CreateTemp("", "vhloopscript")
		if err != nil {
			panic(err)
		}
		script.WriteString(strings.Join(li.Lines, "\n") + "\n")
		script.Close()
		outF.Truncate(0)
		outF.Seek(0, 0)
		inF.Truncate(0)
		inF.Seek(0, 0)
		for _, l := range li.Stdin {
			inF.WriteString(l)
		}
		inF.Seek(0, 0)
		budget := li.Budget
		if budget == 0 {
			budget = 3000000
		}
		res := M{"id": li.ID, "kind": "ok"}
		m := memory.New()
		cs := []bytecode.Type{}
		ds := []value.Type{}
		dbg := make(dbginfo.Type)
		cr := compresult.Type{CS: &cs, DS: &ds, Dbg: &dbg}
		builtin.Load(cr)
		virtM := vm.New(m, cr)
		steps := 0
		vm.VerifStepTop = nil
		vm.VerifStep = func(ip int, instr bytecode.Type, sp, frames, closures int, _ value.Type) {
			steps++
			if steps > budget {
				panic(budgetExceeded{"vm"})
			}
		}
		ticks := 0
		tickBudget := 0
		for _, l := range li.Lines {
			tickBudget += 40*len(l) + 640
		}
		tickBudget *= len(li.Lines) + 1 // the loop lexes the pending input again for every line
		lexer.VerifTick = func() {
			ticks++
			if ticks > tickBudget {
				panic(budgetExceeded{"lexer"})
			}
		}
		os.Stdout, os.Stdin = outF, inF
		func() {
			defer func() {
				if e := recover(); e != nil {
					if b, ok := e.(budgetExceeded); ok {
						res["kind"], res["msg"] = "hang", b.what
						return
					}
					res["kind"], res["msg"], res["site"] = "panic", normPanic(e), panicSite()
				}
			}()
			fr := node.NewFReader(script.Name())
			defer fr.Close()
			node.Loop(fr, parser.Type{}, virtM, li.DoOut)
		}()
		os.Stdout, os.Stdin = realOut, realIn
		vm.VerifStep, lexer.VerifTick = nil, nil
		os.Remove(script.Name())
		outF.Seek(0, 0)
		b, _ := io.ReadAll(outF)
		res["out"] = string(b)
		ip, live, sp, frames, closures, stackLen := virtM.VerifState()
		res["residue"] = M{"sp": sp, "frames": frames, "closures": closures, "live": live, "stacklen": stackLen, "ipgap": len(cs) - ip}
		res["steps"] = steps
		emit(w, res)
		w.Flush()
	}
}

func init() { cmds["loop"] = cmdLoop }
