package main

// vh memreplay: replays TLC-generated operation histories of Memory.tla on memory.Type's
// exported API (closure frames obtained with the real Top()), comparing every returned value.

import (
	"bufio"
	"encoding/json"
	"fmt"
	"os"

	"github.com/paulsonkoly/calc/memory"
	"github.com/paulsonkoly/calc/types/value"
)

type memOp struct {
	Op string `json:"op"`
	A  any    `json:"a"`
	B  any    `json:"b"`
	R  int    `json:"r"`
}

func num(x any) int { f, _ := x.(float64); return int(f) }

func eqInt(v value.Type, want int) bool {
	if want == 0 {
		return v.IsNil()
	}
	i, ok := v.ToInt()
	return ok && i == want
}

func memReplay(h []memOp, pregrow int) (step int, msg string) {
	step = -1
	defer func() {
		if e := recover(); e != nil {
			msg = "panic: " + normPanic(e)
		}
	}()
	mems := []*memory.Type{memory.New()}
	memory.VerifMinStack = 0
	if pregrow > 0 {
		// grow the main stack once, beforehand: it never reallocates afterwards; clones get stacks of that size as well
		for i := 0; i < pregrow; i++ {
			mems[0].Push(value.Nil)
		}
		mems[0].ResetSP()
		memory.VerifMinStack = pregrow
		defer func() { memory.VerifMinStack = 0 }()
	}
	widths := [][]int{{}}
	cur := 0
	type capt struct {
		f memory.Frame
		w int
	}
	refs := []capt{}
	closW := [][]int{{}} // width of the referenced frame per closure stack entry
	idx := func(s string, w int) int {
		if s == "first" || w == 1 {
			return 0
		}
		if s == "second" {
			return 1
		}
		return w - 1
	}
	for i, o := range h {
		step = i
		m := mems[cur]
		switch o.Op {
		case "push":
			m.Push(value.NewInt(num(o.A)))
		case "pop":
			if v := m.Pop(); !eqInt(v, o.R) {
				return i, fmt.Sprintf("pop returned %v, specified %d", v, o.R)
			}
		case "burst":
			n, b := num(o.A), num(o.B)
			for k := 0; k < n-2; k++ {
				m.Push(value.NewInt(-9))
			}
			m.Push(value.NewInt(b))
			m.Push(value.NewInt(b + 1))
		case "call":
			w, r, arg := num(o.A), num(o.B), o.R
			m.Push(value.NewInt(arg))
			m.PushFrame(1, w)
			if r == 0 {
				m.PushClosure(nil)
				closW[cur] = append(closW[cur], 0)
			} else {
				m.PushClosure(refs[r-1].f)
				closW[cur] = append(closW[cur], refs[r-1].w)
			}
			m.Push(value.NewInt(-1))
			widths[cur] = append(widths[cur], w)
		case "ret":
			m.PopFrame()
			m.PopClosure()
			widths[cur] = widths[cur][:len(widths[cur])-1]
			closW[cur] = closW[cur][:len(closW[cur])-1]
		case "set":
			w := widths[cur][len(widths[cur])-1]
			m.Set(idx(o.A.(string), w), value.NewInt(num(o.B)))
		case "get":
			w := widths[cur][len(widths[cur])-1]
			if v := m.LookUpLocal(idx(o.A.(string), w)); !eqInt(v, o.R) {
				return i, fmt.Sprintf("local %s read %v, last written %d", o.A, v, o.R)
			}
		case "setg":
			m.SetGlobal(o.A.(string), value.NewInt(num(o.B)))
		case "getg":
			if v := m.LookUpGlobal(o.A.(string)); !eqInt(v, o.R) {
				return i, fmt.Sprintf("global %s read %v, last written %d", o.A, v, o.R)
			}
		case "capture":
			refs = append(refs, capt{m.Top(), widths[cur][len(widths[cur])-1]})
		case "getc":
			w := closW[cur][len(closW[cur])-1]
			if v := m.LookUpClosure(idx(o.A.(string), w)); !eqInt(v, o.R) {
				return i, fmt.Sprintf("captured %s read %v, last written %d", o.A, v, o.R)
			}
		case "clone":
			mems = append(mems, m.Clone(nil))
			widths = append(widths, []int{widths[cur][len(widths[cur])-1]})
			closW = append(closW, append([]int{}, closW[cur]...))
		case "kill":
		case "recycle":
			k := num(o.A) - 1
			mems[k] = m.Clone(mems[k])
			widths[k] = []int{widths[cur][len(widths[cur])-1]}
			closW[k] = append([]int{}, closW[cur]...)
		case "switch":
			cur = num(o.A) - 1
		}
	}
	return -1, ""
}

func cmdMemReplay() {
	in := lineScanner()
	w := bufio.NewWriter(os.Stdout)
	defer w.Flush()
	n, bad := 0, 0
	for in.Scan() {
		var o struct {
			H       []memOp `json:"h"`
			Pregrow int     `json:"pregrow"`
		}
		if err := json.Unmarshal(in.Bytes(), &o); err != nil {
			fmt.Fprintln(os.Stderr, "vh memreplay: bad line:", err)
			os.Exit(2)
		}
		n++
		if step, msg := memReplay(o.H, o.Pregrow); msg != "" {
			bad++
			emit(w, M{"mismatch": o, "step": step, "why": msg})
		}
	}
	emit(w, M{"summary": true, "cases": n, "mismatches": bad})
}

func init() { cmds["memreplay"] = cmdMemReplay }
