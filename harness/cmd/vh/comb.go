package main

// vh combreplay: builds each TLC-enumerated parser term with the real combinator package over
// a real TLexer and compares accept/reject, result nodes and the end position.
// vh tlreplay: replays TLC-enumerated operation sequences on lexer.TLexer.

import (
	"bufio"
	"encoding/json"
	"fmt"
	"os"
	"reflect"
	"strings"

	c "github.com/paulsonkoly/calc/combinator"
	"github.com/paulsonkoly/calc/lexer"
	"github.com/paulsonkoly/calc/types/token"
)

type valueWrap struct{}

func (valueWrap) Wrap(t c.Token) c.Node { return t.(token.Type).Value }

func buildParser(p M) c.Parser {
	sub := func(k string) c.Parser { return buildParser(p[k].(M)) }
	list := func(k string) []c.Parser {
		ps := []c.Parser{}
		for _, e := range p[k].([]any) {
			ps = append(ps, buildParser(e.(M)))
		}
		return ps
	}
	switch p["c"] {
	case "ok":
		return c.Ok()
	case "acc":
		x := p["x"].(string)
		return c.Accept(func(t c.Token) bool { return t.(token.Type).Value == x }, x, valueWrap{})
	case "and":
		return c.And(sub("a"), sub("b"))
	case "seq":
		return c.Seq(list("ps")...)
	case "oneof":
		return c.OneOf(list("ps")...)
	case "choose":
		cs := []c.Conditional{}
		for _, e := range p["cs"].([]any) {
			cs = append(cs, c.Conditional{Gate: buildParser(e.(M)["g"].(M)), OnSuccess: buildParser(e.(M)["s"].(M))})
		}
		return c.Choose(cs...)
	case "any":
		return c.Any(c.Conditional{Gate: sub("g"), OnSuccess: sub("s")})
	case "sepby":
		return c.SeparatedBy(sub("a"), sub("b"))
	case "surr":
		return c.SurroundedBy(sub("a"), sub("b"), sub("cc"))
	case "assert":
		return c.Assert(sub("p"))
	case "not":
		return c.Not(sub("p"))
	case "drop":
		return c.Drop(sub("p"))
	case "fmap":
		f := p["f"].(string)
		return c.Fmap(func(ns []c.Node) []c.Node {
			switch f {
			case "wrap":
				l := []any{"("}
				for _, n := range ns {
					l = append(l, n)
				}
				l = append(l, ")")
				return []c.Node{l}
			case "count":
				return []c.Node{float64(len(ns))}
			}
			return []c.Node{}
		}, sub("p"))
	}
	panic(fmt.Sprint("unknown term ", p))
}

func cmdCombReplay() {
	in := lineScanner()
	w := bufio.NewWriter(os.Stdout)
	defer w.Flush()
	n, bad := 0, 0
	for in.Scan() {
		var o M
		if err := json.Unmarshal(in.Bytes(), &o); err != nil {
			fmt.Fprintln(os.Stderr, "vh combreplay: bad line:", err)
			os.Exit(2)
		}
		n++
		toks := []string{}
		if l, ok := o["s"].([]any); ok {
			for _, t := range l {
				toks = append(toks, t.(string))
			}
		}
		tl := lexer.NewTLexer(strings.Join(toks, " "))
		var nodes []c.Node
		var perr *c.Error
		pan := any(nil)
		ticks := 0
		lexer.VerifTick = func() {
			ticks++
			if ticks > 10000 {
				panic(budgetExceeded{"lexer"})
			}
		}
		func() {
			defer func() { pan = recover() }()
			p := buildParser(o["p"].(M))
			nodes, perr = p(&tl)
		}()
		rem := 0
		func() {
			defer func() { recover() }()
			for tl.Next() && rem < 100 {
				rem++
			}
		}()
		lexer.VerifTick = nil
		pos := len(toks) + 2 - rem
		wantOk := o["ok"].(bool)
		good := pan == nil && (perr == nil) == wantOk && float64(pos) == o["pos"].(float64)
		if good && wantOk {
			want, _ := o["nodes"].([]any)
			got := []any{}
			for _, x := range nodes {
				got = append(got, x)
			}
			if want == nil {
				want = []any{}
			}
			good = reflect.DeepEqual(want, got)
		}
		if !good {
			bad++
			real := M{"ok": perr == nil, "nodes": fmt.Sprint(nodes), "pos": pos}
			if pan != nil {
				real["panic"] = normPanic(pan)
			}
			emit(w, M{"mismatch": o, "real": real})
		}
	}
	emit(w, M{"summary": true, "cases": n, "mismatches": bad})
}

type tlOp struct {
	Op  string `json:"op"`
	Ok  bool   `json:"ok"`
	Tok int    `json:"tok"`
}
type tlCase struct {
	Src string `json:"src"`
	N   int    `json:"n"`
	Err bool   `json:"err"`
	H   []tlOp `json:"h"`
}

func cmdTLReplay() {
	in := lineScanner()
	w := bufio.NewWriter(os.Stdout)
	defer w.Flush()
	n, bad := 0, 0
	fresh := map[string][]token.Type{}
	freshErr := map[string]bool{}
	for in.Scan() {
		var o tlCase
		if err := json.Unmarshal(in.Bytes(), &o); err != nil {
			fmt.Fprintln(os.Stderr, "vh tlreplay: bad line:", err)
			os.Exit(2)
		}
		n++
		T, seen := fresh[o.Src]
		if !seen {
			l := lexer.NewLexer(o.Src)
			for i := 0; i < 100 && l.Next(); i++ {
				T = append(T, l.Token)
				if l.Err != nil {
					freshErr[o.Src] = true
					break
				}
			}
			fresh[o.Src] = T
		}
		why := ""
		if len(T) != o.N || freshErr[o.Src] != o.Err {
			why = fmt.Sprintf("fresh scan has %d tokens (error %v), the case assumes %d (error %v)", len(T), freshErr[o.Src], o.N, o.Err)
		}
		tl := lexer.NewTLexer(o.Src)
		if why == "" {
			func() {
				defer func() {
					if e := recover(); e != nil {
						why = "panic: " + normPanic(e)
					}
				}()
				for i, st := range o.H {
					switch st.Op {
					case "next":
						got := tl.Next()
						if got != st.Ok {
							why = fmt.Sprintf("step %d: Next() = %v, specified %v", i, got, st.Ok)
							return
						}
						if got {
							last := st.Tok == o.N && o.Err
							if last {
								if tl.Err() == nil {
									why = fmt.Sprintf("step %d: the lexer error is not reported again", i)
									return
								}
							} else if tl.Err() != nil || tl.Token().(token.Type) != T[st.Tok-1] {
								why = fmt.Sprintf("step %d: token %v, a fresh scan gives %v at position %d", i, tl.Token(), T[st.Tok-1], st.Tok)
								return
							}
						}
					case "snap":
						tl.Snapshot()
					case "rollback":
						tl.Rollback()
					case "commit":
						tl.Commit()
					}
				}
			}()
		}
		if why != "" {
			bad++
			emit(w, M{"mismatch": o, "why": why})
		}
	}
	emit(w, M{"summary": true, "cases": n, "mismatches": bad})
}

func init() {
	cmds["combreplay"] = cmdCombReplay
	cmds["tlreplay"] = cmdTLReplay
}
