package main

// vh front: the real front end on arbitrary text: lexer tokens with spans (bounded by the
// VerifTick hook), parser.Parse outcome (tree / error with span / panic / hang), and the
// caret rendering of the error (node.VerifReportError).

import (
	"bufio"
	"encoding/hex"
	"encoding/json"
	"fmt"
	"io"
	"log"
	"os"

	"github.com/paulsonkoly/calc/lexer"
	"github.com/paulsonkoly/calc/parser"
	"github.com/paulsonkoly/calc/types/node"
)

type frontIn struct {
	ID      int      `json:"id"`
	Src     string   `json:"src"`
	WantAst bool     `json:"wantast"`
	NoLex   bool     `json:"nolex"`
	Hex     string   `json:"hex"` // the input as hexadecimal bytes (for inputs that are not valid UTF-8 and so cannot travel as JSON text)
	Pre     []string `json:"pre"` // texts handed to parser.Parse before this one, in the same process (a session's earlier inputs)
}

// lastNexts is the number of TLexer.Next calls (replays included) the last guarded function made: the work of a parse.
var lastNexts int

func guarded(budget int, f func()) (outcome string, msg string) {
	ticks := 0
	lastNexts = 0
	nextBudget := 400*budget + 40000 // budget is linear in the input length; a parse that fetches tokens far more often than that does not backtrack boundedly
	lexer.VerifTick = func() {
		ticks++
		if ticks > budget {
			panic(budgetExceeded{"lexer"})
		}
	}
	lexer.VerifNext = func() {
		lastNexts++
		if lastNexts > nextBudget {
			panic(budgetExceeded{"parser"})
		}
	}
	defer func() {
		lexer.VerifTick = nil
		lexer.VerifNext = nil
		if e := recover(); e != nil {
			if _, ok := e.(budgetExceeded); ok {
				outcome = "hang"
				return
			}
			outcome, msg = "panic", normPanic(e)+"@"+panicSite()
		}
	}()
	f()
	return "ok", ""
}

func cmdFront() {
	log.SetOutput(io.Discard)
	realOut := os.Stdout
	outF, err := os.CreateTemp("", "vhfront")
	if err != nil {
		panic(err)
	}
	defer os.Remove(outF.Name())
	in := lineScanner()
	w := bufio.NewWriter(realOut)
	defer w.Flush()
	for in.Scan() {
		var fi frontIn
		if err := json.Unmarshal(in.Bytes(), &fi); err != nil {
			fmt.Fprintln(os.Stderr, "vh front: bad line:", err)
			os.Exit(2)
		}
		src := fi.Src
		if fi.Hex != "" {
			b, err := hex.DecodeString(fi.Hex)
			if err != nil {
				fmt.Fprintln(os.Stderr, "vh front: bad hex:", err)
				os.Exit(2)
			}
			src = string(b)
		}
		budget := 4*len(src) + 64
		res := M{"id": fi.ID}
		for _, pre := range fi.Pre {
			guarded(40*(4*len(pre)+64)+4096, func() { parser.Parse(pre) })
		}
		if !fi.NoLex {
			toks := [][]any{}
			lexErr := ""
			n := 0
			oc, msg := guarded(budget, func() {
				l := lexer.NewLexer(src)
				for l.Next() {
					n++
					if n > len(src)+8 {
						panic(budgetExceeded{"lexer"})
					}
					if l.Err != nil {
						lexErr = l.Err.Error()
						return
					}
					toks = append(toks, []any{l.Token.Type.String(), l.Token.From(), l.Token.To(), l.Token.Value})
				}
			})
			res["lex"] = M{"outcome": oc, "msg": msg, "toks": toks, "err": lexErr}
		}
		p := M{}
		oc, msg := guarded(40*budget+4096, func() {
			ast, perr := parser.Parse(src)
			if perr != nil {
				p["err"] = perr.Message()
				p["from"], p["to"] = perr.From(), perr.To()
				p["partial"] = len(ast)
				// rendering the error with its caret line
				os.Stdout = outF
				outF.Truncate(0)
				outF.Seek(0, 0)
				func() {
					defer func() {
						os.Stdout = realOut
						if e := recover(); e != nil {
							p["report"] = "panic: " + normPanic(e)
						}
					}()
					node.VerifReportError(perr, src)
					p["report"] = "ok"
				}()
				return
			}
			p["n"] = len(ast)
			if fi.WantAst {
				a := []any{}
				for _, st := range ast {
					a = append(a, astJSON(st))
				}
				p["ast"] = a
			}
		})
		os.Stdout = realOut
		p["outcome"], p["msg"] = oc, msg
		p["nexts"] = lastNexts
		res["parse"] = p
		emit(w, res)
	}
}

func init() { cmds["front"] = cmdFront }
