package main

// Shared encodings between the Go harness and the TLA+ specifications
// (DESIGN.md Appendix A): syntax trees, values, tokens.

import (
	"bufio"
	"encoding/json"
	"fmt"
	"math"
	"os"
	"strconv"

	"github.com/paulsonkoly/calc/types/node"
	"github.com/paulsonkoly/calc/types/value"
)

type M = map[string]any

func chars(s string) []any {
	r := []any{}
	for _, c := range s {
		r = append(r, string(c))
	}
	return r
}

// floatJSON encodes a float64 exactly as sign / numerator / 2^e when it is a
// small dyadic rational, else opaquely by the bits of the float64 (class opq).
func floatJSON(f float64) M {
	switch {
	case math.IsNaN(f):
		return M{"c": "nan", "neg": false, "n": 0, "e": 0}
	case math.IsInf(f, 1):
		return M{"c": "inf", "neg": false, "n": 0, "e": 0}
	case math.IsInf(f, -1):
		return M{"c": "inf", "neg": true, "n": 0, "e": 0}
	}
	neg := math.Signbit(f)
	a := math.Abs(f)
	if a == 0 {
		return M{"c": "fin", "neg": neg, "n": 0, "e": 0}
	}
	e := 0
	for a != math.Trunc(a) && e <= 40 {
		a *= 2
		e++
	}
	if a != math.Trunc(a) || a >= 1<<30 {
		return M{"c": "opq", "neg": false, "n": 0, "e": 0, "bits": fmt.Sprintf("%016x", math.Float64bits(f))}
	}
	return M{"c": "fin", "neg": neg, "n": int(a), "e": e}
}

func valJSON(v value.Type) any {
	if v.IsNil() {
		return M{"k": "nil"}
	}
	if i, ok := v.ToInt(); ok {
		if i > 1<<30 || i < -(1<<30) {
			return M{"k": "bigint", "txt": chars(fmt.Sprint(i))}
		}
		return M{"k": "int", "v": i}
	}
	if b, ok := v.ToBool(); ok {
		return M{"k": "bool", "v": b}
	}
	if s, ok := v.ToString(); ok {
		return M{"k": "str", "v": chars(s)}
	}
	if a, ok := v.ToArray(); ok {
		r := []any{}
		for _, e := range a {
			r = append(r, valJSON(e))
		}
		return M{"k": "arr", "v": r}
	}
	if _, ok := v.ToFunction(); ok {
		return M{"k": "fn"}
	}
	// the only remaining type is float; fmt.Sprint prints the shortest
	// representation that parses back to the same float64
	if f, err := strconv.ParseFloat(v.String(), 64); err == nil {
		m := floatJSON(f)
		m["k"] = "float"
		return m
	}
	return M{"k": "unknown", "txt": v.String()}
}

// valSig is a short signature of a value, computed the same way by CalcVM.tla (Sig): enough to tell which value an
// instruction fetched without carrying the value: n | i<decimal> | bt | bf | s<length> | a<length> | f | x (float).
func valSig(v value.Type) string {
	if v.IsNil() {
		return "n"
	}
	if i, ok := v.ToInt(); ok {
		return "i" + strconv.Itoa(i)
	}
	if b, ok := v.ToBool(); ok {
		if b {
			return "bt"
		}
		return "bf"
	}
	if s, ok := v.ToString(); ok {
		return "s" + strconv.Itoa(len([]rune(s)))
	}
	if a, ok := v.ToArray(); ok {
		return "a" + strconv.Itoa(len(a))
	}
	if _, ok := v.ToFunction(); ok {
		return "f"
	}
	return "x"
}

func astList(l node.List) []any {
	r := []any{}
	for _, e := range l.Elems {
		r = append(r, astJSON(e))
	}
	return r
}

// resolvedDump switches astJSON to the form of a tree after STRewrite: every name carries its storage class
// (l local, c closure, g global) and slot index, every function its number of local slots.
var resolvedDump bool

func rastJSON(n node.Type) any {
	resolvedDump = true
	defer func() { resolvedDump = false }()
	return astJSON(n)
}

// astJSON dumps a syntax tree as returned by parser.Parse (or, under rastJSON, as rewritten by STRewrite).
func astJSON(n node.Type) any {
	switch v := n.(type) {
	case node.Int:
		if int(v) > 1<<30 || int(v) < -(1<<30) {
			return M{"t": "bigint", "txt": chars(fmt.Sprint(int(v)))}
		}
		return M{"t": "int", "v": int(v)}
	case node.Float:
		return M{"t": "float", "v": floatJSON(float64(v))}
	case node.Bool:
		return M{"t": "bool", "v": bool(v)}
	case node.String:
		return M{"t": "str", "v": chars(string(v))}
	case node.Name:
		if resolvedDump {
			return M{"t": "name", "n": string(v), "s": "g", "ix": -1}
		}
		return M{"t": "name", "n": string(v)}
	case node.Local:
		return M{"t": "name", "n": v.VarName, "s": "l", "ix": v.Ix}
	case node.Closure:
		return M{"t": "name", "n": v.VarName, "s": "c", "ix": v.Ix}
	case node.List:
		return M{"t": "list", "e": astList(v)}
	case node.BinOp:
		return M{"t": "bin", "op": v.Op, "l": astJSON(v.Left), "r": astJSON(v.Right)}
	case node.UnOp:
		return M{"t": "un", "op": v.Op, "x": astJSON(v.Target)}
	case node.IndexAt:
		return M{"t": "ix1", "a": astJSON(v.Ary), "i": astJSON(v.At)}
	case node.IndexFromTo:
		return M{"t": "ix2", "a": astJSON(v.Ary), "i": astJSON(v.From), "j": astJSON(v.To)}
	case node.Function:
		ps := []any{}
		for _, p := range v.Parameters.Elems {
			if nm, ok := p.(node.Name); ok {
				ps = append(ps, string(nm))
			} else if l, ok := p.(node.Local); ok && resolvedDump && l.Ix == len(ps) {
				ps = append(ps, l.VarName) // a resolved parameter: the local whose slot is its position
			} else {
				ps = append(ps, fmt.Sprintf("?%T%v", p, p))
			}
		}
		if resolvedDump {
			return M{"t": "fn", "params": ps, "body": astJSON(v.Body), "nl": v.LocalCnt}
		}
		return M{"t": "fn", "params": ps, "body": astJSON(v.Body)}
	case node.Call:
		return M{"t": "call", "name": astJSON(v.Name), "args": astList(v.Arguments)}
	case node.Assign:
		return M{"t": "assign", "tgt": astJSON(v.VarRef), "e": astJSON(v.Value)}
	case node.If:
		return M{"t": "if", "c": astJSON(v.Condition), "th": astJSON(v.TrueCase)}
	case node.IfElse:
		return M{"t": "ifelse", "c": astJSON(v.Condition), "th": astJSON(v.TrueCase), "el": astJSON(v.FalseCase)}
	case node.While:
		return M{"t": "while", "c": astJSON(v.Condition), "body": astJSON(v.Body)}
	case node.For:
		return M{"t": "for", "vars": astList(v.VarRefs), "iters": astList(v.Iterators), "body": astJSON(v.Body)}
	case node.Return:
		return M{"t": "ret", "e": astJSON(v.Target)}
	case node.Yield:
		return M{"t": "yield", "e": astJSON(v.Target)}
	case node.Block:
		ss := []any{}
		for _, s := range v.Body {
			ss = append(ss, astJSON(s))
		}
		return M{"t": "block", "ss": ss}
	}
	return M{"t": fmt.Sprintf("?%T", n)}
}

func lineScanner() *bufio.Scanner {
	in := bufio.NewScanner(os.Stdin)
	in.Buffer(make([]byte, 1<<20), 1<<28)
	return in
}

func emit(w *bufio.Writer, v any) {
	b, err := json.Marshal(v)
	if err != nil {
		b, _ = json.Marshal(M{"marshal_error": err.Error()})
	}
	w.Write(b)
	w.WriteByte('\n')
}
