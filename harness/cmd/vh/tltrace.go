package main

// vh tltrace: records the operations the real parser (or a combinator term) performs on the
// transactional lexer, through a recording wrapper that implements combinator.RollbackLexer.
// Each Next() is recorded with its result and the index, in a fresh scan of the same text, of
// the token it returned.  The traces are validated against TLexer.tla by TLC (TLexerTrace).

import (
	"bufio"
	"encoding/json"
	"fmt"
	"os"

	c "github.com/paulsonkoly/calc/combinator"
	"github.com/paulsonkoly/calc/lexer"
	"github.com/paulsonkoly/calc/parser"
	"github.com/paulsonkoly/calc/types/token"
)

type recLexer struct {
	tl  lexer.TLexer
	T   []token.Type
	err bool
	ops []tlOp
}

func (r *recLexer) index(t token.Type) int {
	for i, x := range r.T {
		if x == t {
			return i + 1
		}
	}
	return -1
}

func (r *recLexer) Next() bool {
	ok := r.tl.Next()
	op := tlOp{Op: "next", Ok: ok}
	if ok {
		if r.tl.Err() != nil {
			if r.err {
				op.Tok = len(r.T)
			} else {
				op.Tok = -2
			}
		} else {
			op.Tok = r.index(r.tl.Token().(token.Type))
		}
	}
	r.ops = append(r.ops, op)
	return ok
}
func (r *recLexer) Token() c.Token { return r.tl.Token() }
func (r *recLexer) Err() error     { return r.tl.Err() }
func (r *recLexer) From() int      { return r.tl.From() }
func (r *recLexer) To() int        { return r.tl.To() }
func (r *recLexer) Snapshot()      { r.tl.Snapshot(); r.ops = append(r.ops, tlOp{Op: "snap", Ok: true}) }
func (r *recLexer) Rollback()      { r.tl.Rollback(); r.ops = append(r.ops, tlOp{Op: "rollback", Ok: true}) }
func (r *recLexer) Commit()        { r.tl.Commit(); r.ops = append(r.ops, tlOp{Op: "commit", Ok: true}) }

func cmdTLTrace() {
	in := lineScanner()
	w := bufio.NewWriter(os.Stdout)
	defer w.Flush()
	for in.Scan() {
		var o struct {
			ID   int    `json:"id"`
			Src  string `json:"src"`
			Term M      `json:"term"`
		}
		if err := json.Unmarshal(in.Bytes(), &o); err != nil {
			fmt.Fprintln(os.Stderr, "vh tltrace: bad line:", err)
			os.Exit(2)
		}
		r := &recLexer{tl: lexer.NewTLexer(o.Src)}
		ticks := 0
		lexer.VerifTick = func() {
			ticks++
			if ticks > 8*len(o.Src)+4096 {
				panic(budgetExceeded{"lexer"})
			}
		}
		l := lexer.NewLexer(o.Src)
		func() {
			defer func() { recover() }()
			for i := 0; i < len(o.Src)+8 && l.Next(); i++ {
				r.T = append(r.T, l.Token)
				if l.Err != nil {
					r.err = true
					break
				}
			}
		}()
		res := M{"id": o.ID, "n": len(r.T), "err": r.err}
		func() {
			defer func() {
				if e := recover(); e != nil {
					res["panic"] = normPanic(e)
				}
			}()
			var perr *c.Error
			if o.Term != nil {
				_, perr = buildParser(o.Term)(r)
			} else {
				_, perr = parser.VerifProgram(r)
			}
			res["accepted"] = perr == nil
		}()
		lexer.VerifTick = nil
		res["ops"] = r.ops
		emit(w, res)
	}
}

func init() { cmds["tltrace"] = cmdTLTrace }
