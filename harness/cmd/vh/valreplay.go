package main

// vh valreplay: replays operator applications generated from CalcValues.tla on the
// exported methods of types/value and compares every result with the specified one.

import (
	"bufio"
	"encoding/json"
	"fmt"
	"math"
	"os"
	"reflect"
	"strconv"

	"github.com/paulsonkoly/calc/types/bytecode"
	"github.com/paulsonkoly/calc/types/value"
)

func decVal(v M) value.Type {
	switch v["k"] {
	case "nil":
		return value.Nil
	case "int":
		return value.NewInt(int(v["v"].(float64)))
	case "bigint":
		i, err := strconv.ParseInt(txtOf(v), 10, 64)
		if err != nil {
			panic(fmt.Sprint("bad big integer ", v))
		}
		return value.NewInt(int(i))
	case "bool":
		return value.NewBool(v["v"].(bool))
	case "fn":
		return value.NewFunction(0, nil, 0, 0)
	case "str":
		s := ""
		if l, ok := v["v"].([]any); ok {
			for _, c := range l {
				s += c.(string)
			}
		}
		return value.NewString(s)
	case "arr":
		a := []value.Type{}
		if l, ok := v["v"].([]any); ok {
			for _, e := range l {
				a = append(a, decVal(e.(M)))
			}
		}
		return value.NewArray(a)
	case "float":
		return value.NewFloat(decFloat(v))
	}
	panic(fmt.Sprint("bad value ", v))
}

func txtOf(v M) string {
	s := ""
	if l, ok := v["txt"].([]any); ok {
		for _, c := range l {
			s += c.(string)
		}
	}
	return s
}

func decFloat(v M) float64 {
	neg := v["neg"].(bool)
	var f float64
	switch v["c"] {
	case "nan":
		return math.NaN()
	case "inf":
		f = math.Inf(1)
	default:
		f = v["n"].(float64) / math.Pow(2, v["e"].(float64))
	}
	if neg {
		f = math.Copysign(f, -1)
	}
	return f
}

// sameVal compares a specified value with a real one, bit-exactly for floats
func sameVal(s M, r value.Type) bool {
	switch s["k"] {
	case "nil":
		return r.IsNil()
	case "int":
		i, ok := r.ToInt()
		return ok && i == int(s["v"].(float64))
	case "bigint":
		i, ok := r.ToInt()
		return ok && fmt.Sprint(i) == txtOf(s)
	case "bool":
		b, ok := r.ToBool()
		return ok && b == s["v"].(bool)
	case "fn":
		_, ok := r.ToFunction()
		return ok
	case "str":
		x, ok := r.ToString()
		if !ok {
			return false
		}
		t := ""
		if l, ok := s["v"].([]any); ok {
			for _, c := range l {
				t += c.(string)
			}
		}
		return x == t
	case "arr":
		a, ok := r.ToArray()
		l, _ := s["v"].([]any)
		if !ok || len(a) != len(l) {
			return false
		}
		for i := range a {
			if !sameVal(l[i].(M), a[i]) {
				return false
			}
		}
		return true
	case "float":
		if r.IsNil() {
			return false
		}
		if _, ok := r.ToInt(); ok {
			return false
		}
		if _, ok := r.ToBool(); ok {
			return false
		}
		if _, ok := r.ToString(); ok {
			return false
		}
		if _, ok := r.ToArray(); ok {
			return false
		}
		if _, ok := r.ToFunction(); ok {
			return false
		}
		f, err := strconv.ParseFloat(r.String(), 64)
		if err != nil {
			return false
		}
		w := decFloat(s)
		if math.IsNaN(w) {
			return math.IsNaN(f)
		}
		return f == w && math.Signbit(f) == math.Signbit(w)
	}
	return false
}

var valOps = map[string]bytecode.OpCode{"+": bytecode.ADD, "-": bytecode.SUB, "*": bytecode.MUL, "/": bytecode.DIV,
	"<": bytecode.LT, ">": bytecode.GT, "<=": bytecode.LE, ">=": bytecode.GE, "==": bytecode.EQ, "!=": bytecode.NE,
	"&": bytecode.AND, "|": bytecode.OR, "&&": bytecode.AND, "||": bytecode.OR}

func applyVal(op string, a, b, c value.Type) (r value.Type, err error, pan any) {
	defer func() {
		if e := recover(); e != nil {
			pan = e
		}
	}()
	switch op {
	case "+", "-", "*", "/":
		r, err = a.Arith(valOps[op], b)
	case "%":
		r, err = a.Mod(b)
	case "<", ">", "<=", ">=":
		r, err = a.Relational(valOps[op], b)
	case "==", "!=":
		r, err = a.Eq(valOps[op], b)
	case "&", "|", "&&", "||":
		r, err = a.Logic(valOps[op], b)
	case "<<":
		r, err = a.Shift(bytecode.LSH, b)
	case ">>":
		r, err = a.Shift(bytecode.RSH, b)
	case "ix1":
		r, err = a.Index(b)
	case "ix2":
		r, err = a.Index(b, c)
	case "un#":
		r, err = a.Len()
	case "un!":
		r, err = a.Not()
	case "un~":
		r, err = a.Flip()
	case "un-":
		r, err = value.NewInt(-1).Arith(bytecode.MUL, a)
	case "render":
		r = value.NewString(a.String())
	case "abbrev":
		r = value.NewString(a.Abbrev())
	default:
		panic("vh valreplay: unknown op " + op)
	}
	return
}

func cmdValReplay() {
	in := lineScanner()
	w := bufio.NewWriter(os.Stdout)
	defer w.Flush()
	n, unspec, bad := 0, 0, 0
	cls := map[error]string{value.ErrNil: "nil", value.ErrType: "type", value.ErrZeroDiv: "zerodiv", value.ErrIndex: "index"}
	for in.Scan() {
		var o M
		if err := json.Unmarshal(in.Bytes(), &o); err != nil {
			fmt.Fprintln(os.Stderr, "vh valreplay: bad line:", err)
			os.Exit(2)
		}
		n++
		op := o["op"].(string)
		exp := o["r"].(M)
		if e, ok := exp["err"]; ok && e == "unspec" {
			unspec++
			continue
		}
		a, b := decVal(o["a"].(M)), decVal(o["b"].(M))
		c := value.Nil
		if cv, ok := o["c"].(M); ok {
			c = decVal(cv)
		}
		r, err, pan := applyVal(op, a, b, c)
		if reflect.DeepEqual(o["a"], o["b"]) {
			// values are mathematical in the specification: the same array given twice (aliased storage) must behave
			// like two equal arrays; if it does not, report the aliased result
			r2, err2, pan2 := applyVal(op, a, a, c)
			same := (pan2 == nil) == (pan == nil) && (err2 == nil) == (err == nil) && (err != nil || pan != nil || r.String() == r2.String())
			if !same {
				r, err, pan = r2, err2, pan2
			}
		}
		ok := false
		got := M{}
		switch {
		case pan != nil:
			got = M{"panic": normPanic(pan)}
		case err != nil:
			got = M{"err": cls[err]}
			ok = exp["err"] == cls[err] || exp["alt"] == cls[err]
		default:
			got = M{"val": valJSON(r)}
			if v, has := exp["val"]; has {
				ok = sameVal(v.(M), r)
			}
		}
		if !ok {
			bad++
			emit(w, M{"mismatch": o, "real": got})
		}
	}
	emit(w, M{"summary": true, "tuples": n, "unspec": unspec, "mismatches": bad})
}

func init() { cmds["valreplay"] = cmdValReplay }
