module verif/harness

go 1.22.0

require github.com/paulsonkoly/calc v0.0.0

require (
	github.com/chzyer/readline v1.5.1 // indirect
	github.com/kamstrup/intmap v0.4.0 // indirect
)

replace github.com/paulsonkoly/calc => /repo
